"""(T1) translator: reads the *current* Python source of jaxtyping with `ast` and regenerates
`lean/JaxVerif/Generated/*.lean`, the facts the theorems are stated against.

An unrecognised construct is emitted as `unknown` (never guessed): the dependent `decide`
obligation then fails and the check proceeds to its failing-input search.
"""
from __future__ import annotations

import ast
import json
import os

from common import GEN, REPO, write_if_changed

SRC = os.path.join(REPO, "jaxtyping")


def parse(name):
    path = os.path.join(SRC, name)
    with open(path) as fh:
        return ast.parse(fh.read(), filename=path)


def find_def(tree, *path):
    """find nested FunctionDef/ClassDef by names"""
    node = tree
    for nm in path:
        found = None
        for ch in ast.walk(node) if node is tree else ast.iter_child_nodes(node):
            if isinstance(ch, (ast.FunctionDef, ast.ClassDef, ast.AsyncFunctionDef)) and ch.name == nm:
                found = ch
                break
        if found is None:
            # one more level: search deeper
            for ch in ast.walk(node):
                if isinstance(ch, (ast.FunctionDef, ast.ClassDef, ast.AsyncFunctionDef)) and ch.name == nm:
                    found = ch
                    break
        if found is None:
            return None
        node = found
    return node


def call_name(node):
    if isinstance(node, ast.Call):
        f = node.func
        if isinstance(f, ast.Name):
            return f.id
        if isinstance(f, ast.Attribute):
            return f.attr
    return None


def calls_in(nodes, name):
    out = []
    for n in nodes:
        for ch in ast.walk(n):
            if call_name(ch) == name:
                out.append(ch)
    return out


def handler_class(h: ast.ExceptHandler):
    if h.type is None:
        return "BaseException"
    if isinstance(h.type, ast.Name):
        return h.type.id
    if isinstance(h.type, ast.Tuple):
        return "(" + ",".join(getattr(e, "id", "?") for e in h.type.elts) + ")"
    return "?"


# --------------------------------------------------------------------------- skeleton facts


def rollback_fact(fn: ast.FunctionDef, inner_call: str):
    """The try around `inner_call` inside `fn`: which class the handler catches, whether it
    restores all four memos from the snapshot and re-raises; and whether the False path
    restores too. The snapshot may be four `x_bak = x.copy()` assignments under any names or one
    tuple of four `.copy()` calls restored with `set_shape_memo(*backup)`."""
    fact = {"catch": "unknown", "restores_four": False, "reraises": False, "false_path_restores": False, "snapshots": 0}
    if fn is None:
        return fact
    copy_of = {}    # local name -> source expression it is a .copy() of
    tuple_of = {}   # local name -> list of source expressions, for name = (a.copy(), b.copy(), ...)

    def copied(node):
        if isinstance(node, ast.Call) and isinstance(node.func, ast.Attribute) and node.func.attr == "copy" and not node.args:
            return ast.unparse(node.func.value)
        return None

    whole = {n.targets[0].id for n in ast.walk(fn) if isinstance(n, ast.Assign) and len(n.targets) == 1 and isinstance(n.targets[0], ast.Name)
             and call_name(n.value) == "get_shape_memo"}   # names holding all four dictionaries
    for node in ast.walk(fn):
        if isinstance(node, ast.Assign) and len(node.targets) == 1 and isinstance(node.targets[0], ast.Name):
            c = copied(node.value)
            v = node.value
            if c is not None:
                copy_of[node.targets[0].id] = c
            elif isinstance(v, ast.Tuple) and v.elts and all(copied(e) is not None for e in v.elts):
                tuple_of[node.targets[0].id] = [copied(e) for e in v.elts]
            elif call_name(v) == "tuple" and len(v.args) == 1 and isinstance(v.args[0], (ast.GeneratorExp, ast.ListComp)) \
                    and len(v.args[0].generators) == 1 and not v.args[0].generators[0].ifs \
                    and isinstance(v.args[0].generators[0].target, ast.Name) and copied(v.args[0].elt) == v.args[0].generators[0].target.id \
                    and (ast.unparse(v.args[0].generators[0].iter) in whole or call_name(v.args[0].generators[0].iter) == "get_shape_memo"):
                # `tuple(m.copy() for m in memos)` with `memos = get_shape_memo()`: a copy of each of the four
                tuple_of[node.targets[0].id] = ["memo0", "memo1", "memo2", "memo3"]

    # which of the four dictionaries an expression is: `a, b, c, d = get_shape_memo()` (also with `_`), `memos[i]` of a name
    # holding the whole tuple, or the i-th one of `tuple(m.copy() for m in memos)`
    position = {f"memo{i}": i for i in range(4)}
    for node in ast.walk(fn):
        if isinstance(node, ast.Assign) and len(node.targets) == 1 and isinstance(node.targets[0], ast.Tuple) and len(node.targets[0].elts) == 4 \
                and (call_name(node.value) == "get_shape_memo" or (isinstance(node.value, ast.Name) and node.value.id in whole)):
            for i, e in enumerate(node.targets[0].elts):
                if isinstance(e, ast.Name) and e.id != "_":
                    if position.get(e.id, i) != i:
                        position[e.id] = -1        # the same name for two different dictionaries
                    else:
                        position[e.id] = i
    for w in whole:
        for i in range(4):
            position[f"{w}[{i}]"] = i
        position[f"{w}[-1]"], position[f"{w}[-2]"], position[f"{w}[-3]"], position[f"{w}[-4]"] = 3, 2, 1, 0

    def restored_seq(call):
        """the dictionaries a set_shape_memo call puts back from copies, in argument order (None = not a copy)"""
        if len(call.args) == 1 and isinstance(call.args[0], ast.Starred) and isinstance(call.args[0].value, ast.Name) and not call.keywords:
            return list(tuple_of.get(call.args[0].value.id, []))
        if call.keywords and not call.args:
            order = ["single_memo", "variadic_memo", "pytree_memo", "arg_memo"]
            kw = {k.arg: k.value for k in call.keywords}
            if sorted(kw) == sorted(order) and all(isinstance(kw[k], ast.Name) and kw[k].id in copy_of for k in order):
                return [copy_of[kw[k].id] for k in order]
            return []
        if not call.keywords and all(isinstance(a, ast.Name) and a.id in copy_of for a in call.args):
            return [copy_of[a.id] for a in call.args]
        return []

    def restored(call):
        """the distinct dictionaries a set_shape_memo call puts back from copies"""
        return set(restored_seq(call))

    def in_order(call):
        """each of the four goes back into the slot it was read from (the tables all are dicts: a swap is silent)"""
        seq = restored_seq(call)
        return len(seq) == 4 and all(position.get(x, -1) == i for i, x in enumerate(seq))

    fact["snapshots"] = max(len(set(copy_of.values())), max((len(set(v)) for v in tuple_of.values()), default=0))
    for node in ast.walk(fn):
        if isinstance(node, ast.Try) and calls_in(node.body, inner_call):
            for h in node.handlers:
                cls = handler_class(h)
                sets = calls_in(h.body, "set_shape_memo")
                if sets:
                    fact["catch"] = {"Exception": "exceptionOnly", "BaseException": "baseException"}.get(cls, "unknown")
                    fact["restores_four"] = all(len(restored(c)) == 4 and in_order(c) for c in sets)
                    fact["reraises"] = any(isinstance(s, ast.Raise) and s.exc is None for s in h.body)
            break
    # False path: an `if` (outside the handler) one of whose branches puts all four back; the branch returns, or
    # the statement after the `if` does
    in_handler = set()
    for node in ast.walk(fn):
        if isinstance(node, ast.ExceptHandler):
            in_handler.update(id(n) for n in ast.walk(node))
    # ... or, at the top level of the function after the try, before the final `return`
    for i, st in enumerate(fn.body):
        if isinstance(st, ast.Expr) and call_name(st.value) == "set_shape_memo" and len(restored(st.value)) == 4 and in_order(st.value) \
                and any(isinstance(p, ast.Try) and calls_in(p.body, inner_call) for p in fn.body[:i]) and any(isinstance(n, ast.Return) for n in fn.body[i + 1:]):
            fact["false_path_restores"] = True
    for node in ast.walk(fn):
        if isinstance(node, ast.If) and id(node) not in in_handler:
            for branch in (node.body, node.orelse):
                sets = [c for s in branch for c in calls_in([s], "set_shape_memo") if not isinstance(s, (ast.If, ast.Try, ast.For, ast.While, ast.With))]
                if sets and all(len(restored(c)) == 4 and in_order(c) for c in sets):
                    fact["false_path_restores"] = True
    return fact


def module_constants(tree):
    """module-level names bound exactly once to a literal constant and never rebound through `global`"""
    counts, vals = {}, {}
    for n in tree.body:
        if isinstance(n, ast.Assign) and len(n.targets) == 1 and isinstance(n.targets[0], ast.Name):
            counts[n.targets[0].id] = counts.get(n.targets[0].id, 0) + 1
            if isinstance(n.value, ast.Constant):
                vals[n.targets[0].id] = n.value
    rebound = {nm for n in ast.walk(tree) if isinstance(n, ast.Global) for nm in n.names}
    return {k: v for k, v in vals.items() if counts[k] == 1 and k not in rebound}


class _ConstSubst(ast.NodeTransformer):
    def __init__(self, env):
        self.env = env

    def visit_Name(self, node):
        if isinstance(node.ctx, ast.Load) and node.id in self.env:
            return ast.Constant(self.env[node.id].value)
        return node


def with_constants(node, env):
    """a copy of `node` with module-level constants written out"""
    import copy

    return ast.fix_missing_locations(_ConstSubst(env).visit(copy.deepcopy(node)))


def walk_with_helpers(fn, tree):
    """the nodes of `fn` and of every module-level function it calls by name (transitively)"""
    helpers = {n.name: n for n in tree.body if isinstance(n, ast.FunctionDef)}
    todo, done = [fn], []
    while todo:
        f = todo.pop()
        if any(f is g for g in done):
            continue
        done.append(f)
        for node in ast.walk(f):
            yield node
            if isinstance(node, ast.Call) and isinstance(node.func, ast.Name) and node.func.id in helpers:
                todo.append(helpers[node.func.id])


MUTABLE_CALLS = {"dict", "list", "set", "defaultdict", "OrderedDict", "deque", "Counter", "WeakKeyDictionary", "WeakValueDictionary", "WeakSet", "bytearray"}


def process_global_state():
    """every piece of process-wide mutable state of the package outside `_storage.py` (whose cells are classified one by
    one) and outside the vendored typeguard: module-level dict / list / set displays and constructor calls, mutable class
    attributes, names rebound through `global`, and memoising decorators. The checked path may only share state across
    threads, calls and checks through what is listed here; a new entry is a new way for one check to influence another."""
    import glob

    def mutable(v):
        if isinstance(v, (ast.Dict, ast.List, ast.Set, ast.ListComp, ast.DictComp, ast.SetComp)):
            return True
        if isinstance(v, ast.Call):
            f = v.func
            nm = f.id if isinstance(f, ast.Name) else f.attr if isinstance(f, ast.Attribute) else None
            return nm in MUTABLE_CALLS
        if isinstance(v, ast.Tuple):
            return any(mutable(e) for e in v.elts)
        return False

    def constant_value(v):
        if isinstance(v, ast.Constant):
            return True
        if isinstance(v, ast.Tuple):
            return all(constant_value(e) for e in v.elts)
        return False

    PURE_CALLS = {"len", "sorted", "tuple", "frozenset", "enumerate", "zip", "any", "all", "min", "max", "sum", "iter", "reversed", "dict.fromkeys", "str.join", "repr", "str"}
    READ_METHODS = {"get", "keys", "values", "items", "index", "count", "copy"}

    def read_only_table(tree, name, value, imported_elsewhere):
        """a module-level dict / list / set display of constants, bound once, that nothing in the package can write to: every
        use of the name is a subscript READ, a membership test, an iteration, a read-only method or an argument of a pure
        builtin — no store, no deletion, no mutating method, no alias (assignment, attribute, return, argument of other calls)"""
        if name in imported_elsewhere:
            return False
        if isinstance(value, ast.Dict):
            if not all(k is not None and constant_value(k) and constant_value(v) for k, v in zip(value.keys, value.values)):
                return False
        elif isinstance(value, (ast.List, ast.Set)):
            if not all(constant_value(e) for e in value.elts):
                return False
        else:
            return False
        parents = {}
        for p_ in ast.walk(tree):
            for c in ast.iter_child_nodes(p_):
                parents[id(c)] = p_
        uses = [n for n in ast.walk(tree) if isinstance(n, ast.Name) and n.id == name]
        stores = [n for n in uses if isinstance(n.ctx, (ast.Store, ast.Del))]
        if len(stores) != 1 or any(isinstance(n, ast.Global) and name in n.names for n in ast.walk(tree)):
            return False
        for u in uses:
            if u in stores:
                continue
            par = parents.get(id(u))
            if isinstance(par, ast.Subscript) and par.value is u and isinstance(par.ctx, ast.Load):
                continue
            if isinstance(par, ast.Compare) and u in par.comparators and all(isinstance(o, (ast.In, ast.NotIn)) for o in par.ops):
                continue
            if isinstance(par, (ast.For, ast.comprehension)) and par.iter is u:
                continue
            if isinstance(par, ast.Attribute) and par.value is u and par.attr in READ_METHODS and isinstance(parents.get(id(par)), ast.Call) and parents[id(par)].func is par:
                continue
            if isinstance(par, ast.Call) and u in par.args and ast.unparse(par.func) in PURE_CALLS:
                continue
            return False
        return True

    import re as _re

    imported = {}
    sources = {}
    for path in sorted(glob.glob(os.path.join(SRC, "*.py"))):
        with open(path) as fh:
            sources[path] = fh.read()
    for path, text in sources.items():
        for n in ast.walk(ast.parse(text)):
            if isinstance(n, ast.ImportFrom):
                for a in n.names:
                    imported.setdefault(a.name, set()).add(os.path.basename(path))
    out = set()
    for path in sorted(glob.glob(os.path.join(SRC, "*.py"))):
        mod = os.path.basename(path)
        if mod == "_storage.py":
            continue
        tree = ast.parse(sources[path])
        for n in tree.body:
            if isinstance(n, ast.Assign) and len(n.targets) == 1 and isinstance(n.targets[0], ast.Name) and mutable(n.value):
                if read_only_table(tree, n.targets[0].id, n.value, {k for k, v in imported.items() if v - {mod}} | ({n.targets[0].id} if _re.search(r"\b__all__\b", sources[path]) and n.targets[0].id in sources[path].split("__all__", 1)[1][:2000] else set())):
                    continue        # a constant table: no way for one check to influence another through it
                out.add(f"{mod}:{n.targets[0].id}:module")
            if isinstance(n, ast.AnnAssign) and isinstance(n.target, ast.Name) and n.value is not None and mutable(n.value):
                out.add(f"{mod}:{n.target.id}:module")
            if isinstance(n, ast.ClassDef):
                for m in n.body:
                    if isinstance(m, ast.Assign) and len(m.targets) == 1 and isinstance(m.targets[0], ast.Name) and mutable(m.value):
                        out.add(f"{mod}:{n.name}.{m.targets[0].id}:class")
                    if isinstance(m, ast.AnnAssign) and isinstance(m.target, ast.Name) and m.value is not None and mutable(m.value):
                        out.add(f"{mod}:{n.name}.{m.target.id}:class")
        for n in ast.walk(tree):
            if isinstance(n, ast.Global):
                for nm in n.names:
                    out.add(f"{mod}:{nm}:global")
            if isinstance(n, (ast.FunctionDef, ast.AsyncFunctionDef)):
                for d in n.decorator_list:
                    t = ast.unparse(d)
                    if "lru_cache" in t or t.endswith(".cache") or t == "cache":
                        out.add(f"{mod}:{n.name}:cache")
    return sorted(out)


def storage_kinds():
    """every module-level assignment of jaxtyping/_storage.py whose value is a call:
    `threading.local()` -> threadLocal, anything else -> processGlobal"""
    tree = parse("_storage.py")
    cells = {}

    def is_tl(f):
        return isinstance(f, ast.Attribute) and f.attr == "local" and isinstance(f.value, ast.Name) and f.value.id == "threading"

    def mutable(v):
        """a display that can be written through: dict / list / set, a comprehension, or a tuple holding one"""
        if isinstance(v, (ast.Dict, ast.List, ast.Set, ast.ListComp, ast.DictComp, ast.SetComp)):
            return True
        return isinstance(v, ast.Tuple) and any(mutable(e) or isinstance(e, ast.Call) for e in v.elts)

    # subclasses of threading.local: instances are per-thread, but a mutable object stored as a CLASS attribute is one
    # object shared by every thread
    tl_classes = set()
    for node in tree.body:
        if isinstance(node, ast.ClassDef) and any(is_tl(b) for b in node.bases):
            tl_classes.add(node.name)
            for m in node.body:
                tgt, val = None, None
                if isinstance(m, ast.Assign) and len(m.targets) == 1 and isinstance(m.targets[0], ast.Name):
                    tgt, val = m.targets[0].id, m.value
                elif isinstance(m, ast.AnnAssign) and isinstance(m.target, ast.Name) and m.value is not None:
                    tgt, val = m.target.id, m.value
                if tgt is not None and (mutable(val) or isinstance(val, ast.Call)):
                    cells[f"{node.name}.{tgt}"] = "processGlobal"
    for node in tree.body:
        if isinstance(node, ast.Assign) and len(node.targets) == 1 and isinstance(node.targets[0], ast.Name):
            nm = node.targets[0].id
            v = node.value
            if isinstance(v, ast.Call):
                f = v.func
                if is_tl(f) or (isinstance(f, ast.Name) and f.id in tl_classes):
                    cells[nm] = "threadLocal"
                else:
                    cells[nm] = "processGlobal"
            elif mutable(v):
                cells[nm] = "processGlobal"
    # a module-level name rebound from inside a function (`global x`) is a process-global cell too
    for node in ast.walk(tree):
        if isinstance(node, ast.Global):
            for nm in node.names:
                cells[nm] = "processGlobal"
    # which cell each accessor function touches
    users = {}
    for node in tree.body:
        if isinstance(node, ast.FunctionDef):
            used = sorted({n.id for n in ast.walk(node) if isinstance(n, ast.Name) and n.id in cells})
            if used:
                users[node.name] = used
    return cells, users


def lean_str(s: str) -> str:
    return json.dumps(s, ensure_ascii=True)


def lean_list(xs) -> str:
    return "[" + ", ".join(xs) + "]"


def lean_bool(b) -> str:
    return "true" if b else "false"


def run():
    facts = {}
    arr = parse("_array_types.py")
    pyt = parse("_pytree_type.py")
    from inline import inline_helpers

    facts["array_rollback"] = rollback_fact(inline_helpers(find_def(arr, "_MetaAbstractArray", "__instancecheck_str__"), arr, find_def(arr, "_MetaAbstractArray"),
                                                           exclude=("_check_shape", "_check_dims")), "_check_shape")
    facts["pytree_rollback"] = rollback_fact(inline_helpers(find_def(pyt, "_MetaPyTree", "__instancecheck__"), pyt, find_def(pyt, "_MetaPyTree"), exclude=("_check",)), "_check")
    cells, users = storage_kinds()
    facts["storage_cells"] = cells
    facts["storage_users"] = users

    for extra in EXTRA_EXTRACTORS:
        extra(facts)

    render(facts)
    import translate

    facts["translated"] = translate.run()
    import translate_wrap

    facts["translated_wrappers"] = translate_wrap.run()
    import translate_tree

    facts["translated_tree"] = translate_tree.run()
    import translate_hook

    facts["translated_hook"] = translate_hook.run(facts.get("hook", {}).get("importRule"))
    import translate_config

    facts["translated_config"] = translate_config.run()
    import translate_loader

    facts["translated_loader"] = translate_loader.run()
    import translate_storage

    facts["translated_storage"] = translate_storage.run()
    return facts


def names_in(node):
    return {n.id for n in ast.walk(node) if isinstance(n, ast.Name)} | {
        n.attr for n in ast.walk(node) if isinstance(n, ast.Attribute)
    }


def guarded_by_structure(call, root, fn=None):
    """is `call` (a Call node) only reached when `cls.structure is not None`: inside such an `if` within
    root, or - given the enclosing function - after a top-level `if cls.structure is None: ... return`?"""
    for node in ast.walk(root):
        if isinstance(node, ast.If) and "structure" in names_in(node.test) and "is not None" in ast.unparse(node.test):
            for ch in node.body:
                for sub in ast.walk(ch):
                    if sub is call:
                        return True
        if isinstance(node, ast.If) and ast.unparse(node.test) == "cls.structure is None":
            for ch in node.orelse:
                for sub in ast.walk(ch):
                    if sub is call:
                        return True
    if fn is not None:
        for i, st in enumerate(fn.body):
            if isinstance(st, ast.If) and ast.unparse(st.test) == "cls.structure is None" and st.body and isinstance(st.body[-1], ast.Return) and not st.orelse:
                for later in fn.body[i + 1:]:
                    for sub in ast.walk(later):
                        if sub is call:
                            return True
    return False


def pytree_skel(facts):
    from inline import inline_helpers

    pyt = parse("_pytree_type.py")
    # seen through helper functions: `_check` with its statement-level helper calls inlined
    chk = inline_helpers(find_def(pyt, "_MetaPyTree", "_check"), pyt, find_def(pyt, "_MetaPyTree"))
    sk = {"flattenInFinally": "unknown", "flattenRestores": "unknown", "treepathInFinally": "unknown", "treepathGuarded": "unknown",
          "flattenPassesIsLeaf": False}
    facts["pytree_skel"] = sk
    if chk is None:
        return
    # every flattening of the checked object asks `is_leaf` at every node: the keyword is a name that is only ever bound to
    # a function defined in `_check` (or to another such name), never to None or to a conditional expression
    fdefs = {n.name for n in ast.walk(chk) if isinstance(n, ast.FunctionDef) and n is not chk} | {n.name for n in pyt.body if isinstance(n, ast.FunctionDef)}
    aliases = {}
    for n in ast.walk(chk):
        if isinstance(n, ast.Assign):
            for t in n.targets:
                for nm in ([t] if isinstance(t, ast.Name) else []):
                    aliases.setdefault(nm.id, []).append(n.value)

    def is_fn(name, depth=0):
        if depth > 4:
            return False
        vals = aliases.get(name, [])
        if name in fdefs and not vals:
            return True
        return bool(vals or name in fdefs) and all(isinstance(v, ast.Name) and is_fn(v.id, depth + 1) for v in vals)

    flats = [c for c in ast.walk(chk) if isinstance(c, ast.Call) and call_name(c) == "tree_flatten" and c.args and ast.unparse(c.args[0]) == "obj"]
    sk["flattenPassesIsLeaf"] = bool(flats) and all(
        any(k.arg == "is_leaf" and isinstance(k.value, ast.Name) and is_fn(k.value.id) for k in c.keywords) for c in flats)
    for node in ast.walk(chk):
        if isinstance(node, ast.Try) and calls_in(node.body, "tree_flatten"):
            clears = calls_in(node.finalbody, "clear_treeflatten_memo")
            sk["flattenInFinally"] = bool(clears)
            if clears:
                # re-entrant iff the clear is conditional on a value read from get_treeflatten_memo()
                # before the flag was set
                saved = {
                    st.targets[0].id
                    for st in ast.walk(chk)
                    if isinstance(st, ast.Assign) and len(st.targets) == 1 and isinstance(st.targets[0], ast.Name)
                    and call_name(st.value) == "get_treeflatten_memo"
                }
                cond = [n for n in node.finalbody if isinstance(n, ast.If) and calls_in(n.body, "clear_treeflatten_memo")]
                if cond and all(names_in(c.test) & saved for c in cond) and len(cond) == len([n for n in node.finalbody]):
                    sk["flattenRestores"] = True
                elif not cond:
                    sk["flattenRestores"] = False
            else:
                sk["flattenRestores"] = False
        if isinstance(node, ast.Try) and calls_in(node.body, "set_treepath_memo"):
            fin = calls_in(node.finalbody, "clear_treepath_memo")
            sk["treepathInFinally"] = bool(fin)
            inner = calls_in(node.body, "clear_treepath_memo")
            allc = fin + inner
            if allc and all(guarded_by_structure(c, node, chk) or guarded_by_structure(c, chk, chk) for c in allc):
                sk["treepathGuarded"] = True
            elif allc and not any(guarded_by_structure(c, node, chk) or guarded_by_structure(c, chk, chk) for c in allc):
                sk["treepathGuarded"] = False
    # flatten try not found at all
    if sk["flattenInFinally"] == "unknown" and calls_in([chk], "set_treeflatten_memo"):
        sk["flattenInFinally"] = False
        sk["flattenRestores"] = False
    if sk["treepathInFinally"] == "unknown" and calls_in([chk], "set_treepath_memo"):
        sk["treepathInFinally"] = False


def stmt_index(body, pred):
    for i, st in enumerate(body):
        if pred(st):
            return i
    return None


def wrapper_facts(fn):
    """facts about one `wrapped_fn(*args, **kwargs)` definition"""
    out = {"popInFinally": "unknown", "bindBeforePush": "unknown", "disableTestFirst": "unknown", "pushSeesDefaults": False}
    body = [st for st in fn.body if not (isinstance(st, ast.Assign) and isinstance(st.targets[0], ast.Name) and st.targets[0].id == "__tracebackhide__")]
    i_bind = stmt_index(body, lambda st: bool(calls_in([st], "bind")) and not isinstance(st, (ast.Try, ast.If)))
    i_push = stmt_index(body, lambda st: bool(calls_in([st], "push_shape_memo")) and not isinstance(st, (ast.Try, ast.If)))
    i_try = stmt_index(body, lambda st: isinstance(st, ast.Try) and bool(calls_in(st.finalbody, "pop_shape_memo")))
    if i_push is not None:
        out["popInFinally"] = i_try is not None and i_try == i_push + 1
        if i_bind is not None:
            out["bindBeforePush"] = i_bind < i_push
            # `b = <signature>.bind(*args, **kwargs)`, then unconditionally `b.apply_defaults()`, then `push_shape_memo(b.arguments, ...)`:
            # what `{name}` axes are evaluated against is the full argument list, defaults included
            bs = body[i_bind]
            if isinstance(bs, ast.Assign) and len(bs.targets) == 1 and isinstance(bs.targets[0], ast.Name) and isinstance(bs.value, ast.Call) \
                    and isinstance(bs.value.func, ast.Attribute) and bs.value.func.attr == "bind" and ast.unparse(bs.value)[ast.unparse(bs.value).index("("):] == "(*args, **kwargs)":
                b = bs.targets[0].id
                between = body[i_bind + 1:i_push]
                applied = any(isinstance(st, ast.Expr) and ast.unparse(st.value) == f"{b}.apply_defaults()" for st in between)
                rebound = any(isinstance(n, ast.Name) and n.id == b and isinstance(n.ctx, ast.Store) for st in between for n in ast.walk(st))
                pushes = calls_in([body[i_push]], "push_shape_memo")
                out["pushSeesDefaults"] = applied and not rebound and len(pushes) == 1 and len(pushes[0].args) >= 1 and ast.unparse(pushes[0].args[0]) == f"{b}.arguments"
    i_dis = stmt_index(body, lambda st: isinstance(st, ast.If) and "jaxtyping_disable" in names_in(st.test))
    if i_dis is not None:
        st = body[i_dis]
        test_ok = isinstance(st.test, ast.BoolOp) and isinstance(st.test.op, ast.Or) and not any(isinstance(n, ast.Not) for n in ast.walk(st.test))
        returns_bare = any(isinstance(x, ast.Return) and call_name(x.value) == "fn" for x in st.body)
        out["disableTestFirst"] = i_dis == 0 and test_ok and returns_bare and "__no_type_check__" in {
            n.value for n in ast.walk(st.test) if isinstance(n, ast.Constant) and isinstance(n.value, str)
        }
    else:
        out["disableTestFirst"] = False
    return out


def decorator_skel(facts):
    dec = parse("_decorator.py")
    jt = None
    for node in dec.body:
        if isinstance(node, ast.FunctionDef) and node.name == "jaxtyped":
            jt = node  # the last definition (earlier ones are @overload stubs)
    w = {k: "unknown" for k in ["newPopInFinally", "oldPopInFinally", "ctxExitPopsAlways", "newBindBeforePush", "oldBindBeforePush", "disableTestFirst", "annErrFirst", "messageCurrent"]}
    facts["wrap_skel"] = w
    if jt is None:
        return
    wrappers = [n for n in ast.walk(jt) if isinstance(n, ast.FunctionDef) and n.name == "wrapped_fn"]
    from inline import inline_helpers

    sees = []
    for fn in wrappers:
        f = wrapper_facts(fn)
        if f["bindBeforePush"] == "unknown":
            f = wrapper_facts(inline_helpers(fn, dec))
        sees.append(f["pushSeesDefaults"])
        if calls_in([fn], "wrapped_fn_impl"):
            w["newPopInFinally"], w["newBindBeforePush"], w["disableTestFirst"] = f["popInFinally"], f["bindBeforePush"], f["disableTestFirst"]
        else:
            w["oldPopInFinally"], w["oldBindBeforePush"] = f["popInFinally"], f["bindBeforePush"]
    facts["push_sees_defaults"] = len(sees) == 2 and all(sees)
    ctx = find_def(dec, "_JaxtypingContext", "__exit__")
    if ctx is not None:
        w["ctxExitPopsAlways"] = any(isinstance(st, ast.Expr) and call_name(st.value) == "pop_shape_memo" for st in ctx.body) and not any(isinstance(st, ast.Return) for st in ctx.body[:1])
    ent = find_def(dec, "_JaxtypingContext", "__enter__")
    facts["ctx_enter_pushes"] = ent is not None and bool(calls_in([ent], "push_shape_memo"))
    impl_fn = None
    for n in ast.walk(jt):
        if isinstance(n, ast.FunctionDef) and n.name == "wrapped_fn_impl":
            impl_fn = n
    if impl_fn is not None:
        tries = [n for n in ast.walk(impl_fn) if isinstance(n, ast.Try) and (calls_in(n.body, "param_fn") or calls_in(n.body, "full_fn"))]
        ok = len(tries) == 2
        for t in tries:
            hs = t.handlers
            first = hs[0] if hs else None
            ok = ok and first is not None and handler_class(first) == "AnnotationError" and any(isinstance(s, ast.Raise) and s.exc is None for s in first.body)
            ok = ok and any(handler_class(h) == "Exception" for h in hs[1:])
        w["annErrFirst"] = ok
        # the message text may be assembled by module-level helpers called from the handlers
        ss = calls_in([impl_fn], "shape_str") + [c for hname in {call_name(c) for c in ast.walk(impl_fn) if isinstance(c, ast.Call) and isinstance(c.func, ast.Name)}
                                                  for hd in [find_def(dec, hname)] if hd is not None and isinstance(hd, ast.FunctionDef) for c in calls_in([hd], "shape_str")]
        if ss and all(len(c.args) == 1 and call_name(c.args[0]) == "get_shape_memo" for c in ss):
            w["messageCurrent"] = True
        elif ss and all(len(c.args) == 1 and isinstance(c.args[0], ast.Name) for c in ss):
            w["messageCurrent"] = False
        # fn is called exactly once on the accepted path
        fn_calls = [c for c in calls_in([impl_fn], "fn") if isinstance(c.func, ast.Name)]
        facts["impl_fn_calls"] = len(fn_calls)
        # ... and that call hands over the caller's own argument list
        facts["impl_fn_call_args"] = [ast.unparse(c)[3:-1] for c in fn_calls]


EXTRA_EXTRACTORS = [pytree_skel, decorator_skel]


def skel_request(facts):
    """the `skel` / `wrap` parameters the driver needs to run the model the way the source reads"""
    ar, pr, ps = facts["array_rollback"], facts["pytree_rollback"], facts["pytree_skel"]

    def b(v, default):
        return default if v == "unknown" else bool(v)

    skel = {
        "arrayCatch": "base" if ar["catch"] == "baseException" else "exception",
        "pytreeCatch": "base" if pr["catch"] == "baseException" else "exception",
        "flattenInFinally": b(ps["flattenInFinally"], True),
        "flattenRestores": b(ps["flattenRestores"], False),
        "treepathInFinally": b(ps["treepathInFinally"], True),
        "treepathGuarded": b(ps["treepathGuarded"], False),
    }
    wrap = {k: b(v, True) for k, v in facts["wrap_skel"].items()}
    return skel, wrap


def catch_lean(c):
    return {"exceptionOnly": "some .exceptionOnly", "baseException": "some .baseException"}.get(c, "none")


def render(facts):
    ar, pr = facts["array_rollback"], facts["pytree_rollback"]
    txt = f"""/- GENERATED by harness/extract.py from {SRC} on every run. Do not edit. -/
import JaxVerif.Model.Core

namespace JV.Generated

/-- class caught by the handler around `_check_shape` that puts the snapshot back
    (`none` = not recognised) -/
def arrayCatch : Option Catch := {catch_lean(ar['catch'])}
def arrayRestoresFour : Bool := {lean_bool(ar['restores_four'] and ar['snapshots'] == 4)}
def arrayReraises : Bool := {lean_bool(ar['reraises'])}
def arrayFalsePathRestores : Bool := {lean_bool(ar['false_path_restores'])}

/-- the same four facts for `_MetaPyTree.__instancecheck__` around `cls._check` -/
def pytreeCatch : Option Catch := {catch_lean(pr['catch'])}
def pytreeRestoresFour : Bool := {lean_bool(pr['restores_four'] and pr['snapshots'] == 4)}
def pytreeReraises : Bool := {lean_bool(pr['reraises'])}
def pytreeFalsePathRestores : Bool := {lean_bool(pr['false_path_restores'])}

end JV.Generated
"""
    write_if_changed(os.path.join(GEN, "Rollback.lean"), txt)

    facts.setdefault("process_global_state", process_global_state())
    cells = facts["storage_cells"]
    rows = ", ".join(f"({lean_str(k)}, {'true' if v == 'threadLocal' else 'false'})" for k, v in sorted(cells.items()))
    txt = f"""/- GENERATED by harness/extract.py from {SRC}/_storage.py on every run. Do not edit. -/
namespace JV.Generated

/-- every module-level mutable cell of `_storage.py` with `true` iff it is a `threading.local()` -/
def storageCells : List (String × Bool) := [{rows}]

/-- every other piece of process-wide mutable state of the package (module-level containers, mutable class attributes,
    names rebound through `global`, memoising decorators), as `file:name:kind` -/
def processGlobalState : List String := {lean_list([lean_str(x) for x in facts['process_global_state']])}

end JV.Generated
"""
    write_if_changed(os.path.join(GEN, "Storage.lean"), txt)

    def ob(v):
        return "none" if v == "unknown" else ("some true" if v else "some false")

    ps, ws = facts["pytree_skel"], facts["wrap_skel"]
    txt = f"""/- GENERATED by harness/extract.py from {SRC} on every run. Do not edit. -/
namespace JV.Generated

/-! exception skeleton of `_MetaPyTree._check` (`none` = construct not recognised) -/
def flattenInFinally : Option Bool := {ob(ps['flattenInFinally'])}
/-- every `tree_flatten(obj, ...)` of `_check` passes an `is_leaf` function (never None) -/
def flattenPassesIsLeaf : Bool := {lean_bool(ps['flattenPassesIsLeaf'])}
def flattenRestores : Option Bool := {ob(ps['flattenRestores'])}
def treepathInFinally : Option Bool := {ob(ps['treepathInFinally'])}
def treepathGuarded : Option Bool := {ob(ps['treepathGuarded'])}

/-! skeleton of the `jaxtyped` wrappers and of `jaxtyped("context")` -/
def newPopInFinally : Option Bool := {ob(ws['newPopInFinally'])}
def oldPopInFinally : Option Bool := {ob(ws['oldPopInFinally'])}
def ctxExitPopsAlways : Option Bool := {ob(ws['ctxExitPopsAlways'])}
def newBindBeforePush : Option Bool := {ob(ws['newBindBeforePush'])}
def oldBindBeforePush : Option Bool := {ob(ws['oldBindBeforePush'])}
def disableTestFirst : Option Bool := {ob(ws['disableTestFirst'])}
def annErrFirst : Option Bool := {ob(ws['annErrFirst'])}
def messageCurrent : Option Bool := {ob(ws['messageCurrent'])}
/-- both wrappers push `bound.arguments` after an unconditional `bound.apply_defaults()` on `bind(*args, **kwargs)` -/
def pushSeesDefaults : Bool := {lean_bool(facts.get('push_sees_defaults', False))}
/-- number of syntactic calls of the wrapped function inside `wrapped_fn_impl` -/
def implFnCalls : Nat := {facts.get('impl_fn_calls', 0)}
/-- the argument lists of those calls, as written -/
def implFnCallArgs : List String := {lean_list([lean_str(x) for x in facts.get('impl_fn_call_args', [])])}

end JV.Generated
"""
    write_if_changed(os.path.join(GEN, "Skeleton.lean"), txt)
    for r in EXTRA_RENDERERS:
        r(facts)


EXTRA_RENDERERS = []




# --------------------------------------------------------------------------- dtype tables (C03 / C15 / C20)


def re_fullmatch(pat, s):
    import re

    return re.fullmatch(pat, s) is not None


def dtype_tables(facts):
    """evaluate the module-level assignments of _array_types.py symbolically: string constants,
    list displays, `+` of lists, names; `X = _make_dtype(expr, "Name")` defines a category"""
    tree = parse("_array_types.py")
    env = {}
    cats = {}
    unknown = []

    def ev(node):
        if isinstance(node, ast.Constant) and isinstance(node.value, str):
            return node.value
        if isinstance(node, ast.Name):
            if node.id == "_any_dtype":
                return "ANY"
            if node.id in env:
                return env[node.id]
            raise KeyError(node.id)
        if isinstance(node, (ast.List, ast.Tuple)):
            return [ev(e) for e in node.elts]
        if isinstance(node, ast.BinOp) and isinstance(node.op, ast.Add):
            a, b = ev(node.left), ev(node.right)
            if isinstance(a, list) and isinstance(b, list):
                return a + b
        raise ValueError(ast.dump(node)[:80])

    for node in tree.body:
        if isinstance(node, ast.Assign) and len(node.targets) == 1 and isinstance(node.targets[0], ast.Name):
            nm = node.targets[0].id
            v = node.value
            if call_name(v) == "_make_dtype" and len(v.args) == 2:
                try:
                    d = ev(v.args[0])
                    cname = ev(v.args[1])
                    cats[cname] = d if (d == "ANY" or isinstance(d, list)) else [d]
                    if nm != cname:
                        unknown.append(f"{nm} bound to category named {cname}")
                except (KeyError, ValueError) as e:
                    unknown.append(f"{nm}: {e}")
            else:
                try:
                    env[nm] = ev(v)
                except (KeyError, ValueError):
                    pass
    facts["dtype_categories"] = cats
    facts["dtype_unknown"] = unknown
    # the numpy-canonical-name branch in __instancecheck_str__
    fn = find_def(tree, "_MetaAbstractArray", "__instancecheck_str__")
    canonical = False
    if fn is not None:
        for node in walk_with_helpers(fn, tree):
            if isinstance(node, ast.If):
                if "np" in names_in(node.test) and "kind" in names_in(node.test) and "dtype" in names_in(node.test):
                    for st in node.body:
                        if isinstance(st, (ast.Assign, ast.Return)) and isinstance(st.value, ast.Attribute) and st.value.attr == "name":
                            canonical = True
    facts["np_canonical_name"] = canonical
    # how the name is cut out of repr(obj.dtype) for dtype objects that are neither NumPy-like nor strings
    rule = "unknown"
    if fn is not None:
        cuts = []
        for node in walk_with_helpers(fn, tree):
            if isinstance(node, ast.Assign) and "repr(" in ast.unparse(node.value) and "dtype" in ast.unparse(node.value):
                tgt, val = ast.unparse(node.targets[0]), ast.unparse(node.value)
                if tgt in ("(*_, dtype)", "*_, dtype") and re_fullmatch(r"repr\((obj\.)?dtype\)\.rsplit\('\.', 1\)", val):
                    cuts.append("lastComponent")
                elif tgt == "dtype" and re_fullmatch(r"repr\((obj\.)?dtype\)\.rsplit\('\.', 1\)\[-1\]", val):
                    cuts.append("lastComponent")
                elif tgt in ("(_, _, dtype)", "_, _, dtype") and re_fullmatch(r"repr\((obj\.)?dtype\)\.partition\('\.'\)", val):
                    cuts.append("afterFirstDot")
                else:
                    cuts.append("unknown")
        if len(cuts) == 1:
            rule = cuts[0]
    facts["duck_repr_rule"] = rule


def render_dtypes(facts):
    cats = facts["dtype_categories"]
    rows = []
    for name in sorted(cats):
        d = cats[name]
        spec = ".any" if d == "ANY" else ".names " + lean_list([lean_str(x) for x in d])
        rows.append(f"({lean_str(name)}, {spec})")
    txt = f"""/- GENERATED by harness/extract.py from {SRC}/_array_types.py on every run. Do not edit. -/
import JaxVerif.Model.Dtype

namespace JV.Generated

/-- every `X = _make_dtype(dtypes, "X")` of the module, with `dtypes` evaluated symbolically -/
def categories : List (String × DtypeSpec) :=
  [{(',' + chr(10) + '   ').join(rows)}]

/-- assignments the translator could not evaluate (must be empty) -/
def dtypeUnknown : List String := {lean_list([lean_str(x) for x in facts['dtype_unknown']])}

/-- `__instancecheck_str__` prefers `dtype.name` for NumPy dtypes of kind i/u/f/c -/
def npCanonicalName : Bool := {lean_bool(facts['np_canonical_name'])}

/-- how the name is cut out of `repr(obj.dtype)` for dtype objects of other libraries -/
def duckReprRule : ReprRule := .{facts['duck_repr_rule']}

end JV.Generated
"""
    write_if_changed(os.path.join(GEN, "DtypeTables.lean"), txt)


EXTRA_EXTRACTORS.append(dtype_tables)
EXTRA_RENDERERS.append(render_dtypes)




# --------------------------------------------------------------------------- import hook facts (C10 / C11 / C18)


def import_rule(vm, tree=None):
    """`visit_Module`: where `import jaxtyping` goes. The loop body is run abstractly on the five kinds of statement it can
    tell apart (`from __future__ import`, another `from` import, an expression statement holding a constant, another
    expression statement, anything else); the rule is "before-first-non-prologue" when the first two... the first and the
    third `continue` and the others insert at the loop index and `break`."""
    loops = [n for n in vm.body if isinstance(n, ast.For)]
    body_expr = "node.body"
    ret_mode = False
    if len(loops) == 0 and tree is not None:
        # the index is computed by a module-level helper: `i = H(node.body)`, `if i is not None: node.body.insert(i, <import jaxtyping>)`,
        # with `def H(body): for i, s in enumerate(body): ... return i ...; return None` — the helper's loop is the loop, its
        # `return i` is "insert at i and stop"
        fns = {n.name: n for n in tree.body if isinstance(n, ast.FunctionDef)}
        calls = [n for n in vm.body if isinstance(n, ast.Assign) and len(n.targets) == 1 and isinstance(n.targets[0], ast.Name) and isinstance(n.value, ast.Call)
                 and isinstance(n.value.func, ast.Name) and n.value.func.id in fns and [ast.unparse(a) for a in n.value.args] == ["node.body"] and not n.value.keywords]
        if len(calls) != 1:
            return "unknown"
        x = calls[0].targets[0].id
        h = fns[calls[0].value.func.id]
        hb = [st for st in h.body if not (isinstance(st, ast.Expr) and isinstance(st.value, ast.Constant))]
        uses = [n for n in vm.body if isinstance(n, ast.If) and ast.unparse(n.test) == f"{x} is not None" and not n.orelse and len(n.body) == 1
                and isinstance(n.body[0], ast.Expr) and isinstance(n.body[0].value, ast.Call) and ast.unparse(n.body[0].value.func) == "node.body.insert"
                and len(n.body[0].value.args) == 2 and ast.unparse(n.body[0].value.args[0]) == x
                and "ast.Import" in ast.unparse(n.body[0].value.args[1]) and "jaxtyping" in ast.unparse(n.body[0].value.args[1])]
        others = [n for n in ast.walk(vm) if isinstance(n, ast.Attribute) and ast.unparse(n) == "node.body"]
        if len(uses) != 1 or len(others) != 2 or len(h.args.args) != 1 or h.decorator_list or len(hb) != 2 or not isinstance(hb[0], ast.For) \
                or not (isinstance(hb[1], ast.Return) and (hb[1].value is None or (isinstance(hb[1].value, ast.Constant) and hb[1].value.value is None))):
            return "unknown"
        loops, body_expr, ret_mode = [hb[0]], h.args.args[0].arg, True
    if len(loops) != 1:
        return "unknown"
    lp = loops[0]
    if not (isinstance(lp.iter, ast.Call) and call_name(lp.iter) == "enumerate" and len(lp.iter.args) == 1 and ast.unparse(lp.iter.args[0]) == body_expr
            and isinstance(lp.target, ast.Tuple) and len(lp.target.elts) == 2 and all(isinstance(e, ast.Name) for e in lp.target.elts)) or lp.orelse:
        return "unknown"
    idx, var = lp.target.elts[0].id, lp.target.elts[1].id
    KINDS = {"future": ("ImportFrom", "__future__", None), "from": ("ImportFrom", "os", None), "doc": ("Expr", None, "Constant"),
             "expr": ("Expr", None, "Call"), "other": ("Assign", None, "Call")}

    class Unknown(Exception):
        pass

    def ev(e, kind, env):
        cls, module, valcls = KINDS[kind]
        if isinstance(e, ast.Name) and e.id in env:
            return env[e.id]
        if isinstance(e, ast.BoolOp):
            for v in e.values:   # short-circuit, as Python does (`child.module` is only read on a `from` import)
                r = ev(v, kind, env)
                if r is not True and r is not False:
                    raise Unknown
                if r != isinstance(e.op, ast.And):
                    return r
            return isinstance(e.op, ast.And)
        if isinstance(e, ast.UnaryOp) and isinstance(e.op, ast.Not):
            return not ev(e.operand, kind, env)
        if isinstance(e, ast.Call) and isinstance(e.func, ast.Name) and e.func.id in preds and [ast.unparse(a) for a in e.args] == [var] and not e.keywords:
            # a module-level predicate applied to the statement: run its body on the same kind of statement
            h = preds[e.func.id]
            return run_pred(h, kind)
        if call_name(e) == "isinstance" and len(e.args) == 2 and ast.unparse(e.args[1]).startswith("ast."):
            want = ast.unparse(e.args[1])[4:]
            if ast.unparse(e.args[0]) == var:
                return cls == want
            if ast.unparse(e.args[0]) == var + ".value" and valcls is not None:
                return valcls == want
            raise Unknown
        if isinstance(e, ast.Compare) and len(e.ops) == 1 and isinstance(e.ops[0], (ast.Eq, ast.NotEq)) and ast.unparse(e.left) == var + ".module" \
                and isinstance(e.comparators[0], ast.Constant) and module is not None:
            r = module == e.comparators[0].value
            return r if isinstance(e.ops[0], ast.Eq) else not r
        raise Unknown

    preds = {n.name: n for n in (tree.body if tree is not None else []) if isinstance(n, ast.FunctionDef) and len(n.args.args) == 1}

    def run_pred(h, kind):
        nonlocal var
        saved, var = var, h.args.args[0].arg
        try:
            def go(stmts):
                for st in stmts:
                    if isinstance(st, ast.Expr) and isinstance(st.value, ast.Constant):
                        continue
                    if isinstance(st, ast.Return):
                        if isinstance(st.value, ast.Constant) and isinstance(st.value.value, bool):
                            return st.value.value
                        return ev(st.value, kind, {})
                    if isinstance(st, ast.If):
                        r = go(st.body if ev(st.test, kind, {}) else st.orelse)
                        if r is not None:
                            return r
                        continue
                    raise Unknown
                return None
            r = go(h.body)
            if r is None:
                raise Unknown
            return r
        finally:
            var = saved

    def run(stmts, kind, env, acts):
        for st in stmts:
            if isinstance(st, ast.Continue):
                return "continue"
            if isinstance(st, ast.Break):
                return "break"
            if isinstance(st, ast.Return) and ret_mode and isinstance(st.value, ast.Name) and st.value.id == idx:
                acts.append(("insert", idx, True))      # the caller inserts the import at the index handed back
                return "break"
            if isinstance(st, ast.If):
                r = run(st.body if ev(st.test, kind, env) else st.orelse, kind, env, acts)
                if r:
                    return r
            elif isinstance(st, ast.Assign) and len(st.targets) == 1 and isinstance(st.targets[0], ast.Name):
                try:
                    env[st.targets[0].id] = ev(st.value, kind, env)
                except Unknown:
                    env[st.targets[0].id] = ("expr", ast.unparse(st.value))
            elif isinstance(st, ast.Expr) and isinstance(st.value, ast.Call) and ast.unparse(st.value.func) == "node.body.insert" and len(st.value.args) == 2:
                a0, a1 = st.value.args
                what = env.get(a1.id, ("expr", ""))[1] if isinstance(a1, ast.Name) and isinstance(env.get(a1.id), tuple) else ast.unparse(a1)
                acts.append(("insert", ast.unparse(a0), "ast.Import" in what and "jaxtyping" in what))
            elif isinstance(st, ast.Expr) and isinstance(st.value, ast.Constant):
                pass
            else:
                raise Unknown
        return None

    out = {}
    try:
        for kind in KINDS:
            acts = []
            r = run(lp.body, kind, {}, acts)
            out[kind] = (r, tuple(acts))
    except (Unknown, TypeError):
        return "unknown"
    skip = ("continue", ())
    put = ("break", (("insert", idx, True),))
    # a body that simply ends (no `continue`) also moves on to the next statement
    norm = {k: (("continue", v[1]) if v[0] is None else v) for k, v in out.items()}
    if norm["future"] == skip and norm["doc"] == skip and all(norm[k] == put for k in ("from", "expr", "other")):
        return "before-first-non-prologue"
    if all(norm[k] == put for k in KINDS):
        return "at-top"
    return "unknown"


def is_cache_patch(e, cls):
    """`patch("importlib._bootstrap_external.cache_from_source", ...)`, written out or returned by a method of the loader"""
    if call_name(e) == "patch" and "cache_from_source" in ast.dump(e):
        return True
    if isinstance(e, ast.Call) and isinstance(e.func, ast.Attribute) and isinstance(e.func.value, ast.Name) and e.func.value.id == "self" and not e.args:
        m = find_def(cls, e.func.attr)
        if m is not None:
            rets = [r for r in ast.walk(m) if isinstance(r, ast.Return)]
            return len(rets) == 1 and call_name(rets[0].value) == "patch" and "cache_from_source" in ast.dump(rets[0].value)
    return False


def transform_dominates(fn):
    """True iff on every path through `fn` that reaches a `return`, a statement calling
    `JaxtypingTransformer(...).visit(...)` has run before. Paths that end in `raise` do not count."""

    def has_visit(stmt):
        for c in ast.walk(stmt):
            if isinstance(c, ast.Call) and isinstance(c.func, ast.Attribute) and c.func.attr == "visit" and "JaxtypingTransformer" in ast.unparse(c.func.value):
                return True
        # `t = JaxtypingTransformer(...)` ... `t.visit(tree)`
        names = {n.targets[0].id for n in ast.walk(fn) if isinstance(n, ast.Assign) and len(n.targets) == 1 and isinstance(n.targets[0], ast.Name)
                 and call_name(n.value) == "JaxtypingTransformer"}
        return any(isinstance(c, ast.Call) and isinstance(c.func, ast.Attribute) and c.func.attr == "visit" and isinstance(c.func.value, ast.Name)
                   and c.func.value.id in names for c in ast.walk(stmt))

    bad = []

    def block(stmts, done):
        """returns the state after the block: True / False, or None when the block never falls through"""
        for s in stmts:
            if done is None:
                break
            if isinstance(s, ast.Return):
                if not (done or (s.value is not None and has_visit(s))):
                    bad.append(s.lineno)
                return None
            if isinstance(s, ast.Raise):
                return None
            if isinstance(s, ast.If):
                a, b = block(s.body, done), block(s.orelse, done)
                done = b if a is None else a if b is None else (a and b)
            elif isinstance(s, (ast.With, ast.AsyncWith)):
                done = block(s.body, done or any(has_visit(i.context_expr) for i in s.items))
            elif isinstance(s, ast.Try):
                a = block(s.body, done)
                outs = [] if a is None else [block(s.orelse, a)]
                # a handler may be entered before the body has done anything
                outs += [block(hd.body, done) for hd in s.handlers]
                outs = [o for o in outs if o is not None]
                done = None if not outs else all(outs)
                if s.finalbody:
                    f = block(s.finalbody, bool(done))
                    done = None if (f is None or done is None) else (done or f)
            elif isinstance(s, (ast.For, ast.While, ast.AsyncFor)):
                block(s.body, done)
                block(s.orelse, done)
            elif isinstance(s, (ast.FunctionDef, ast.AsyncFunctionDef, ast.ClassDef)):
                pass
            elif has_visit(s):
                done = True
            elif any(isinstance(r, ast.Return) for r in ast.walk(s)):
                bad.append(s.lineno)
        return done

    if fn is None:
        return False
    block(fn.body, False)
    return not bad and any(has_visit(s) for s in ast.walk(fn))


def hook_facts(facts):
    tree = parse("_import_hook.py")
    h = {
        "defDecorator": "unknown", "classDecorator": "unknown", "copiesLocation": False, "importRule": "unknown", "visitors": [],
        "shouldInstrument": "unknown", "insertsAtFront": False, "uninstallRemoves": False, "onlySourceLoaders": False,
        "patchScope": "unknown", "tagHasChecker": False, "tagVersion": 0, "compileIsolated": False, "keyChain": "unknown",
        "alwaysTransforms": False,
    }
    facts["hook"] = h
    tr = find_def(tree, "JaxtypingTransformer")
    if tr is not None:
        h["visitors"] = sorted(n.name for n in tr.body if isinstance(n, ast.FunctionDef) and n.name.startswith("visit_"))

        def deco_rule(fn):
            if fn is None:
                return "unknown", False
            rule = "unknown"
            for c in ast.walk(fn):
                if isinstance(c, ast.Call) and isinstance(c.func, ast.Attribute) and isinstance(c.func.value, ast.Attribute) and c.func.value.attr == "decorator_list":
                    if c.func.attr == "append" and len(c.args) == 1:
                        rule = "append"
                    elif c.func.attr == "insert" and len(c.args) == 2 and isinstance(c.args[0], ast.Constant) and c.args[0].value == 0:
                        rule = "insert0"
                    else:
                        rule = "unknown"
            copies = any(call_name(c) == "copy_location" and len(c.args) == 2 and isinstance(c.args[1], ast.Name) and c.args[1].id == "node" for c in ast.walk(fn))
            # ... or in a method of the transformer that is handed `node`
            for c in ast.walk(fn):
                if isinstance(c, ast.Call) and isinstance(c.func, ast.Attribute) and isinstance(c.func.value, ast.Name) and c.func.value.id == "self" \
                        and len(c.args) == 1 and isinstance(c.args[0], ast.Name) and c.args[0].id == "node":
                    m = find_def(tr, c.func.attr)
                    if m is not None and len(m.args.args) == 2:
                        par = m.args.args[1].arg
                        copies = copies or any(call_name(x) == "copy_location" and len(x.args) == 2 and isinstance(x.args[1], ast.Name) and x.args[1].id == par for x in ast.walk(m))
            return rule, copies

        d, c1 = deco_rule(find_def(tr, "visit_FunctionDef"))
        k, c2 = deco_rule(find_def(tr, "visit_ClassDef"))
        h["defDecorator"], h["classDecorator"], h["copiesLocation"] = d, k, c1 and c2
        vm = find_def(tr, "visit_Module")
        if vm is not None:
            h["importRule"] = import_rule(vm, tree)
    # the loader's two `compile` calls do not inherit `from __future__` flags of the hook's own module: each passes
    # `dont_inherit=True` (directly or through a `**options` dict literal holding it), or the hook module has no such import
    stc = find_def(tree, "_JaxtypingLoader", "source_to_code")
    if stc is not None:
        opts = {}
        for n in ast.walk(stc):
            if isinstance(n, ast.Assign) and len(n.targets) == 1 and isinstance(n.targets[0], ast.Name) and isinstance(n.value, ast.Dict):
                opts[n.targets[0].id] = {k.value: ast.unparse(v) for k, v in zip(n.value.keys, n.value.values) if isinstance(k, ast.Constant)}
        comps = [c for c in ast.walk(stc) if isinstance(c, ast.Call) and (call_name(c) == "compile" or (c.args and ast.unparse(c.args[0]) == "compile"))]

        def isolated(c):
            for k in c.keywords:
                if k.arg == "dont_inherit" and ast.unparse(k.value) == "True":
                    return True
                if k.arg is None and isinstance(k.value, ast.Name) and opts.get(k.value.id, {}).get("dont_inherit") == "True":
                    return True
            return False

        own_future = any(isinstance(n, ast.ImportFrom) and n.module == "__future__" for n in tree.body)
        h["compileIsolated"] = len(comps) >= 2 and (all(isolated(c) for c in comps) or not own_future) and all(isolated(c) for c in comps)
    # every code object `source_to_code` returns has been through the transformer: the `JaxtypingTransformer(...).visit(...)`
    # statement dominates every `return` (no handler, branch or early exit that compiles the module as it was read)
    if stc is not None:
        from inline import inline_helpers

        h["alwaysTransforms"] = transform_dominates(inline_helpers(stc, tree, find_def(tree, "_JaxtypingLoader")))
    # one key for everything: the decorator written into the module looks the typechecker up under `self.hash`, the
    # table is filled under `self.hash`, `self.hash` is the md5 of the typechecker string ("0" for None), and the same
    # value names the bytecode file
    tcc = find_def(tree, "Typechecker")
    if tcc is not None:
        from inline import inline_helpers

        env = module_constants(tree)
        ga, gh = find_def(tcc, "get_ast"), find_def(tcc, "get_hash")
        init_ = find_def(tcc, "__init__")
        init_ = with_constants(inline_helpers(init_, tree, tcc), env) if init_ is not None else None
        emb = False
        if ga is not None:
            scope_fns = [ga] + [find_def(tcc, c.func.attr) for c in ast.walk(ga) if isinstance(c, ast.Call) and isinstance(c.func, ast.Attribute)
                                and isinstance(c.func.value, ast.Name) and c.func.value.id == "self" and find_def(tcc, c.func.attr) is not None]
            # a local f-string holding the lookup expression may be embedded into the decorator text: join them
            for js in [n for f_ in scope_fns for n in ast.walk(f_) if isinstance(n, ast.JoinedStr)]:
                for a, b, c in zip(js.values, js.values[1:], js.values[2:]):
                    if isinstance(a, ast.Constant) and str(a.value).endswith("Typechecker.lookup['") and isinstance(b, ast.FormattedValue) \
                            and ast.unparse(b.value) == "self.hash" and b.format_spec is None and b.conversion == -1 \
                            and isinstance(c, ast.Constant) and str(c.value).startswith("']"):
                        emb = True
            # ... or a module-level template filled with `.format(self.hash)`: one placeholder, between the quotes of the subscript
            for c in [n for f_ in scope_fns for n in ast.walk(f_) if isinstance(n, ast.Call)]:
                if isinstance(c.func, ast.Attribute) and c.func.attr == "format" and isinstance(c.func.value, ast.Name) and c.func.value.id in env \
                        and isinstance(env[c.func.value.id].value, str) and len(c.args) == 1 and not c.keywords and ast.unparse(c.args[0]) == "self.hash":
                    text = env[c.func.value.id].value
                    if text.count("{}") == 1 and text.count("{") == 1 and "Typechecker.lookup['{}']" in text:
                        emb = True
        stores = [n for n in ast.walk(init_) if isinstance(n, ast.Assign) and isinstance(n.targets[0], ast.Subscript)
                  and ast.unparse(n.targets[0].value).endswith("lookup")] if init_ is not None else []
        filled = bool(stores) and all(ast.unparse(n.targets[0].slice) == "self.hash" for n in stores)
        hashes = [ast.unparse(n.value) for n in ast.walk(init_) if isinstance(n, ast.Assign) and ast.unparse(n.targets[0]) == "self.hash"] if init_ is not None else []
        md5 = sorted(hashes) == sorted(["hashlib.md5(typechecker.encode('utf-8')).hexdigest()", "'0'"])
        gh_ok = gh is not None and [ast.unparse(r.value) for r in ast.walk(gh) if isinstance(r, ast.Return)] == ["self.hash"]
        ld2 = find_def(tree, "_JaxtypingLoader")
        hash_locals = {n.targets[0].id for n in ast.walk(ld2) if isinstance(n, ast.Assign) and len(n.targets) == 1 and isinstance(n.targets[0], ast.Name)
                       and ast.unparse(n.value) == "self._typechecker.get_hash()"} if ld2 is not None else set()
        names_file = ld2 is not None and any(isinstance(c, ast.Call) and call_name(c) == "partial" and len(c.args) == 2
                                              and ast.unparse(c.args[0]) == "_optimized_cache_from_source"
                                              and (ast.unparse(c.args[1]) == "self._typechecker.get_hash()" or (isinstance(c.args[1], ast.Name) and c.args[1].id in hash_locals))
                                              for c in ast.walk(ld2))
        # the table keeps what it is given for the life of the process: a plain dict display on the class (strong
        # references), and nothing in the file removes entries — definitions nested in functions look their decorator up
        # every time the enclosing function runs
        table_plain = any(isinstance(n, ast.Assign) and len(n.targets) == 1 and isinstance(n.targets[0], ast.Name) and n.targets[0].id == "lookup"
                          and isinstance(n.value, ast.Dict) and not n.value.keys for n in tcc.body)
        pruned = any((isinstance(n, ast.Delete) and any("lookup" in ast.unparse(t) for t in n.targets))
                     or (isinstance(n, ast.Call) and isinstance(n.func, ast.Attribute) and n.func.attr in ("pop", "popitem", "clear") and ast.unparse(n.func.value).endswith("lookup"))
                     for n in ast.walk(tree))
        if emb and filled and md5 and gh_ok and names_file and table_plain and not pruned:
            h["keyChain"] = "md5-everywhere"
    fi = find_def(tree, "_JaxtypingFinder", "should_instrument")
    if fi is not None:
        tests = [n.test for n in ast.walk(fi) if isinstance(n, ast.If)]
        if not tests:
            # `return any(<test> for module in self.modules)`
            gens = [n for n in ast.walk(fi) if isinstance(n, ast.Return) and call_name(n.value) == "any" and len(n.value.args) == 1
                    and isinstance(n.value.args[0], (ast.GeneratorExp, ast.ListComp)) and len(n.value.args[0].generators) == 1
                    and not n.value.args[0].generators[0].ifs and ast.unparse(n.value.args[0].generators[0].iter) == "self.modules"]
            if len(gens) == 1 and len([n for n in ast.walk(fi) if isinstance(n, ast.Return)]) == 1:
                tests = [gens[0].value.args[0].elt]
        if len(tests) == 1 and isinstance(tests[0], ast.BoolOp) and isinstance(tests[0].op, ast.Or) and len(tests[0].values) == 2:
            a, b = tests[0].values
            eq = isinstance(a, ast.Compare) and len(a.ops) == 1 and isinstance(a.ops[0], ast.Eq)
            sw = isinstance(b, ast.Call) and isinstance(b.func, ast.Attribute) and b.func.attr == "startswith" and len(b.args) == 1
            dotted = sw and isinstance(b.args[0], ast.BinOp) and isinstance(b.args[0].op, ast.Add) and isinstance(b.args[0].right, ast.Constant) and b.args[0].right.value == "."
            if eq and dotted:
                h["shouldInstrument"] = "eq_or_dotted_prefix"
            elif eq and sw:
                h["shouldInstrument"] = "eq_or_startswith"
        elif len(tests) == 1 and isinstance(tests[0], ast.Call) and getattr(tests[0].func, "attr", "") == "startswith":
            h["shouldInstrument"] = "startswith"
        elif len(tests) == 1 and isinstance(tests[0], ast.Compare):
            h["shouldInstrument"] = "eq"
    fs = find_def(tree, "_JaxtypingFinder", "find_spec")
    if fs is not None:
        loader_names = {"spec.loader"} | {n.targets[0].id for n in ast.walk(fs) if isinstance(n, ast.Assign) and len(n.targets) == 1
                                          and isinstance(n.targets[0], ast.Name) and ast.unparse(n.value) == "spec.loader"}

        def is_si(t):
            return call_name(t) == "should_instrument" or (isinstance(t, ast.UnaryOp) and isinstance(t.op, ast.Not) and call_name(t.operand) == "should_instrument")

        h["onlySourceLoaders"] = any(call_name(c) == "isinstance" and len(c.args) == 2 and ast.unparse(c.args[1]) == "SourceFileLoader" and ast.unparse(c.args[0]) in loader_names for c in ast.walk(fs)) and \
            any(isinstance(n, ast.If) and is_si(n.test) for n in ast.walk(fs))
    ih = find_def(tree, "install_import_hook")
    if ih is not None:
        h["insertsAtFront"] = any(isinstance(c, ast.Call) and isinstance(c.func, ast.Attribute) and c.func.attr == "insert" and "meta_path" in ast.dump(c.func.value) and isinstance(c.args[0], ast.Constant) and c.args[0].value == 0 for c in ast.walk(ih))
    un = find_def(tree, "ImportHookManager", "uninstall")
    ex = find_def(tree, "ImportHookManager", "__exit__")
    if un is not None and ex is not None:
        h["uninstallRemoves"] = any(isinstance(c, ast.Call) and isinstance(c.func, ast.Attribute) and c.func.attr == "remove" and "meta_path" in ast.dump(c.func.value) for c in ast.walk(un)) and bool(calls_in([ex], "uninstall"))
    ld = find_def(tree, "_JaxtypingLoader")
    if ld is not None:
        scopes = []
        for m in ld.body:
            if isinstance(m, ast.FunctionDef):
                for w in ast.walk(m):
                    if isinstance(w, ast.With) and any(is_cache_patch(it.context_expr, ld) for it in w.items):
                        scopes.append(m.name)
        if len(scopes) == 1 and scopes[0] in ("get_code", "exec_module"):
            h["patchScope"] = scopes[0]
            # every way out of the method must lie inside the `with patch(...)`: an early `return` in front of it (say,
            # when no bytecode is going to be written) leaves a path on which the interpreter's own cache name is used
            m = find_def(ld, scopes[0])
            withs = [w for w in ast.walk(m) if isinstance(w, ast.With) and any(is_cache_patch(it.context_expr, ld) for it in w.items)]
            inside = {id(n) for w in withs for n in ast.walk(w)}
            if any(isinstance(n, ast.Return) and id(n) not in inside for n in ast.walk(m)):
                outside = [n for n in ast.walk(m) if isinstance(n, ast.If) and id(n) not in inside and any(isinstance(r, ast.Return) for r in ast.walk(n))]
                h["patchScope"] = "get_code_if_writing" if any("dont_write_bytecode" in ast.unparse(n.test) for n in outside) else scopes[0] + "_conditional"
    oc = find_def(tree, "_optimized_cache_from_source")
    if oc is not None:
        env = module_constants(tree)
        local_js = {n.targets[0].id: n.value for n in ast.walk(oc) if isinstance(n, ast.Assign) and len(n.targets) == 1 and isinstance(n.targets[0], ast.Name)
                    and isinstance(n.value, ast.JoinedStr)}
        for c in ast.walk(oc):
            if isinstance(c, ast.keyword) and c.arg == "optimization":
                val = c.value
                if isinstance(val, ast.Name) and val.id in local_js:
                    val = local_js[val.id]      # `tag = f"..."` then `optimization=tag`
                if not isinstance(val, ast.JoinedStr):
                    continue
                # literal text with module-level integer constants written out; what remains formatted is the hash
                text, fmt = "", []
                for p_ in val.values:
                    if isinstance(p_, ast.Constant):
                        text += str(p_.value)
                    elif isinstance(p_, ast.FormattedValue) and isinstance(p_.value, ast.Name) and p_.value.id in env \
                            and isinstance(env[p_.value.id].value, int) and p_.format_spec is None and p_.conversion == -1:
                        text += str(env[p_.value.id].value)
                    else:
                        fmt.append(p_)
                        text += "{}"
                import re as _re
                m = _re.fullmatch(r"jaxtyping(\d+)\{\}", text)
                if m:
                    h["tagVersion"] = int(m.group(1))
                h["tagHasChecker"] = bool(m) and len(fmt) == 1 and isinstance(fmt[0].value, ast.Name) and fmt[0].value.id == "typechecker_hash" \
                    and fmt[0].format_spec is None and fmt[0].conversion == -1


def render_hook(facts):
    h = facts["hook"]
    txt = f"""/- GENERATED by harness/extract.py from {SRC}/_import_hook.py on every run. Do not edit. -/
namespace JV.Generated

def hookDefDecorator : String := {lean_str(h['defDecorator'])}
def hookClassDecorator : String := {lean_str(h['classDecorator'])}
def hookCopiesLocation : Bool := {lean_bool(h['copiesLocation'])}
/-- both `compile` calls of the loader pass `dont_inherit=True` -/
def hookCompileIsolated : Bool := {lean_bool(h['compileIsolated'])}
def hookAlwaysTransforms : Bool := {lean_bool(h['alwaysTransforms'])}
def hookImportRule : String := {lean_str(h['importRule'])}
def hookVisitors : List String := {lean_list([lean_str(v) for v in h['visitors']])}
def hookShouldInstrument : String := {lean_str(h['shouldInstrument'])}
def hookInsertsAtFront : Bool := {lean_bool(h['insertsAtFront'])}
def hookUninstallRemoves : Bool := {lean_bool(h['uninstallRemoves'])}
def hookOnlySourceLoaders : Bool := {lean_bool(h['onlySourceLoaders'])}
def cachePatchScope : String := {lean_str(h['patchScope'])}
/-- decorator lookup key = table key = md5 of the typechecker string = key in the bytecode file name -/
def hookKeyChain : String := {lean_str(h['keyChain'])}
def cacheTagHasChecker : Bool := {lean_bool(h['tagHasChecker'])}
def cacheTagVersion : Nat := {h['tagVersion']}

end JV.Generated
"""
    write_if_changed(os.path.join(GEN, "Hook.lean"), txt)


EXTRA_EXTRACTORS.append(hook_facts)
EXTRA_RENDERERS.append(render_hook)



# --------------------------------------------------------------------------- annotation building / pickling (C15 / C20)


def _src(node):
    try:
        return ast.unparse(node)
    except Exception:  # noqa: BLE001
        return "?"


def scalar_table(helper):
    return _scalar_table(helper)


scalar_table.module_body = None


def _scalar_table(helper):
    """`def f(t): if t is X [or t is Y]: return "<prefix>" ... return None` -> [(X, prefix), ...] in source order, or None"""
    if len(helper.args.args) != 1:
        return None
    a = helper.args.args[0].arg
    rows = []
    body = [s for s in helper.body if not (isinstance(s, ast.Expr) and isinstance(s.value, ast.Constant))]
    # a leading `for t, p in TABLE: if <param> is t: return p` over a module-level table of (type, prefix) pairs
    unrolled = []
    tables = {n.targets[0].id: n.value for n in (scalar_table.module_body or []) if isinstance(n, ast.Assign) and len(n.targets) == 1
              and isinstance(n.targets[0], ast.Name) and isinstance(n.value, (ast.Tuple, ast.List))}
    while body and isinstance(body[0], ast.For):
        lp = body[0]
        if not (isinstance(lp.target, ast.Tuple) and len(lp.target.elts) == 2 and all(isinstance(e, ast.Name) for e in lp.target.elts)
                and isinstance(lp.iter, ast.Name) and lp.iter.id in tables and not lp.orelse and len(lp.body) == 1 and isinstance(lp.body[0], ast.If)
                and not lp.body[0].orelse and _src(lp.body[0].test) == f"{a} is {lp.target.elts[0].id}"
                and [_src(x) for x in lp.body[0].body] == [f"return {lp.target.elts[1].id}"]):
            return None
        for row in tables[lp.iter.id].elts:
            if not (isinstance(row, ast.Tuple) and len(row.elts) == 2 and isinstance(row.elts[1], ast.Constant) and isinstance(row.elts[1].value, str)):
                return None
            unrolled.append((_src(row.elts[0]), row.elts[1].value))
        body = body[1:]
    rows.extend(unrolled)
    stmts = []
    for st in body:       # flatten an if/elif chain into a sequence of ifs
        while isinstance(st, ast.If):
            stmts.append(st)
            if len(st.orelse) == 1:
                st = st.orelse[0]
            elif not st.orelse:
                st = None
            else:
                return None
        if st is not None:
            stmts.append(st)
    if not stmts or not (isinstance(stmts[-1], ast.Return) and (stmts[-1].value is None or _src(stmts[-1].value) == "None")):
        return None
    for st in stmts[:-1]:
        if not isinstance(st, ast.If) or len(st.body) != 1 or not isinstance(st.body[0], ast.Return) or not isinstance(st.body[0].value, ast.Constant) \
                or not isinstance(st.body[0].value.value, str):
            return None
        tests = st.test.values if isinstance(st.test, ast.BoolOp) and isinstance(st.test.op, ast.Or) else [st.test]
        for t in tests:
            if isinstance(t, ast.Compare) and len(t.ops) == 1 and isinstance(t.ops[0], ast.Is) and isinstance(t.left, ast.Name) and t.left.id == a:
                rows.append((_src(t.comparators[0]), st.body[0].value.value))
            else:
                return None
    return rows


def make_facts(facts):
    tree = parse("_array_types.py")
    mk = {"scalarLadder": [], "nestDimsOuterFirst": False, "nestStrOuterFirst": False, "nestVariadicShift": False,
          "nestDtypesFilter": False, "nestDtypesAnyTakesInner": False, "reducerCarriesDtypes": False, "reducerRebuildsVia": "unknown",
          "stripsDimStr": False, "aliases": [], "sentinelsByReference": False}
    facts["make"] = mk
    fn = find_def(tree, "_make_array_cached")
    scalar_table.module_body = tree.body
    if fn is not None:
        for node in ast.walk(fn):
            if isinstance(node, ast.If):
                # `array_type is X [or array_type is Y]` guarding `if _check_scalar("p", dtypes, dims): return array_type else: return _not_made`
                tests = node.test.values if isinstance(node.test, ast.BoolOp) and isinstance(node.test.op, ast.Or) else [node.test]
                tys = []
                for t in tests:
                    if isinstance(t, ast.Compare) and len(t.ops) == 1 and isinstance(t.ops[0], ast.Is) and isinstance(t.left, ast.Name) and t.left.id == "array_type":
                        tys.append(_src(t.comparators[0]))
                    else:
                        tys = []
                        break
                if tys and len(node.body) == 1 and isinstance(node.body[0], ast.If):
                    inner = node.body[0]
                    c = inner.test
                    if call_name(c) == "_check_scalar" and len(c.args) == 3 and isinstance(c.args[0], ast.Constant) \
                            and _src(c.args[1]) == "dtypes" and _src(c.args[2]) == "dims" \
                            and len(inner.body) == 1 and isinstance(inner.body[0], ast.Return) and _src(inner.body[0].value) == "array_type" \
                            and len(inner.orelse) == 1 and isinstance(inner.orelse[0], ast.Return) and _src(inner.orelse[0].value) == "_not_made":
                        for ty in tys:
                            mk["scalarLadder"].append((ty, c.args[0].value))
                # the table form: `p = <helper>(array_type)`; `if p is not None: if _check_scalar(p, dtypes, dims): return array_type
                # else: return _not_made`, where the helper is a chain of `if array_type is X [or ...]: return "<prefix>"` ending
                # in `return None`
                t = node.test
                if isinstance(t, ast.Compare) and len(t.ops) == 1 and isinstance(t.ops[0], ast.IsNot) and isinstance(t.left, ast.Name) \
                        and _src(t.comparators[0]) == "None" and len(node.body) == 1 and isinstance(node.body[0], ast.If):
                    pv = t.left.id
                    inner = node.body[0]
                    c = inner.test
                    asg = [a for a in ast.walk(fn) if isinstance(a, ast.Assign) and len(a.targets) == 1 and _src(a.targets[0]) == pv]
                    if call_name(c) == "_check_scalar" and [_src(a) for a in c.args] == [pv, "dtypes", "dims"] \
                            and len(inner.body) == 1 and isinstance(inner.body[0], ast.Return) and _src(inner.body[0].value) == "array_type" \
                            and len(inner.orelse) == 1 and isinstance(inner.orelse[0], ast.Return) and _src(inner.orelse[0].value) == "_not_made" \
                            and len(asg) == 1 and isinstance(asg[0].value, ast.Call) and isinstance(asg[0].value.func, ast.Name) \
                            and [_src(a) for a in asg[0].value.args] == ["array_type"]:
                        helper = find_def(tree, asg[0].value.func.id)
                        rows = scalar_table(helper) if helper is not None else None
                        if rows is not None:
                            mk["scalarLadder"].extend(rows)
            if isinstance(node, ast.Assign) and len(node.targets) == 1:
                tgt, val = _src(node.targets[0]), _src(node.value)
                if tgt == "dims" and val == "dims + array_type.dims":
                    mk["nestDimsOuterFirst"] = True
                if tgt == "dim_str" and val == "dim_str + ' ' + array_type.dim_str":
                    mk["nestStrOuterFirst"] = True
                if tgt == "index_variadic" and val == "array_type.index_variadic + len(dims)":
                    mk["nestVariadicShift"] = True
                if tgt == "dtypes" and val == "tuple((x for x in dtypes if x in array_type.dtypes))":
                    mk["nestDtypesFilter"] = True
                if tgt == "dtypes" and val == "array_type.dtypes":
                    mk["nestDtypesAnyTakesInner"] = True
    gi = find_def(tree, "_MetaAbstractDtype", "__getitem__")
    if gi is not None:
        mk["stripsDimStr"] = any(isinstance(n, ast.Assign) and _src(n.targets[0]) == "dim_str" and _src(n.value) == "dim_str.strip()" for n in ast.walk(gi))
    red = find_def(tree, "_pickle_array_annotation")
    if red is not None:
        rets = [n for n in ast.walk(red) if isinstance(n, ast.Return) and isinstance(n.value, ast.Tuple) and len(n.value.elts) == 2]
        rets = [r for r in rets if _src(r.value.elts[0]) != "_return_abstractarray"]
        if len(rets) == 1:
            target, args = rets[0].value.elts
            mk["reducerRebuildsVia"] = _src(target)
            # does a value derived from `x.dtypes` travel in the arguments?
            derived = {"x.dtypes"}
            for n in ast.walk(red):
                if isinstance(n, ast.Assign) and len(n.targets) == 1 and isinstance(n.targets[0], ast.Name) and "x.dtypes" in _src(n.value):
                    derived.add(n.targets[0].id)
            argsrc = {_src(a) for a in ast.walk(args) if isinstance(a, (ast.Name, ast.Attribute))}
            carries = bool(derived & argsrc)
            if carries and _src(target) != "x.dtype.__getitem__":
                un = find_def(tree, _src(target))
                # the unpickler must install the carried dtypes on the rebuilt annotation
                carries = un is not None and any(
                    isinstance(n, (ast.Assign,)) and isinstance(n.targets[0], ast.Attribute) and n.targets[0].attr == "dtypes" for n in ast.walk(un)
                ) or (un is not None and any(call_name(c) in ("_make_array_cached", "_MetaAbstractArray") for c in ast.walk(un)))
            mk["reducerCarriesDtypes"] = bool(carries)
    # the identity-compared sentinels: instances of a class whose __reduce__ returns a string (their own
    # module-level name) pickle by reference; a bare object() does not
    by_ref_classes = set()
    for node in tree.body:
        if isinstance(node, ast.ClassDef):
            for m in node.body:
                if isinstance(m, ast.FunctionDef) and m.name == "__reduce__":
                    rets = [r for r in ast.walk(m) if isinstance(r, ast.Return)]
                    if len(rets) == 1 and isinstance(rets[0].value, ast.Attribute) and _src(rets[0].value.value) == "self":
                        attr = rets[0].value.attr
                        init_ = [f for f in node.body if isinstance(f, ast.FunctionDef) and f.name == "__init__"]
                        # __init__(self, name): self.<attr> = name
                        if init_ and any(isinstance(a, ast.Assign) and _src(a.targets[0]) == "self." + attr and isinstance(a.value, ast.Name) and a.value.id == init_[0].args.args[1].arg for a in ast.walk(init_[0])):
                            by_ref_classes.add(node.name)
    sent = {}
    for node in tree.body:
        if isinstance(node, ast.Assign) and len(node.targets) == 1 and isinstance(node.targets[0], ast.Name) \
                and node.targets[0].id in ("_any_dtype", "_anonymous_dim", "_anonymous_variadic_dim"):
            nm = node.targets[0].id
            v = node.value
            sent[nm] = isinstance(v, ast.Call) and isinstance(v.func, ast.Name) and v.func.id in by_ref_classes \
                and len(v.args) == 1 and isinstance(v.args[0], ast.Constant) and v.args[0].value == nm
    mk["sentinelsByReference"] = len(sent) == 3 and all(sent.values())
    init = parse("__init__.py")
    ga = None
    for n in ast.walk(init):
        if isinstance(n, ast.FunctionDef) and n.name == "__getattr__":
            ga = n
    if ga is not None:
        def ann(node):
            # Cat[arraytype, "dims"]
            if isinstance(node, ast.Subscript) and isinstance(node.value, ast.Name) and isinstance(node.slice, ast.Tuple) and len(node.slice.elts) == 2 \
                    and isinstance(node.slice.elts[1], ast.Constant) and isinstance(node.slice.elts[1].value, str):
                return (node.value.id, _src(node.slice.elts[0]).split(".")[-1], node.slice.elts[1].value)
            return None
        for n in ast.walk(ga):
            if isinstance(n, ast.If) and isinstance(n.test, ast.Compare) and _src(n.test.left) == "item" and isinstance(n.test.comparators[0], ast.Constant):
                name = n.test.comparators[0].value
                if name in ("Scalar", "ScalarLike", "PRNGKeyArray"):
                    rets = [r for r in n.body if isinstance(r, ast.Return)]
                    if len(rets) == 1:
                        v = rets[0].value
                        if isinstance(v, ast.Subscript) and _src(v.value) == "Union":
                            elts = v.slice.elts if isinstance(v.slice, ast.Tuple) else [v.slice]
                            parts = [ann(e) for e in elts]
                        else:
                            parts = [ann(v)]
                        if all(parts):
                            mk["aliases"].append((name, parts))
    mk["aliases"].sort()


def render_make(facts):
    mk = facts["make"]
    lad = ", ".join(f"({lean_str(a)}, {lean_str(b)})" for a, b in mk["scalarLadder"])
    als = ", ".join(
        f"({lean_str(n)}, [" + ", ".join(f"({lean_str(c)}, {lean_str(a)}, {lean_str(d)})" for c, a, d in parts) + "])" for n, parts in mk["aliases"]
    )
    txt = f"""/- GENERATED by harness/extract.py from {SRC}/_array_types.py and __init__.py on every run. Do not edit. -/
namespace JV.Generated

/-- `array_type is X` -> the dtype-name prefix handed to `_check_scalar`, in source order -/
def scalarLadder : List (String × String) := [{lad}]
/-- nesting: `dims = dims + array_type.dims`, `dim_str = dim_str + " " + array_type.dim_str`,
    `index_variadic = array_type.index_variadic + len(dims)`, dtypes filtered by membership,
    an any-dtype outer category takes the inner dtypes -/
def nestDimsOuterFirst : Bool := {lean_bool(mk['nestDimsOuterFirst'])}
def nestStrOuterFirst : Bool := {lean_bool(mk['nestStrOuterFirst'])}
def nestVariadicShift : Bool := {lean_bool(mk['nestVariadicShift'])}
def nestDtypesFilter : Bool := {lean_bool(mk['nestDtypesFilter'])}
def nestDtypesAnyTakesInner : Bool := {lean_bool(mk['nestDtypesAnyTakesInner'])}
/-- `__getitem__` strips the dim string -/
def stripsDimStr : Bool := {lean_bool(mk['stripsDimStr'])}
/-- the copyreg reducer hands the effective dtypes (`x.dtypes`) to the function that rebuilds -/
def reducerCarriesDtypes : Bool := {lean_bool(mk['reducerCarriesDtypes'])}
def reducerRebuildsVia : String := {lean_str(mk['reducerRebuildsVia'])}
/-- the sentinels `_any_dtype`, `_anonymous_dim`, `_anonymous_variadic_dim` pickle as references to
    their module-level names (their class has a `__reduce__` returning the name) -/
def sentinelsByReference : Bool := {lean_bool(mk['sentinelsByReference'])}
/-- the lazily built aliases of `jaxtyping/__init__.py`: name -> [(category, array type, dim string)] -/
def aliases : List (String × List (String × String × String)) := [{als}]

end JV.Generated
"""
    write_if_changed(os.path.join(GEN, "Make.lean"), txt)


EXTRA_EXTRACTORS.append(make_facts)
EXTRA_RENDERERS.append(render_make)



# --------------------------------------------------------------------------- what a check reads of the checked object (C17)


def obj_attr_facts(facts):
    tree = parse("_array_types.py")
    attrs, bare, fns = set(), set(), []
    helpers = {n.name: n for n in tree.body if isinstance(n, ast.FunctionDef)}
    seen = set()

    def scan(fn, var):
        """every use of the local `var` (the checked object) inside `fn`; a module-level helper it is handed to as a
        plain positional argument is scanned in turn, with the matching parameter as the object"""
        parents = {}
        for node in ast.walk(fn):
            for ch in ast.iter_child_nodes(node):
                parents[ch] = node
        for node in ast.walk(fn):
            if isinstance(node, ast.Name) and node.id == var:
                par = parents.get(node)
                if isinstance(node.ctx, ast.Store):
                    bare.add("REBOUND")
                elif isinstance(par, ast.Attribute) and par.value is node:
                    attrs.add(par.attr)
                elif isinstance(par, ast.Call) and node in par.args:
                    cn = call_name(par)
                    if cn == "hasattr":
                        # hasattr(obj, "<name>") reads that attribute
                        if len(par.args) == 2 and isinstance(par.args[1], ast.Constant):
                            attrs.add(par.args[1].value)
                        else:
                            bare.add("hasattr:dynamic")
                    h = helpers.get(cn) if isinstance(par.func, ast.Name) else None
                    if h is not None and cn != "_check_dims" and not any(isinstance(a, ast.Starred) for a in par.args) \
                            and par.args.index(node) < len(h.args.args) and not h.args.vararg:
                        key = (cn, par.args.index(node))
                        if key not in seen:
                            seen.add(key)
                            scan(h, h.args.args[par.args.index(node)].arg)
                    else:
                        bare.add(cn or "CALL:?")
                else:
                    bare.add("OTHER:" + type(par).__name__)

    for name in ("__instancecheck__", "__instancecheck_str__", "_check_shape"):
        fn = find_def(tree, "_MetaAbstractArray", name)
        if fn is None:
            bare.add("MISSING:" + name)
            continue
        fns.append(name)
        if "obj" not in [a.arg for a in fn.args.args]:
            bare.add("NO-OBJ-PARAM:" + name)
            continue
        scan(fn, "obj")
    # _check_dims receives sizes, never the object
    cd = find_def(tree, "_check_dims")
    facts["obj_attrs"] = {"attrs": sorted(attrs), "bare": sorted(bare), "functions": fns,
                          "check_dims_params": [a.arg for a in cd.args.args] if cd is not None else []}


def render_obj_attrs(facts):
    oa = facts["obj_attrs"]
    txt = f"""/- GENERATED by harness/extract.py from {SRC}/_array_types.py on every run. Do not edit. -/
namespace JV.Generated

/-- attributes of the checked object read (`obj.<attr>`, `hasattr(obj, "<attr>")`) anywhere in
    `__instancecheck__`, `__instancecheck_str__`, `_check_shape` -/
def objAttrsRead : List String := {lean_list([lean_str(x) for x in oa['attrs']])}
/-- every other use of the bare object: the functions it is handed to; anything else (a comparison,
    truth test, subscript, iteration ...) shows as `OTHER:<syntax>` -/
def objBareUses : List String := {lean_list([lean_str(x) for x in oa['bare']])}
def checkDimsParams : List String := {lean_list([lean_str(x) for x in oa['check_dims_params']])}

end JV.Generated
"""
    write_if_changed(os.path.join(GEN, "ObjAttrs.lean"), txt)


EXTRA_EXTRACTORS.append(obj_attr_facts)
EXTRA_RENDERERS.append(render_obj_attrs)


if __name__ == "__main__":
    print(json.dumps(run(), indent=1, default=str))
