/-
Vocabulary for statements about the dim-string language (C14).
-/
import JaxVerif.Model.Parse

namespace JV

def isMod (c : Char) : Bool := c == '#' || c == '*' || c == '_' || c == '?'

/-- the flags a duplicate-free sequence of modifier characters stands for -/
def modsOf (ms : List Char) : Mods :=
  { broadcastable := ms.contains '#', variadic := ms.contains '*',
    anonymous := ms.contains '_', treepath := ms.contains '?' }

/-- a dim string written out: leading whitespace, then tokens each followed by a whitespace run -/
def renderSpec (lead : List Char) : List (List Char × List Char) → List Char
  | [] => lead
  | (tok, ws) :: rest => lead ++ tok ++ renderSpec ws rest

/-- a well-formed token: non-empty, no whitespace inside -/
def IsToken (t : List Char) : Prop := t ≠ [] ∧ ∀ c ∈ t, isWs c = false

def AllWs (w : List Char) : Prop := ∀ c ∈ w, isWs c = true

/-- every separator but possibly the last is non-empty -/
def SepsOk : List (List Char × List Char) → Prop
  | [] => True
  | [_] => True
  | (_, ws) :: rest => ws ≠ [] ∧ SepsOk rest

end JV
