import JaxVerif.Properties.C15

#print axioms JV.C15_nest
#print axioms JV.C15_nest_deep
#print axioms JV.C15_closed
#print axioms JV.C15_nest_dtypes
#print axioms JV.C15_nest_error
#print axioms JV.C15_union
#print axioms JV.C15_union_error
#print axioms JV.C15_typevar
#print axioms JV.C15_scalar
#print axioms JV.C15_generated_good
#print axioms JV.C15_aliases
