/-
Lemmas for the translated parser code (Model/ParserDsl.lean): a loop body that behaves like one round of
the modifier-stripping loop, iterated, is `stripMods`. Proved once; the obligations about the code the
translator produces on each run (Properties/C14.lean) are then free of recursion. Core Lean only.
-/
import JaxVerif.Model.ParserDsl
import JaxVerif.Lemmas.Parse

namespace JV

/-- a state in which the four flags are assigned and `elem` is still a string -/
def mkSt (e : List Char) (m : Mods) (k : Option AxKind) (iv : Option Nat) (idx : Nat) : PSt :=
  { elem := e, intVal := none, b := some m.broadcastable, v := some m.variadic, a := some m.anonymous,
    t := some m.treepath, kind := k, iv := iv, idx := idx, made := none, out := none }

/-- one round of the `while True` loop, as the model sees it -/
def loopSpec (e : List Char) (m : Mods) (k : Option AxKind) (iv : Option Nat) (idx : Nat) : POut :=
  match e with
  | [] => .brk (mkSt [] m k iv idx)
  | c :: r =>
    if isMod c then
      (match setMod c m with
       | none => .raised
       | some m' => .ok (mkSt r m' k iv idx))
    else if countEq (c :: r) == 1 then .ok (mkSt (afterEq (c :: r)) m k iv idx)
    else .brk (mkSt (c :: r) m k iv idx)

/-- the loop, as the model sees it -/
def loopResult (e : List Char) (m : Mods) (k : Option AxKind) (iv : Option Nat) (idx : Nat) : POut :=
  match stripMods (e.length + 1) e m with
  | none => .raised
  | some (base, m') => .ok (mkSt base m' k iv idx)

/-- `parseTok` in the vocabulary of the token features -/
theorem parseTok_feat (elem : List Char) :
    parseTok elem =
      if fComma elem && !fParen elem then none
      else if fEndsHash elem then none
      else if fHasEll elem then
        if !fEqEll elem then none else some (.anonVar, true)
      else tokFinish (stripMods (elem.length + 1) elem {}) := by
  rw [parseTok_eq]
  rfl

theorem classify_feat (base : List Char) :
    classify base =
      if fLenZero base || fIsIdent base then .named
      else match parseIntLit base with
        | some k => .fixed k
        | none => .symbolic := rfl

theorem iterP_loopSpec (f : PSt → POut) (k : Option AxKind) (iv : Option Nat) (idx : Nat)
    (hf : ∀ e m, f (mkSt e m k iv idx) = loopSpec e m k iv idx) :
    ∀ (n : Nat) (e : List Char) (m : Mods), e.length + 1 ≤ n →
      iterP f n (mkSt e m k iv idx) = loopResult e m k iv idx := by
  intro n
  induction n with
  | zero => intro e m h; omega
  | succ n ih =>
    intro e m h
    unfold loopResult
    cases e with
    | nil => simp [iterP, hf, loopSpec, stripMods]
    | cons c r =>
      simp only [iterP, hf, loopSpec, List.length_cons]
      simp only [List.length_cons] at h
      cases hc : isMod c with
      | true =>
        rw [stripMods_mod_step _ _ _ _ hc]
        simp only [if_true]
        cases hs : setMod c m with
        | none => simp
        | some m' =>
          simp only [Option.bind_some]
          rw [ih r m' (by omega)]
          rfl
      | false =>
        rw [stripMods_nonmod_step _ _ _ _ hc]
        simp only [Bool.false_eq_true, if_false]
        by_cases he : (countEq (c :: r) == 1) = true
        · simp only [he, if_true]
          have hl := afterEq_cons_length_le c r
          rw [ih (afterEq (c :: r)) m (by omega)]
          unfold loopResult
          rw [stripMods_fuel ((afterEq (c :: r)).length + 1) (r.length + 1) _ m (by omega) (by omega)]
        · simp [he]

/-- code whose per-token behaviour is one step of the model parses whole token lists like the model -/
theorem runToks_eq (body : PStmt) (h : ∀ e idx iv, runTok body e idx iv = tokStep e idx iv) :
    ∀ (ts : List (List Char)) (idx : Nat) (iv : Option Nat),
      runToks body ts idx iv = (parseToks ts idx iv).map some := by
  intro ts
  induction ts with
  | nil => intro idx iv; simp [runToks, parseToks]
  | cons t ts ih =>
    intro idx iv
    simp only [runToks, parseToks, h, tokStep]
    cases ht : parseTok t with
    | none => simp
    | some p =>
      obtain ⟨d, isVar⟩ := p
      cases isVar <;> cases iv <;> simp [ih] <;>
        (first | (cases parseToks ts (idx + 1) _ <;> simp) | skip)

theorem runSpec_eq (body : PStmt) (h : ∀ e idx iv, runTok body e idx iv = tokStep e idx iv) (s : List Char) :
    runSpec body s = (parseSpec s).map some :=
  runToks_eq body h (splitWs s) 0 none

end JV
