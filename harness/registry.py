"""Per-property metadata for MANIFEST.json. A property is listed under `checks` only when its
harness module (harness/cXX.py), Properties/CXX.lean and Audit/CXX.lean exist."""

COMMON_NOTE = (
    "Trusted: Lean 4.33 kernel (leanchecker re-check in the thorough tier); axioms limited to "
    "propext / Classical.choice / Quot.sound, audited by `#print axioms` on every run; no sorry, "
    "native_decide, bv_decide or own axioms (grep on every run). The theorems are about a "
    "hand-written executable model; the tie to /repo is (T1) facts re-extracted from the current "
    "source into lean/JaxVerif/Generated/*.lean against which the theorems are re-checked, and "
    "(T2) a differential run of model and implementation on generated inputs. "
)

PROPS = {
    "C01": dict(
        text="Kernel-checked theorems that the model of _check_dims/_check_shape/__instancecheck_str__ accepts exactly the shapes the declarative dim-string semantics (Matches under one total assignment extending the context) accepts, for every dim list, shape, memo and history; the model is tied to the code by an exhaustive small-scope plus random differential run of verdicts and print_bindings() on histories of checks.",
        note="Modelled not verified: numpy.broadcast_shapes (compared with JV.bcast on every run), eval of symbolic axes outside the integer fragment (+ - * // unary minus, {arg}), dict ordering.",
        technique="Lean 4 proof (greedy walk = satisfiability, induction over axes and histories) + differential correspondence",
        design="§4 C01",
    ),
}


def manifest():
    import json
    import os

    verif = os.path.dirname(os.path.dirname(os.path.abspath(__file__)))
    props = [json.loads(l) for l in open(os.path.join(verif, "properties.jsonl"))]
    checks = []
    na = []
    for p in props:
        pid = p["id"]
        meta = PROPS.get(pid)
        have = (
            meta is not None
            and os.path.exists(os.path.join(verif, "harness", pid.lower() + ".py"))
            and os.path.exists(os.path.join(verif, "lean", "JaxVerif", "Properties", pid + ".lean"))
            and os.path.exists(os.path.join(verif, "lean", "JaxVerif", "Audit", pid + ".lean"))
        )
        if not have:
            na.append({"property_id": pid, "reason": (meta or {}).get("na_reason", "check not built yet (work in progress; designed in DESIGN.md §4 " + pid + ")")})
            continue
        checks.append({
            "property_id": pid,
            "quick_cmd": f"bin/check {pid} quick",
            "thorough_cmd": f"bin/check {pid} thorough",
            "evidence_file": f"evidence/{pid}.json",
            "replay_cmd_template": f"bin/check {pid} quick --replay {{path}}",
            "engine": "lean4+correspondence",
            "level_claimed": {"category": meta.get("level", "proof"), "text": meta["text"], "design_ref": meta.get("design", "§4 " + pid)},
            "level_note": COMMON_NOTE + meta["note"],
            "technique": meta["technique"],
        })
    m = {
        "version": 1,
        "setup_cmd": "bin/setup",
        "hooks": {
            "guard": "PATRICK_KIDGER_JAXTYPING_VERIF",
            "enable": "no source hooks are needed: checks import jaxtyping from /repo in-process; scheduling uses sys.settrace, fault injection uses ordinary user objects",
            "baseline_off_cmd": "cd /repo && /venv/bin/python -m pytest -ra -q -p no:cacheprovider --timeout=900 --continue-on-collection-errors",
            "source_commits": [],
            "add_only": True,
        },
        "engines": [
            {"name": "lean4+correspondence", "path": "lean/", "serves_properties": [c["property_id"] for c in checks],
             "kind_free_text": "Lean 4 model + theorems (lean/JaxVerif), facts regenerated from /repo by harness/extract.py, compiled line-protocol driver (lean/Driver) compared with the real jaxtyping by harness/cXX.py"},
        ],
        "checks": checks,
        "not_applicable": na,
        "notes": "bin/check <id> <tier>: extract facts from /repo -> lake build of the property's theorems + axiom audit -> correspondence and direct property evaluation -> exit 0 / VIOLATION / KNOWN-FINDING; exit 2 = infrastructure failure. See DESIGN.md.",
    }
    with open(os.path.join(verif, "MANIFEST.json"), "w") as fh:
        json.dump(m, fh, indent=1)
    return m


if __name__ == "__main__":
    m = manifest()
    print("checks:", [c["property_id"] for c in m["checks"]])
    print("not_applicable:", [c["property_id"] for c in m["not_applicable"]])
