/-
Lemmas for C10: the hook's AST pass only adds decorators and one import.
-/
import JaxVerif.Model.HookAst

namespace JV

/-! ### decidable equality of trees (`Node` is a nested inductive: no derive handler), so that
    the closed examples of Properties/C10.lean are decidable -/

mutual
def Node.decEq : (a b : Node) → Decidable (a = b)
  | .mk k1 l1 d1 c1, .mk k2 l2 d2 c2 =>
    if hk : k1 = k2 then
      if hl : l1 = l2 then
        match Node.decEqList d1 d2 with
        | isTrue hd =>
          match Node.decEqList c1 c2 with
          | isTrue hc => isTrue (by rw [hk, hl, hd, hc])
          | isFalse hc => isFalse (fun h => hc (by cases h; rfl))
        | isFalse hd => isFalse (fun h => hd (by cases h; rfl))
      else isFalse (fun h => hl (by cases h; rfl))
    else isFalse (fun h => hk (by cases h; rfl))
def Node.decEqList : (a b : List Node) → Decidable (a = b)
  | [], [] => isTrue rfl
  | [], _ :: _ => isFalse (fun h => by cases h)
  | _ :: _, [] => isFalse (fun h => by cases h)
  | a :: as, b :: bs =>
    match Node.decEq a b with
    | isTrue h1 =>
      match Node.decEqList as bs with
      | isTrue h2 => isTrue (by rw [h1, h2])
      | isFalse h2 => isFalse (fun h => h2 (by cases h; rfl))
    | isFalse h1 => isFalse (fun h => h1 (by cases h; rfl))
end
instance : DecidableEq Node := Node.decEq

/-! ### `erase ∘ transform = id` (no hypothesis needed) -/

theorem eraseList_append (l₁ l₂ : List Node) :
    eraseList (l₁ ++ l₂) = eraseList l₁ ++ eraseList l₂ := by
  induction l₁ with
  | nil => simp [eraseList]
  | cons a l ih => simp [eraseList, ih]

theorem erase_transform_mutual :
    (∀ t : Node, erase (transform t) = t) ∧ (∀ l : List Node, eraseList (transformList l) = l) := by
  apply transform.mutual_induct
  · intro l decos kids ihd ihk
    simp [transform, erase, eraseList_append, ihd, ihk, eraseList]
  · intro l decos kids ihd ihk
    simp [transform, erase, ihd, ihk, eraseList]
  · intro k l decos kids h1 h2 ihd ihk
    rw [transform.eq_3 k l decos kids h1 h2, erase.eq_3 k l _ _ h1 h2, ihd, ihk]
  · simp [transformList, eraseList]
  · intro n ns ih1 ih2
    simp [transformList, eraseList, ih1, ih2]

theorem erase_transform (t : Node) : erase (transform t) = t := erase_transform_mutual.1 t
theorem eraseList_transformList (l : List Node) : eraseList (transformList l) = l :=
  erase_transform_mutual.2 l

theorem eraseImport_insertImport (kids : List Node) : eraseImport (insertImport kids) = kids := by
  induction kids with
  | nil => simp [insertImport, eraseImport]
  | cons n ns ih =>
    by_cases hp : isPrologue n = true
    · simp [insertImport, eraseImport, hp, ih]
    · have hp' : isPrologue n = false := by simpa using hp
      simp only [insertImport, hp']
      rfl

theorem transform_kind (t : Node) : (transform t).kind = t.kind := by
  cases t with
  | mk k l d c =>
    by_cases h1 : k = .funcDef
    · subst h1; simp [transform, Node.kind]
    · by_cases h2 : k = .classDef
      · subst h2; simp [transform, Node.kind]
      · rw [transform.eq_3 k l d c h1 h2]; rfl

theorem eraseModule_of_not_module (k : NodeKind) (l : Loc) (d c : List Node) (h : k ≠ .module) :
    eraseModule (.mk k l d c) = erase (.mk k l d c) := by
  unfold eraseModule
  split
  · rename_i heq; cases heq; exact absurd rfl h
  · rfl

theorem transformModule_of_not_module (k : NodeKind) (l : Loc) (d c : List Node) (h : k ≠ .module) :
    transformModule (.mk k l d c) = transform (.mk k l d c) := by
  unfold transformModule
  split
  · rename_i heq; cases heq; exact absurd rfl h
  · rfl

theorem transformModule_module (l : Loc) (d c : List Node) :
    transformModule (.mk .module l d c) = .mk .module l (transformList d) (transformList (insertImport c)) := rfl

theorem eraseModule_module (l : Loc) (d c : List Node) :
    eraseModule (.mk .module l d c) = .mk .module l (eraseList d) (eraseImport (eraseList c)) := rfl

theorem erase_transformModule (t : Node) (_h : clean t = true) : eraseModule (transformModule t) = t := by
  cases t with
  | mk k l d c =>
    by_cases hk : k = .module
    · subst hk
      rw [transformModule_module, eraseModule_module, eraseList_transformList,
        eraseList_transformList, eraseImport_insertImport]
    · rw [transformModule_of_not_module k l d c hk]
      have hkind := transform_kind (.mk k l d c)
      generalize hT : transform (.mk k l d c) = T at hkind
      cases T with
      | mk k' l' d' c' =>
        have : k' = k := hkind
        subst this
        rw [eraseModule_of_not_module _ _ _ _ hk, ← hT, erase_transform]

/-! ### counting -/

theorem countKindList_append (p : NodeKind → Bool) (l₁ l₂ : List Node) :
    countKindList p (l₁ ++ l₂) = countKindList p l₁ + countKindList p l₂ := by
  induction l₁ with
  | nil => simp [countKindList]
  | cons a l ih => simp [countKindList, ih, Nat.add_assoc]

/-- a clean tree contains no node of a kind the hook adds -/
theorem count_clean_mutual (p : NodeKind → Bool)
    (hp : ∀ k, p k = true → k = .importJaxtyping ∨ k = .jaxtypedDecorator) :
    (∀ t : Node, clean t = true → countKind p t = 0) ∧
    (∀ l : List Node, cleanList l = true → countKindList p l = 0) := by
  apply clean.mutual_induct
  · intro k l decos kids ihd ihk h
    simp only [clean, Bool.and_eq_true] at h
    obtain ⟨⟨h1, h2⟩, h3⟩ := h
    have : p k = false := by
      cases hpk : p k with
      | false => rfl
      | true => rcases hp k hpk with rfl | rfl <;> simp at h1
    simp [countKind, this, ihd h2, ihk h3]
  · intro _; simp [countKindList]
  · intro n ns ih1 ih2 h
    simp only [cleanList, Bool.and_eq_true] at h
    simp [countKindList, ih1 h.1, ih2 h.2]

def isDeco : NodeKind → Bool := fun k => k == .jaxtypedDecorator
def isDef : NodeKind → Bool := fun k => k == .funcDef || k == .classDef
def isImp : NodeKind → Bool := fun k => k == .importJaxtyping

theorem count_transform_mutual :
    (∀ t : Node, countKind isDeco (transform t) = countKind isDeco t + countKind isDef t) ∧
    (∀ l : List Node, countKindList isDeco (transformList l) =
      countKindList isDeco l + countKindList isDef l) := by
  apply transform.mutual_induct
  · intro l decos kids ihd ihk
    simp [transform, countKind, countKindList_append, countKindList, ihd, ihk, decoNode, isDeco, isDef]
    omega
  · intro l decos kids ihd ihk
    simp [transform, countKind, countKindList, ihd, ihk, decoNode, isDeco, isDef]
    omega
  · intro k l decos kids h1 h2 ihd ihk
    rw [transform.eq_3 k l decos kids h1 h2]
    have : isDef k = false := by
      simp only [isDef, Bool.or_eq_false_iff, beq_eq_false_iff_ne, ne_eq]
      exact ⟨h1, h2⟩
    simp [countKind, ihd, ihk, this]
    omega
  · simp [transformList, countKindList]
  · intro n ns ih1 ih2
    simp [transformList, countKindList, ih1, ih2]
    omega

theorem countKindList_insertImport (p : NodeKind → Bool) (hp : p .importJaxtyping = false)
    (kids : List Node) : countKindList p (insertImport kids) = countKindList p kids := by
  induction kids with
  | nil => simp [insertImport]
  | cons n ns ih =>
    by_cases h : isPrologue n = true
    · simp [insertImport, h, countKindList, ih]
    · simp [insertImport, h, countKindList, importNode, countKind, hp]

theorem count_decorators (t : Node) (h : clean t = true) :
    countKind (fun k => k == .jaxtypedDecorator) (transformModule t) =
      countKind (fun k => k == .funcDef || k == .classDef) t := by
  show countKind isDeco (transformModule t) = countKind isDef t
  have hz := (count_clean_mutual isDeco (by intro k hk; right; simpa [isDeco] using hk)).1 t h
  cases t with
  | mk k l d c =>
    by_cases hk : k = .module
    · subst hk
      simp only [countKind] at hz
      rw [transformModule_module]
      simp only [countKind, count_transform_mutual.2,
        countKindList_insertImport isDeco (by decide), countKindList_insertImport isDef (by decide)]
      have h1 : isDeco .module = false := by decide
      have h2 : isDef .module = false := by decide
      simp [h1, h2] at hz ⊢
      omega
    · rw [transformModule_of_not_module k l d c hk, count_transform_mutual.1, hz, Nat.zero_add]

theorem count_import (_l : Loc) (_decos kids : List Node) (h : cleanList kids = true) :
    countKindList (fun k => k == .importJaxtyping) (insertImport kids) =
      if kids.all isPrologue then 0 else 1 := by
  show countKindList isImp (insertImport kids) = _
  have hz : ∀ l : List Node, cleanList l = true → countKindList isImp l = 0 :=
    (count_clean_mutual isImp (by intro k hk; left; simpa [isImp] using hk)).2
  induction kids with
  | nil => simp [insertImport, countKindList]
  | cons n ns ih =>
    have h' := h
    simp only [cleanList, Bool.and_eq_true] at h'
    by_cases hp : isPrologue n = true
    · have hn : countKind isImp n = 0 :=
        (count_clean_mutual isImp (by intro k hk; left; simpa [isImp] using hk)).1 n h'.1
      simp [insertImport, hp, countKindList, ih h'.2, hn]
    · have := hz (n :: ns) h
      simp only [countKindList] at this
      simp [insertImport, hp, countKindList, importNode, countKind, isImp]
      omega

/-! ### positions -/

theorem insertImport_position (kids : List Node) (hne : kids.all isPrologue = false) :
    ∃ pre post, kids = pre ++ post ∧ pre.all isPrologue = true ∧
      (∃ n rest, post = n :: rest ∧ isPrologue n = false) ∧
      insertImport kids = pre ++ importNode :: post := by
  induction kids with
  | nil => simp at hne
  | cons n ns ih =>
    by_cases hp : isPrologue n = true
    · have hns : ns.all isPrologue = false := by
        simpa [List.all_cons, hp] using hne
      obtain ⟨pre, post, h1, h2, h3, h4⟩ := ih hns
      refine ⟨n :: pre, post, by simp [h1], by simp [List.all_cons, hp, h2], h3, ?_⟩
      simp [insertImport, hp, h4]
    · refine ⟨[], n :: ns, rfl, rfl, ⟨n, ns, rfl, by simpa using hp⟩, ?_⟩
      simp [insertImport, hp]

theorem transform_positions (l : Loc) (decos kids : List Node) :
    transform (.mk .funcDef l decos kids) = .mk .funcDef l (transformList decos ++ [decoNode l]) (transformList kids) ∧
    transform (.mk .classDef l decos kids) = .mk .classDef l (decoNode l :: transformList decos) (transformList kids) ∧
    transform (.mk .asyncFuncDef l decos kids) = .mk .asyncFuncDef l (transformList decos) (transformList kids) := by
  simp [transform]

end JV
