/-
Lemmas for C09: structure names bind, compose, prefix and suffix; validation of structure strings.
Core Lean only.
-/
import JaxVerif.Spec.Trees
import JaxVerif.Lemmas.Rollback

namespace JV

/-! ### `Def.beq` decides equality -/

theorem Def.beq_iff (a b : Def) : Def.beq a b = true ↔ a = b :=
  ⟨Rollback.beq_eq a b, fun h => h ▸ Rollback.beq_refl a⟩

theorem Def.beq_false_of_ne {a b : Def} (h : a ≠ b) : Def.beq a b = false := by
  cases hb : Def.beq a b with
  | false => rfl
  | true => exact absurd ((Def.beq_iff a b).1 hb) h

/-! ### bind / compare -/

theorem structStep_ident (S : String) (d : Def) (pm : List (String × Def)) (h : isIdentStr S = true) :
    (pm.lookup S = none → structStep S d pm = .ok (pm ++ [(S, d)])) ∧
    (∀ prev, pm.lookup S = some prev →
        (prev = d → structStep S d pm = .ok pm) ∧ (prev ≠ d → structStep S d pm = .fail)) := by
  refine ⟨fun h0 => ?_, fun prev hp => ⟨fun he => ?_, fun hne => ?_⟩⟩
  · simp only [structStep, h, if_true, h0]
  · have hb : (prev == d) = true := (Def.beq_iff prev d).2 he
    simp only [structStep, h, if_true, hp, hb]
  · have hb : (prev == d) = false := Def.beq_false_of_ne hne
    simp only [structStep, h, if_true, hp, hb, Bool.false_eq_true, if_false]

/-! ### substitution -/

mutual
theorem subst_assoc (a b : Def) : ∀ c : Def, Def.subst a (Def.subst b c) = Def.subst (Def.subst a b) c
  | .leaf => by simp only [Def.subst]
  | .node k cs => by simp only [Def.subst, substList_assoc a b cs]
theorem substList_assoc (a b : Def) : ∀ cs : List Def,
    Def.substList a (Def.substList b cs) = Def.substList (Def.subst a b) cs
  | [] => by simp only [Def.substList]
  | c :: cs => by simp only [Def.substList, subst_assoc a b c, substList_assoc a b cs]
end

mutual
theorem subst_leaf : ∀ c : Def, Def.subst .leaf c = c
  | .leaf => by simp only [Def.subst]
  | .node k cs => by simp only [Def.subst, substList_leaf cs]
theorem substList_leaf : ∀ cs : List Def, Def.substList .leaf cs = cs
  | [] => by simp only [Def.substList]
  | c :: cs => by simp only [Def.substList, subst_leaf c, substList_leaf cs]
end

/-! ### compose -/

/-- with an arbitrary accumulator: the leaves of the accumulator are replaced by the right-nested
    composite of the remaining names -/
theorem composeNamed_acc (pm : List (String × Def)) : ∀ (names : List String) (defs : List Def) (acc : Def),
    names.map (fun n => pm.lookup n) = defs.map some →
    composeNamed pm names acc =
      .ok (Def.subst (defs.foldr (fun t acc => Def.subst acc t) .leaf) acc)
  | [], [], acc, _ => by simp only [composeNamed, List.foldr_nil, subst_leaf]
  | [], _ :: _, _, h => by simp at h
  | _ :: _, [], _, h => by simp at h
  | n :: ns, t :: ds, acc, h => by
    simp only [List.map_cons, List.cons.injEq] at h
    simp only [composeNamed, h.1, List.foldr_cons]
    rw [composeNamed_acc pm ns ds (Def.subst t acc) h.2, subst_assoc]

theorem composeNamed_nested (pm : List (String × Def)) (names : List String) (defs : List Def)
    (h : names.map (fun n => pm.lookup n) = defs.map some) :
    composeNamed pm names .leaf = .ok (defs.foldr (fun t acc => Def.subst acc t) .leaf) := by
  rw [composeNamed_acc pm names defs .leaf h]; simp only [Def.subst]

theorem composeNamed_two (pm : List (String × Def)) (s t : String) (S T : Def)
    (hs : pm.lookup s = some S) (ht : pm.lookup t = some T) :
    composeNamed pm [s, t] .leaf = .ok (Def.subst T S) := by
  simp only [composeNamed, hs, ht, Def.subst]

theorem composeNamed_unbound (pm : List (String × Def)) : ∀ (pre post : List String) (n : String) (acc : Def),
    (∀ p ∈ pre, (pm.lookup p).isSome) → pm.lookup n = none →
    composeNamed pm (pre ++ n :: post) acc = .annErr
  | [], post, n, acc, _, hn => by simp only [List.nil_append, composeNamed, hn]
  | p :: pre, post, n, acc, hpre, hn => by
    have hp : (pm.lookup p).isSome := hpre p (List.mem_cons_self ..)
    cases hl : pm.lookup p with
    | none => rw [hl] at hp; simp at hp
    | some t =>
      simp only [List.cons_append, composeNamed, hl]
      exact composeNamed_unbound pm pre post n (Def.subst t acc)
        (fun q hq => hpre q (List.mem_cons_of_mem _ hq)) hn

/-! ### prefix -/

mutual
theorem graft_of_isPrefix : ∀ (t d : Def), Def.isPrefix t d = true →
    ∃ fs, ∀ rest, Def.graft t (fs ++ rest) = some (d, rest)
  | .leaf, d, _ => ⟨[d], fun rest => by simp only [List.cons_append, List.nil_append, Def.graft]⟩
  | .node _ _, .leaf, h => by simp [Def.isPrefix] at h
  | .node k cs, .node k' cs', h => by
    simp only [Def.isPrefix, Bool.and_eq_true, beq_iff_eq] at h
    obtain ⟨fs, hfs⟩ := graftList_of_isPrefixList cs cs' h.2
    exact ⟨fs, fun rest => by simp only [Def.graft, hfs rest, h.1]⟩
theorem graftList_of_isPrefixList : ∀ (cs ds : List Def), Def.isPrefixList cs ds = true →
    ∃ fs, ∀ rest, Def.graftList cs (fs ++ rest) = some (ds, rest)
  | [], [], _ => ⟨[], fun rest => by simp only [List.nil_append, Def.graftList]⟩
  | [], _ :: _, h => by simp [Def.isPrefixList] at h
  | _ :: _, [], h => by simp [Def.isPrefixList] at h
  | c :: cs, d :: ds, h => by
    simp only [Def.isPrefixList, Bool.and_eq_true] at h
    obtain ⟨f1, h1⟩ := graft_of_isPrefix c d h.1
    obtain ⟨f2, h2⟩ := graftList_of_isPrefixList cs ds h.2
    exact ⟨f1 ++ f2, fun rest => by simp only [Def.graftList, List.append_assoc, h1, h2]⟩
end

mutual
theorem isPrefix_of_graft : ∀ (t d : Def) (fs rest : List Def),
    Def.graft t fs = some (d, rest) → Def.isPrefix t d = true
  | .leaf, _, _, _, _ => by simp only [Def.isPrefix]
  | .node k cs, d, fs, rest, h => by
    simp only [Def.graft] at h
    cases hg : Def.graftList cs fs with
    | none => simp [hg] at h
    | some p =>
      obtain ⟨cs', r⟩ := p
      simp only [hg, Option.some.injEq, Prod.mk.injEq] at h
      obtain ⟨rfl, rfl⟩ := h
      simp only [Def.isPrefix, beq_self_eq_true, Bool.true_and]
      exact isPrefixList_of_graftList cs cs' fs r hg
theorem isPrefixList_of_graftList : ∀ (cs ds : List Def) (fs rest : List Def),
    Def.graftList cs fs = some (ds, rest) → Def.isPrefixList cs ds = true
  | [], ds, fs, rest, h => by
    simp only [Def.graftList, Option.some.injEq, Prod.mk.injEq] at h
    obtain ⟨rfl, _⟩ := h
    simp only [Def.isPrefixList]
  | c :: cs, ds, fs, rest, h => by
    simp only [Def.graftList] at h
    cases hg : Def.graft c fs with
    | none => simp [hg] at h
    | some p =>
      obtain ⟨c', r⟩ := p
      simp only [hg] at h
      cases hg2 : Def.graftList cs r with
      | none => simp [hg2] at h
      | some q =>
        obtain ⟨cs', r'⟩ := q
        simp only [hg2, Option.some.injEq, Prod.mk.injEq] at h
        obtain ⟨rfl, rfl⟩ := h
        simp only [Def.isPrefixList, isPrefix_of_graft c c' fs r hg,
          isPrefixList_of_graftList cs cs' r r' hg2, Bool.and_self]
end

theorem isPrefix_iff_graft (t d : Def) :
    Def.isPrefix t d = true ↔ ∃ fs, Def.graft t fs = some (d, []) := by
  constructor
  · intro h
    obtain ⟨fs, hfs⟩ := graft_of_isPrefix t d h
    exact ⟨fs, by simpa using hfs []⟩
  · rintro ⟨fs, h⟩
    exact isPrefix_of_graft t d fs [] h

/-! ### suffix -/

theorem isSuffix_self (t : Def) : Def.isSuffix t t = true := by
  cases t with
  | leaf => simp only [Def.isSuffix, Def.beq]
  | node k cs => simp only [Def.isSuffix, Rollback.beq_refl, Bool.true_or]

mutual
theorem isSuffix_subst (t : Def) : ∀ u : Def, Def.isSuffix t (Def.subst t u) = true
  | .leaf => by simp only [Def.subst, isSuffix_self]
  | .node k us => by simp only [Def.subst, Def.isSuffix, isSuffixList_substList t us, Bool.or_true]
theorem isSuffixList_substList (t : Def) : ∀ us : List Def,
    Def.isSuffixList t (Def.substList t us) = true
  | [] => by simp only [Def.substList, Def.isSuffixList]
  | u :: us => by
    simp only [Def.substList, Def.isSuffixList, isSuffix_subst t u, isSuffixList_substList t us,
      Bool.and_self]
end

mutual
theorem subst_of_isSuffix (t : Def) : ∀ d : Def, Def.isSuffix t d = true → ∃ u, d = Def.subst t u
  | .leaf, h => by
    simp only [Def.isSuffix] at h
    exact ⟨.leaf, by simp only [Def.subst]; exact Rollback.beq_eq _ _ h⟩
  | .node k cs, h => by
    simp only [Def.isSuffix, Bool.or_eq_true] at h
    rcases h with h | h
    · exact ⟨.leaf, by simp only [Def.subst]; exact Rollback.beq_eq _ _ h⟩
    · obtain ⟨us, hus⟩ := substList_of_isSuffixList t cs h
      exact ⟨.node k us, by simp only [Def.subst, hus]⟩
theorem substList_of_isSuffixList (t : Def) : ∀ cs : List Def, Def.isSuffixList t cs = true →
    ∃ us, cs = Def.substList t us
  | [], _ => ⟨[], by simp only [Def.substList]⟩
  | c :: cs, h => by
    simp only [Def.isSuffixList, Bool.and_eq_true] at h
    obtain ⟨u, hu⟩ := subst_of_isSuffix t c h.1
    obtain ⟨us, hus⟩ := substList_of_isSuffixList t cs h.2
    exact ⟨u :: us, by simp only [Def.substList, ← hu, ← hus]⟩
end

theorem isSuffix_iff_subst (t d : Def) :
    Def.isSuffix t d = true ↔ ∃ u, d = Def.subst t u :=
  ⟨subst_of_isSuffix t d, fun ⟨u, hu⟩ => hu ▸ isSuffix_subst t u⟩

/-! ### validation of structure strings -/

theorem pieceOk_false_iff (i n : Nat) (p : List Char) :
    ((((i == 0 || i == n - 1) && p == ellipsisTok) || isIdentifier p) = false) ↔
      (isIdentifier p = false ∧ ¬ ((i = 0 ∨ i = n - 1) ∧ p = ellipsisTok)) := by
  cases isIdentifier p <;> simp

theorem piecesOk_false_iff : ∀ (ps : List (List Char)) (k n : Nat),
    piecesOk ps k n = false ↔
      ∃ i p, ps[i]? = some p ∧ isIdentifier p = false ∧
        ¬ ((k + i = 0 ∨ k + i = n - 1) ∧ p = ellipsisTok)
  | [], k, n => by simp [piecesOk]
  | q :: ps, k, n => by
    have ih := piecesOk_false_iff ps (k + 1) n
    simp only [piecesOk, Bool.and_eq_false_iff, pieceOk_false_iff, ih]
    constructor
    · rintro (⟨h1, h2⟩ | ⟨i, p, hp, h1, h2⟩)
      · exact ⟨0, q, by simp, h1, by simpa using h2⟩
      · refine ⟨i + 1, p, by simpa using hp, h1, ?_⟩
        rw [show k + (i + 1) = k + 1 + i by omega]; exact h2
    · rintro ⟨i, p, hp, h1, h2⟩
      cases i with
      | zero =>
        simp only [List.getElem?_cons_zero, Option.some.injEq] at hp
        subst hp
        exact Or.inl ⟨h1, by simpa using h2⟩
      | succ i =>
        refine Or.inr ⟨i, p, by simpa using hp, h1, ?_⟩
        rw [show k + 1 + i = k + (i + 1) by omega]; exact h2

theorem validStruct_false_iff (s : List Char) :
    validStruct s = false ↔
      (splitWs s = [] ∨
       ∃ i p, (splitWs s)[i]? = some p ∧ isIdentifier p = false ∧
         ¬ ((i = 0 ∨ i = (splitWs s).length - 1) ∧ p = ellipsisTok)) := by
  have h := piecesOk_false_iff (splitWs s) 0 (splitWs s).length
  simp only [Nat.zero_add] at h
  simp only [validStruct, Bool.and_eq_false_iff, Bool.not_eq_false', List.isEmpty_iff, h]

theorem piecesOk_append : ∀ (as bs : List (List Char)) (k n : Nat),
    piecesOk (as ++ bs) k n = (piecesOk as k n && piecesOk bs (k + as.length) n)
  | [], bs, k, n => by simp only [List.nil_append, piecesOk, List.length_nil, Nat.add_zero, Bool.true_and]
  | a :: as, bs, k, n => by
    simp only [List.cons_append, piecesOk, piecesOk_append as bs (k + 1) n, List.length_cons,
      Bool.and_assoc]
    rw [show k + 1 + as.length = k + (as.length + 1) by omega]

theorem piecesOk_idents : ∀ (ids : List (List Char)) (k n : Nat),
    (∀ p ∈ ids, isIdentifier p = true) → piecesOk ids k n = true
  | [], _, _, _ => by simp only [piecesOk]
  | p :: ids, k, n, h => by
    simp only [piecesOk, h p (List.mem_cons_self ..), Bool.or_true, Bool.true_and]
    exact piecesOk_idents ids (k + 1) n (fun q hq => h q (List.mem_cons_of_mem _ hq))

theorem piecesOk_ellipsis (k n : Nat) (h : k = 0 ∨ k = n - 1) :
    piecesOk [ellipsisTok] k n = true := by
  have : (k == 0 || k == n - 1) = true := by
    rcases h with h | h
    · simp [h]
    · simp [← h]
  simp only [piecesOk, this, beq_self_eq_true, Bool.and_self, Bool.true_or]

theorem piecesOk_forms (ids : List (List Char)) (hne : ids ≠ []) (hid : ∀ p ∈ ids, isIdentifier p = true)
    (lead trail : Bool) :
    piecesOk ((if lead then [ellipsisTok] else []) ++ ids ++ (if trail then [ellipsisTok] else [])) 0
      (((if lead then [ellipsisTok] else []) ++ ids ++ (if trail then [ellipsisTok] else [])).length) = true := by
  have _ := hne
  cases lead <;> cases trail <;>
    simp only [Bool.false_eq_true, if_false, if_true, List.nil_append, List.append_nil,
      piecesOk_append, piecesOk_idents ids _ _ hid, Bool.and_true, Bool.true_and] <;>
    apply piecesOk_ellipsis <;> simp only [List.length_append, List.length_cons, List.length_nil] <;>
    first | omega | exact Or.inl trivial

end JV
