"""(T1, translation) `_MetaPyTree.__instancecheck__` and `_MetaPyTree._check` (jaxtyping/_pytree_type.py) are translated
statement by statement into the language of lean/JaxVerif/Model/TreeDsl.lean (`Generated/TreeCode.lean`).
JaxVerif/Source/Trees.lean then proves, on every run, that running the translated code is `pytreeInstancecheck` of the
hand-written model for every value, leaf check, structure string and thread state. The block that binds / compares /
composes structure names is one primitive (`structBlock`), `jax.tree_util.tree_flatten` with the leaf predicate another
(`flatten`). Anything not recognised becomes `.unknown` (a crash in the interpreter): the proof fails rather than
silently passing."""
from __future__ import annotations

import ast
import os

from common import GEN, REPO, write_if_changed

STORAGE_CALLS = {"set_treepath_memo", "clear_treepath_memo", "set_treeflatten_memo", "clear_treeflatten_memo", "get_treeflatten_memo",
                 "set_shape_memo", "get_shape_memo", "push_shape_memo", "pop_shape_memo", "is_check_leaftype", "is_flatten_leaftype",
                 "tree_flatten", "_check"}


def _u(n):
    try:
        return ast.unparse(n)
    except Exception:  # noqa: BLE001
        return "?"


def _callee(c):
    f = c.func
    return f.id if isinstance(f, ast.Name) else f.attr if isinstance(f, ast.Attribute) else "?"


def _strip(stmts):
    return [s for s in stmts if not isinstance(s, ast.Assert) and not (isinstance(s, ast.Expr) and isinstance(s.value, ast.Constant))
            and not isinstance(s, (ast.Import, ast.ImportFrom, ast.Pass))]


class TreeTranslator:
    def __init__(self, tree):
        self.tree = tree
        self.notes = []
        self.helpers = {n.name: n for n in tree.body if isinstance(n, ast.FunctionDef)}
        self.copy_of, self.tuple_of, self.whole, self.unpacked = {}, {}, set(), []
        self.alias = {}
        self.out_var = None
        self.was_var = None
        self.loops = []          # (guard, body term)
        self.guard = None        # None / True (inside `structure is not None`) / False
        self.flattened = False
        self.leaves_var = self.leaf_var = self.index_var = None

    # ---- conditions
    def cond(self, t):
        if isinstance(t, ast.UnaryOp) and isinstance(t.op, ast.Not):
            inner = self.cond(t.operand)
            return ".unknown" if inner == ".unknown" else f"(.not {inner})"
        src = _u(t)
        if src == "hasattr(cls, 'leaftype')":
            return "(.not .bare)"
        if src == "obj is None":
            return ".objNone"
        if src == "obj is not None":
            return "(.not .objNone)"
        if self.out_var and src == self.out_var:
            return ".out"
        if src == "cls.leaftype is Any":
            return ".leafAny"
        if src == "cls.leaftype is not Any":
            return "(.not .leafAny)"
        if src == "cls.structure is not None":
            return ".hasStructure"
        if src == "cls.structure is None":
            return "(.not .hasStructure)"
        if self.was_var and src == self.was_var:
            return ".wasFlattening"
        self.notes.append("condition: " + src[:100])
        return ".unknown"

    @staticmethod
    def _norm(c):
        while c.startswith("(.not (.not ") and c.endswith("))"):
            c = c[len("(.not (.not "):-2]
        return c

    # ---- snapshot / restore
    @staticmethod
    def _copied(node):
        if isinstance(node, ast.Call) and isinstance(node.func, ast.Attribute) and node.func.attr == "copy" and not node.args and not node.keywords:
            return _u(node.func.value)
        return None

    def _snapshot_stmt(self, st):
        """part of the snapshot group: `a, b, c, d = get_shape_memo()`, `memos = get_shape_memo()`, `x_bak = x.copy()`,
        `baks = (a.copy(), ...)`, `baks = tuple(m.copy() for m in memos)`"""
        if not (isinstance(st, ast.Assign) and len(st.targets) == 1):
            return False
        t, v = st.targets[0], st.value
        if isinstance(v, ast.Call) and _callee(v) == "get_shape_memo" and not v.args:
            if isinstance(t, ast.Tuple) and len(t.elts) == 4 and all(isinstance(e, ast.Name) for e in t.elts):
                self.unpacked = [e.id for e in t.elts]
                return True
            if isinstance(t, ast.Name):
                self.whole.add(t.id)
                return True
            return False
        if isinstance(t, ast.Tuple) and len(t.elts) == 4 and all(isinstance(e, ast.Name) for e in t.elts) and isinstance(v, ast.Name) and v.id in self.whole:
            self.unpacked = [e.id for e in t.elts]
            return True
        if isinstance(t, ast.Name) and isinstance(v, ast.Subscript) and isinstance(v.value, ast.Name) and v.value.id in self.whole \
                and isinstance(v.slice, ast.Constant) and v.slice.value in (0, 1, 2, 3):
            self.alias[t.id] = v.slice.value       # `pytree_memo = memos[2]`
            return True
        if isinstance(t, ast.Name):
            c = self._copied(v)
            if c is not None and (c in self.unpacked or any(c == f"{w}[{i}]" for w in self.whole for i in range(4))):
                self.copy_of[t.id] = c
                return True
            if isinstance(v, ast.Tuple) and len(v.elts) == 4 and all(self._copied(e) is not None for e in v.elts):
                self.tuple_of[t.id] = [self._copied(e) for e in v.elts]
                return True
            if isinstance(v, ast.Call) and _callee(v) == "tuple" and len(v.args) == 1 and isinstance(v.args[0], (ast.GeneratorExp, ast.ListComp)):
                g = v.args[0]
                if len(g.generators) == 1 and not g.generators[0].ifs and isinstance(g.generators[0].target, ast.Name) \
                        and self._copied(g.elt) == g.generators[0].target.id:
                    it = g.generators[0].iter
                    if (isinstance(it, ast.Name) and it.id in self.whole) or (isinstance(it, ast.Tuple) and [_u(e) for e in it.elts] == self.unpacked and len(self.unpacked) == 4):
                        self.tuple_of[t.id] = ["memo0", "memo1", "memo2", "memo3"]
                        return True
        return False

    def _snapshot_complete(self):
        return len(set(self.copy_of.values())) == 4 or any(len(set(v)) == 4 for v in self.tuple_of.values())

    def _is_restore(self, call):
        if _callee(call) != "set_shape_memo" or call.keywords:
            return False
        if len(call.args) == 1 and isinstance(call.args[0], ast.Starred) and isinstance(call.args[0].value, ast.Name):
            srcs = self.tuple_of.get(call.args[0].value.id, [])
            # each copy goes back into the slot it was read from (all four are dicts: a swap is silent)
            in_order = srcs == ["memo0", "memo1", "memo2", "memo3"] or (len(self.unpacked) == 4 and srcs == self.unpacked) \
                or any(srcs == [f"{w}[{i}]" for i in range(4)] for w in self.whole)
            return len(set(srcs)) == 4 and in_order
        if len(call.args) == 4 and all(isinstance(a, ast.Name) and a.id in self.copy_of for a in call.args):
            srcs = [self.copy_of[a.id] for a in call.args]
            # in the order single, variadic, pytree, arguments
            want = self.unpacked if self.unpacked else None
            return len(set(srcs)) == 4 and (want is None or srcs == want)
        return False

    def _pytree_memo_expr(self, e):
        src = _u(e)
        return (len(self.unpacked) == 4 and src == self.unpacked[2]) or any(src == f"{w}[2]" for w in self.whole) or self.alias.get(src) == 2

    # ---- leaf predicates
    def _const_fn(self, fn, value):
        body = _strip(fn.body)
        return len(body) == 1 and isinstance(body[0], ast.Return) and isinstance(body[0].value, ast.Constant) and body[0].value.value is value and len(fn.args.args) == 1

    def _pred_block(self, stmts, any_branch):
        """do these statements define `is_flatten_leaftype` / `is_check_leaftype` the way this branch must?"""
        stmts = _strip(stmts)
        defs = {s.name: s for s in stmts if isinstance(s, ast.FunctionDef)}
        assigns = {}
        for s in stmts:
            if isinstance(s, ast.Assign) and all(isinstance(t, ast.Name) for t in s.targets) and isinstance(s.value, ast.Name):
                for t in s.targets:
                    assigns[t.id] = s.value.id
        if not all(isinstance(s, (ast.FunctionDef, ast.Assign)) for s in stmts):
            return False

        def resolve(name):
            seen = set()
            while name in assigns and name not in seen:
                seen.add(name)
                name = assigns[name]
            return defs.get(name) or self.helpers.get(name)

        fl, ck = resolve("is_flatten_leaftype"), resolve("is_check_leaftype")
        if fl is None or ck is None:
            return False
        if any_branch:
            return self._const_fn(fl, False) and self._const_fn(ck, True)
        if fl is not ck:
            return False
        # `accepts_leaftype` typechecked against cls.leaftype; the predicate turns its TypeError into False
        acc = [d for d in defs.values() if d.decorator_list and _u(d.decorator_list[0]) in ("typechecked", "_typeguard.typechecked")
               and len(d.args.args) == 1 and d.args.args[0].annotation is not None and _u(d.args.args[0].annotation) == "cls.leaftype"
               and all(isinstance(b, ast.Pass) or (isinstance(b, ast.Expr) and isinstance(b.value, ast.Constant)) for b in d.body)]
        if len(acc) != 1:
            return False
        body = _strip(fl.body)
        if not body or not isinstance(body[0], ast.Try) or len(fl.args.args) != 1:
            return False
        tr = body[0]
        arg = fl.args.args[0].arg
        ok_body = len(tr.body) == 1 and isinstance(tr.body[0], ast.Expr) and _u(tr.body[0].value) == f"{acc[0].name}({arg})"
        ok_handlers = len(tr.handlers) == 1 and tr.handlers[0].type is not None and _u(tr.handlers[0].type) == "TypeError" \
            and len(tr.handlers[0].body) == 1 and isinstance(tr.handlers[0].body[0], ast.Return) and _u(tr.handlers[0].body[0].value) == "False"
        rest = list(tr.orelse) + body[1:]
        ok_true = len(rest) == 1 and isinstance(rest[0], ast.Return) and _u(rest[0].value) == "True" and not tr.finalbody
        return ok_body and ok_handlers and ok_true

    # ---- statements
    def seq(self, stmts):
        stmts = _strip(stmts)
        out = []
        i = 0
        guard0 = self.guard
        while i < len(stmts):
            st = stmts[i]
            # the snapshot group
            if isinstance(st, ast.Assign) and isinstance(st.value, ast.Call) and _callee(st.value) == "get_shape_memo":
                j = i
                while j < len(stmts) and self._snapshot_stmt(stmts[j]):
                    j += 1
                if j > i and self._snapshot_complete():
                    out.append(".snapshot")
                    i = j
                    continue
                self.notes.append("snapshot group not recognised")
                out.append(".unknown")
                i = max(j, i + 1)
                continue
            out.append(self.stmt(st))
            # `if cls.structure is None: ...; return ...` with no else: what follows runs only with a structure name
            if isinstance(st, ast.If) and not st.orelse and st.body and isinstance(_strip(st.body)[-1], (ast.Return, ast.Raise)):
                c = self._norm(self.cond(st.test)) if "cls.structure" in _u(st.test) else None
                if c == "(.not .hasStructure)":
                    self.guard = True
                elif c == ".hasStructure":
                    self.guard = False
            i += 1
        self.guard = guard0
        if not out:
            return ".skip"
        r = out[-1]
        for x in reversed(out[:-1]):
            r = f"(.seq {x} {r})"
        return r

    def _no_storage(self, stmts):
        for s in stmts:
            for c in ast.walk(s):
                if isinstance(c, ast.Call) and _callee(c) in STORAGE_CALLS:
                    return False
                if isinstance(c, ast.Name) and isinstance(c.ctx, ast.Store) and c.id in (self.leaves_var, "leaves"):
                    return False
        return True

    def stmt(self, st):
        if isinstance(st, ast.Return):
            if isinstance(st.value, ast.Constant) and st.value.value is True:
                return "(.ret true)"
            if isinstance(st.value, ast.Constant) and st.value.value is False:
                return "(.ret false)"
            self.notes.append("return: " + _u(st)[:80])
            return ".unknown"
        if isinstance(st, ast.Raise) and st.exc is None:
            return ".reraise"
        if isinstance(st, ast.Expr) and isinstance(st.value, ast.Call):
            c = st.value
            if self._is_restore(c):
                return ".restore"
            src = _u(c)
            if src == "set_treeflatten_memo()":
                return ".setFlatten"
            if src == "clear_treeflatten_memo()":
                return ".clearFlatten"
            if src == "clear_treepath_memo()":
                return ".clearTreepath"
            if self.index_var and src == f"set_treepath_memo({self.index_var}, cls.structure)":
                return ".setTreepath"
        if isinstance(st, ast.Assign) and len(st.targets) == 1:
            t, v = st.targets[0], st.value
            if isinstance(t, ast.Name) and isinstance(v, ast.Call) and _u(v.func) == "cls._check" and len(v.args) == 2 and _u(v.args[0]) == "obj" \
                    and self._pytree_memo_expr(v.args[1]) and not v.keywords:
                self.out_var = t.id
                return ".callCheck"
            if isinstance(t, ast.Name) and _u(v) == "get_treeflatten_memo()":
                self.was_var = t.id
                return ".saveWas"
            if isinstance(t, ast.Tuple) and len(t.elts) == 2 and all(isinstance(e, ast.Name) for e in t.elts) and isinstance(v, ast.Call) \
                    and _u(v.func) in ("jtu.tree_flatten", "jax.tree_util.tree_flatten", "tree_flatten") and len(v.args) == 1 and _u(v.args[0]) == "obj" \
                    and len(v.keywords) == 1 and v.keywords[0].arg == "is_leaf" and _u(v.keywords[0].value) == "is_flatten_leaftype":
                self.leaves_var = t.elts[0].id
                self.flattened = True
                return ".flatten"
        if isinstance(st, ast.If):
            # the two definitions of the leaf predicates
            c = self._norm(self.cond(st.test)) if any(isinstance(n, ast.FunctionDef) for n in st.body + st.orelse) or "cls.leaftype" in _u(st.test) else None
            if c in (".leafAny", "(.not .leafAny)") and st.orelse:
                a, b = (st.body, st.orelse) if c == ".leafAny" else (st.orelse, st.body)
                if self._pred_block(a, True) and self._pred_block(b, False):
                    return "(.ite .leafAny (.pickLeafPred true) (.pickLeafPred false))"
                self.notes.append("leaf predicate definitions not recognised")
                return ".unknown"
            # `if not is_check_leaftype(leaf): ...`
            t = st.test
            if isinstance(t, ast.UnaryOp) and isinstance(t.op, ast.Not) and isinstance(t.operand, ast.Call) and self.leaf_var \
                    and _u(t.operand) == f"is_check_leaftype({self.leaf_var})" and not st.orelse:
                return f"(.leafTest {self.seq(st.body)})"
            c = self._norm(self.cond(st.test))
            # the structure block: the first `if cls.structure is not None:` after flattening whose body touches no storage
            if c == ".hasStructure" and self.flattened and not st.orelse and ("pytree_memo" in _u(st) or "if not cls._" in _u(st)) and not self.loops:
                body = _strip(st.body)
                # the block must look the structure memo up AGAIN (flattening may have rolled the context back, which swaps
                # fresh dictionaries in): `_, _, pytree_memo, _ = get_shape_memo()` first, no other storage call after it
                first = body[0] if body else None
                reread = isinstance(first, ast.Assign) and len(first.targets) == 1 and isinstance(first.targets[0], ast.Tuple) and len(first.targets[0].elts) == 4 \
                    and _u(first.targets[0].elts[2]) == "pytree_memo" and _u(first.value) == "get_shape_memo()"
                if reread and self._no_storage(body[1:]):
                    return "(.ite .hasStructure .structBlock .skip)"
                # ... or the block lives in a method of the class: `if not cls.<m>(leaves, structure): return False`, the method
                # re-reading the memo first and touching no other storage (the block stays one primitive, validated by C09)
                if len(body) == 1 and isinstance(body[0], ast.If) and not body[0].orelse and isinstance(body[0].test, ast.UnaryOp) and isinstance(body[0].test.op, ast.Not) \
                        and isinstance(body[0].test.operand, ast.Call) and isinstance(body[0].test.operand.func, ast.Attribute) and _u(body[0].test.operand.func.value) == "cls" \
                        and [_u(x) for x in body[0].body] == ["return False"] and getattr(self, "cls_node", None) is not None:
                    m = next((f for f in self.cls_node.body if isinstance(f, ast.FunctionDef) and f.name == body[0].test.operand.func.attr), None)
                    mb = _strip(m.body) if m is not None else []
                    f0 = mb[0] if mb else None
                    m_reread = isinstance(f0, ast.Assign) and len(f0.targets) == 1 and isinstance(f0.targets[0], ast.Tuple) and len(f0.targets[0].elts) == 4 \
                        and _u(f0.targets[0].elts[2]) == "pytree_memo" and _u(f0.value) == "get_shape_memo()"
                    if m_reread and self._no_storage(mb[1:]) and not m.decorator_list:
                        return "(.ite .hasStructure .structBlock .skip)"
                if self._no_storage(body):
                    self.notes.append("the structure block uses the memo it was handed before flattening (stale after a rollback while flattening)")
                    return "(.ite .hasStructure .unknown .skip)"
            old = self.guard
            if c == ".hasStructure":
                self.guard = True
                a = self.seq(st.body)
                self.guard = False
                b = self.seq(st.orelse)
            elif c == "(.not .hasStructure)":
                self.guard = False
                a = self.seq(st.body)
                self.guard = True
                b = self.seq(st.orelse)
            else:
                a, b = self.seq(st.body), self.seq(st.orelse)
            self.guard = old
            return f"(.ite {c} {a} {b})"
        if isinstance(st, ast.Try):
            if st.orelse:
                self.notes.append("try/else")
                return ".unknown"
            inner = self.seq(st.body)
            if st.handlers:
                hs = ".endHandlers"
                chain = []
                for h in st.handlers:
                    cls = "baseException" if h.type is None else {"BaseException": "baseException", "Exception": "exception", "TypeError": "typeError"}.get(_u(h.type))
                    if cls is None:
                        self.notes.append("except " + _u(h.type)[:60])
                        return ".unknown"
                    chain.append((cls, self.seq(h.body)))
                for cls, body in reversed(chain):
                    hs = f"(.handler .{cls} {body} {hs})"
                inner = f"(.tryExcept {inner} {hs})"
            if st.finalbody:
                inner = f"(.tryFinally {inner} {self.seq(st.finalbody)})"
            return inner
        if isinstance(st, ast.For) and not st.orelse:
            it, tg = st.iter, st.target
            ok = False
            if isinstance(it, ast.Call) and _callee(it) == "enumerate" and len(it.args) == 1 and self.leaves_var and _u(it.args[0]) == self.leaves_var \
                    and isinstance(tg, ast.Tuple) and len(tg.elts) == 2 and all(isinstance(e, ast.Name) for e in tg.elts):
                self.index_var, self.leaf_var = tg.elts[0].id, tg.elts[1].id
                ok = True
            elif isinstance(it, ast.Name) and self.leaves_var and it.id == self.leaves_var and isinstance(tg, ast.Name):
                self.index_var, self.leaf_var = None, tg.id
                ok = True
            if ok and len(self.loops) < 2:
                body = self.seq(st.body)
                self.loops.append((self.guard, body))
                self.index_var = self.leaf_var = None
                return f"(.forLeaves checkLoopBody{'' if len(self.loops) == 1 else '2'})"
        self.notes.append("statement: " + _u(st)[:100].replace("\n", " "))
        return ".unknown"


def _method(tree, cls_name, name):
    for node in tree.body:
        if isinstance(node, ast.ClassDef) and node.name == cls_name:
            for m in node.body:
                if isinstance(m, ast.FunctionDef) and m.name == name:
                    return node, m
    return None, None


def run():
    from inline import inline_helpers

    with open(os.path.join(REPO, "jaxtyping", "_pytree_type.py")) as fh:
        tree = ast.parse(fh.read())
    notes = []
    cls, ic = _method(tree, "_MetaPyTree", "__instancecheck__")
    _, ck = _method(tree, "_MetaPyTree", "_check")
    icode = ccode = ".unknown"
    loops = []
    if ic is not None and [a.arg for a in ic.args.args] == ["cls", "obj"] and not ic.decorator_list:
        t = TreeTranslator(tree)
        icode = t.seq(inline_helpers(ic, tree, cls, exclude=("_check",)).body)
        notes += t.notes
    else:
        notes.append("__instancecheck__ not found / unexpected parameters")
    if ck is not None and [a.arg for a in ck.args.args] == ["cls", "obj", "pytree_memo"] and not ck.decorator_list:
        t = TreeTranslator(tree)
        t.cls_node = cls
        ccode = t.seq(inline_helpers(ck, tree, cls).body)
        loops = t.loops
        notes += t.notes
    else:
        notes.append("_check not found / unexpected parameters")
    if not loops:
        loops = [(None, ".unknown")]
    if len(loops) == 1:
        loops = loops * 2

    def g(x):
        return "none" if x is None else ("some true" if x else "some false")

    note = ("(" + "; ".join(notes)[:400].replace("-/", "- /") + ")") if notes else ""
    txt = f"""/- GENERATED by harness/translate_tree.py from {REPO}/jaxtyping/_pytree_type.py on every run. Do not edit. -/
import JaxVerif.Model.TreeDsl

namespace JV.Generated

/-- `_MetaPyTree.__instancecheck__(cls, obj)` {note} -/
def instancecheckCode : TStmt :=
  {icode}

/-- the body of the leaf loop(s) of `_check`, and where each is used (`none` = for every annotation, `some true` = only
    under `cls.structure is not None`, `some false` = only under `cls.structure is None`); one loop is listed twice -/
def checkLoopBody : TStmt :=
  {loops[0][1]}
def checkLoopGuard : Option Bool := {g(loops[0][0])}
def checkLoopBody2 : TStmt :=
  {loops[1][1]}
def checkLoopGuard2 : Option Bool := {g(loops[1][0])}

/-- `_MetaPyTree._check(cls, obj, pytree_memo)` -/
def checkCode : TStmt :=
  {ccode}

end JV.Generated
"""
    write_if_changed(os.path.join(GEN, "TreeCode.lean"), txt)
    return {"tree_notes": notes, "instancecheck": icode, "check": ccode, "loops": loops}


if __name__ == "__main__":
    import json

    print(json.dumps(run(), indent=1))
