"""(T1, translation) The binding-stack functions of jaxtyping/_storage.py — `get_shape_memo`, `set_shape_memo`,
`push_shape_memo`, `pop_shape_memo` and the zero-argument helpers they call (`_has_shape_memo`, ...) — are translated
statement by statement into the language of lean/JaxVerif/Model/StorageDsl.lean (`Generated/StorageCode.lean`);
Source/Storage.lean proves on every run that they are the model's stack operations for every content of the thread's
cell. Anything not recognised becomes `.unknown` (a crash in the interpreter)."""
from __future__ import annotations

import ast
import os

from common import GEN, REPO, write_if_changed

CELL = "_shape_storage"
ATTR = "memo_stack"


def _u(n):
    try:
        return ast.unparse(n)
    except Exception:  # noqa: BLE001
        return "?"


def _strip(stmts):
    return [s for s in stmts if not (isinstance(s, ast.Expr) and isinstance(s.value, ast.Constant)) and not isinstance(s, ast.Pass)]


def _is_cell_attr(e):
    return isinstance(e, ast.Attribute) and e.attr == ATTR and isinstance(e.value, ast.Name) and e.value.id == CELL


class FnTranslator:
    def __init__(self, fn, helper_index, notes):
        self.fn = fn
        self.helpers = helper_index          # name -> index in `storageFuns`
        self.notes = notes
        self.locals = {}
        self.params = [a.arg for a in fn.args.args]

    def loc(self, name):
        return self.locals.setdefault(name, len(self.locals))

    def expr(self, e):
        if isinstance(e, ast.Constant):
            if e.value is None:
                return ".noneLit"
            if e.value is True or e.value is False:
                return f"(.boolLit {'true' if e.value else 'false'})"
        if isinstance(e, ast.Name):
            if e.id in self.locals:
                return f"(.loc {self.locals[e.id]})"
            if self.fn.name == "set_shape_memo" and e.id in self.params and len(self.params) == 4:
                return f"(.param {self.params.index(e.id)})"
        if _is_cell_attr(e):
            return ".attrStack"
        if isinstance(e, ast.Call) and not e.keywords:
            f = _u(e.func)
            if f == "getattr" and len(e.args) == 3 and _u(e.args[0]) == CELL and isinstance(e.args[1], ast.Constant) and e.args[1].value == ATTR:
                return f"(.getattrStack {self.expr(e.args[2])})"
            if f == "hasattr" and len(e.args) == 2 and _u(e.args[0]) == CELL and isinstance(e.args[1], ast.Constant) and e.args[1].value == ATTR:
                return ".hasattrStack"
            if f == "dict" and not e.args:
                return ".emptyDict"
            if self.fn.name == "push_shape_memo" and len(self.params) == 1:
                a = self.params[0]
                if (f == f"{a}.copy" and not e.args) or (f == "dict" and len(e.args) == 1 and _u(e.args[0]) == a):
                    return ".argsCopy"
            if isinstance(e.func, ast.Name) and e.func.id in self.helpers and not e.args:
                return f"(.call {self.helpers[e.func.id]})"
            if f == "bool" and len(e.args) == 1:
                return self.truth(e.args[0])
        if isinstance(e, ast.Dict) and not e.keys:
            return ".emptyDict"
        if isinstance(e, ast.Dict) and self.fn.name == "push_shape_memo" and len(self.params) == 1 and e.keys == [None] and _u(e.values[0]) == self.params[0]:
            return ".argsCopy"          # `{**arguments}`
        if isinstance(e, ast.Compare) and len(e.ops) == 1 and len(e.comparators) == 1:
            left, op, right = e.left, e.ops[0], e.comparators[0]
            if isinstance(right, ast.Constant) and right.value is None and isinstance(op, (ast.Is, ast.IsNot)):
                inner = f"(.isNone {self.expr(left)})"
                return inner if isinstance(op, ast.Is) else f"(.not {inner})"
            if isinstance(left, ast.Call) and _u(left.func) == "len" and len(left.args) == 1 and isinstance(right, ast.Constant) and isinstance(right.value, int):
                x = self.expr(left.args[0])
                k = right.value
                if (isinstance(op, ast.NotEq) and k == 0) or (isinstance(op, ast.Gt) and k == 0) or (isinstance(op, ast.GtE) and k == 1):
                    return f"(.nonEmpty {x})"
                if (isinstance(op, ast.Eq) and k == 0) or (isinstance(op, ast.Lt) and k == 1) or (isinstance(op, ast.LtE) and k == 0):
                    return f"(.not (.nonEmpty {x}))"
        if isinstance(e, ast.UnaryOp) and isinstance(e.op, ast.Not):
            return f"(.not {self.truth(e.operand)})"
        if isinstance(e, ast.BoolOp):
            parts = [self.truth(v) for v in e.values]
            op = ".and" if isinstance(e.op, ast.And) else ".or"
            r = parts[-1]
            for x in reversed(parts[:-1]):
                r = f"({op} {x} {r})"
            return r
        if isinstance(e, ast.Subscript) and isinstance(e.slice, ast.UnaryOp) and isinstance(e.slice.op, ast.USub) and isinstance(e.slice.operand, ast.Constant) \
                and e.slice.operand.value == 1:
            return f"(.last {self.expr(e.value)})"
        if isinstance(e, ast.Tuple) and len(e.elts) == 4 and not any(isinstance(x, ast.Starred) for x in e.elts):
            return "(.tuple4 " + " ".join(self.expr(x) for x in e.elts) + ")"
        self.notes.append(f"{self.fn.name}: expression: " + _u(e)[:80])
        return ".unknown"

    def truth(self, e):
        """an expression in a boolean position: comparisons, `not`, `and` / `or`, calls of helpers that return booleans"""
        return self.expr(e)

    def seq(self, stmts):
        out = [x for x in (self.stmt(s) for s in _strip(stmts)) if x != ".skip"] or [".skip"]
        r = out[-1]
        for x in reversed(out[:-1]):
            r = f"(.seq {x} {r})"
        return r

    def stmt(self, st):
        if isinstance(st, ast.AnnAssign) and st.value is not None and isinstance(st.target, ast.Name):
            st = ast.Assign(targets=[st.target], value=st.value)
        if isinstance(st, ast.If):
            return f"(.ite {self.truth(st.test)} {self.seq(st.body)} {self.seq(st.orelse)})"
        if isinstance(st, ast.Return):
            if st.value is None or (isinstance(st.value, ast.Constant) and st.value.value is None):
                return ".retNone"
            return f"(.ret {self.expr(st.value)})"
        if isinstance(st, ast.Try) and len(st.handlers) == 1 and not st.orelse and not st.finalbody and st.handlers[0].name is None \
                and st.handlers[0].type is not None and _u(st.handlers[0].type) == "AttributeError":
            return f"(.tryAttr {self.seq(st.body)} {self.seq(st.handlers[0].body)})"
        if isinstance(st, ast.Assign):
            v = st.value
            new_list = isinstance(v, ast.List) and not v.elts
            if new_list and any(_is_cell_attr(t) for t in st.targets):
                names = [t for t in st.targets if not _is_cell_attr(t)]
                if not names:
                    return "(.newStack none)"
                if len(names) == 1 and isinstance(names[0], ast.Name):
                    return f"(.newStack (some {self.loc(names[0].id)}))"
            if len(st.targets) == 1:
                t = st.targets[0]
                if isinstance(t, ast.Name):
                    e = self.expr(v)
                    return f"(.assign {self.loc(t.id)} {e})"
                if isinstance(t, ast.Tuple) and len(t.elts) == 4 and all(isinstance(x, ast.Name) for x in t.elts):
                    e = self.expr(v)
                    ids = " ".join(str(self.loc(x.id)) for x in t.elts)
                    return f"(.unpack4 {ids} {e})"
                if isinstance(t, ast.Subscript) and isinstance(t.slice, ast.UnaryOp) and isinstance(t.slice.op, ast.USub) and isinstance(t.slice.operand, ast.Constant) \
                        and t.slice.operand.value == 1:
                    return f"(.setLast {self.expr(t.value)} {self.expr(v)})"
        if isinstance(st, ast.Expr) and isinstance(st.value, ast.Call) and isinstance(st.value.func, ast.Attribute) and not st.value.keywords:
            c = st.value
            if c.func.attr == "append" and len(c.args) == 1:
                return f"(.append {self.expr(c.func.value)} {self.expr(c.args[0])})"
            if c.func.attr == "pop" and not c.args:
                return f"(.pop {self.expr(c.func.value)})"
        self.notes.append(f"{self.fn.name}: statement: " + _u(st)[:80].replace("\n", " "))
        return ".unknown"


# ----------------------------------------------------------------------------- the two one-value cells

class CellFnTranslator:
    """functions over `<cell>.value` for a one-value `threading.local()` cell (Model/CellDsl.lean)"""

    def __init__(self, fn, cell, helper_index, consts, notes):
        self.fn, self.cell, self.helpers, self.consts, self.notes = fn, cell, helper_index, consts, notes
        self.locals = {}
        self.params = [a.arg for a in fn.args.args]

    def loc(self, name):
        return self.locals.setdefault(name, len(self.locals))

    def _is_attr(self, e):
        return isinstance(e, ast.Attribute) and e.attr == "value" and isinstance(e.value, ast.Name) and e.value.id == self.cell

    def _fstring_text(self, e):
        """the text of an f-string with module-level string constants written out and the parameters as {name}"""
        if not isinstance(e, ast.JoinedStr):
            return None
        out = ""
        for v in e.values:
            if isinstance(v, ast.Constant) and isinstance(v.value, str):
                out += v.value
            elif isinstance(v, ast.FormattedValue) and isinstance(v.value, ast.Name) and v.conversion == -1 and v.format_spec is None:
                if v.value.id in self.params:
                    out += "{" + str(self.params.index(v.value.id)) + "}"
                elif v.value.id in self.consts and v.value.id not in self.locals:
                    out += self.consts[v.value.id]
                else:
                    return None
            else:
                return None
        return out

    def expr(self, e):
        if isinstance(e, ast.Constant):
            if e.value is None:
                return ".noneLit"
            if e.value is True or e.value is False:
                return f"(.boolLit {'true' if e.value else 'false'})"
        if isinstance(e, ast.Name) and e.id in self.locals:
            return f"(.loc {self.locals[e.id]})"
        if self._is_attr(e):
            return ".attrVal"
        if isinstance(e, ast.Call) and not e.keywords:
            f = _u(e.func)
            if f == "getattr" and len(e.args) == 3 and _u(e.args[0]) == self.cell and isinstance(e.args[1], ast.Constant) and e.args[1].value == "value":
                return f"(.getattrVal {self.expr(e.args[2])})"
            if f == "hasattr" and len(e.args) == 2 and _u(e.args[0]) == self.cell and isinstance(e.args[1], ast.Constant) and e.args[1].value == "value":
                return ".hasattrVal"
            if isinstance(e.func, ast.Name) and e.func.id in self.helpers and not e.args:
                return f"(.call {self.helpers[e.func.id]})"
        if isinstance(e, ast.Compare) and len(e.ops) == 1 and isinstance(e.comparators[0], ast.Constant) and e.comparators[0].value is None \
                and isinstance(e.ops[0], (ast.Is, ast.IsNot)):
            if self.fn.name == "set_treepath_memo" and isinstance(e.left, ast.Name) and len(self.params) == 2 and e.left.id == self.params[0] and e.left.id not in self.locals:
                inner = ".indexIsNone"
            else:
                inner = f"(.isNone {self.expr(e.left)})"
            return inner if isinstance(e.ops[0], ast.Is) else f"(.not {inner})"
        if isinstance(e, ast.UnaryOp) and isinstance(e.op, ast.Not):
            return f"(.not {self.expr(e.operand)})"
        if isinstance(e, ast.BoolOp):
            parts = [self.expr(v) for v in e.values]
            op = ".and" if isinstance(e.op, ast.And) else ".or"
            r = parts[-1]
            for x in reversed(parts[:-1]):
                r = f"({op} {x} {r})"
            return r
        if self.fn.name == "set_treepath_memo" and len(self.params) == 2:
            t = self._fstring_text(e)
            # the label must tell leaves apart (index) and structures apart (name): exactly the two documented texts
            if t == "(Leaf {0} in structure {1}) ":
                return ".labelLeaf"
            if t == "~~delete~~({1}) ":
                return ".labelHidden"
        self.notes.append(f"{self.fn.name}: expression: " + _u(e)[:80])
        return ".unknown"

    def seq(self, stmts):
        out = [x for x in (self.stmt(s) for s in _strip(stmts)) if x != ".skip"] or [".skip"]
        r = out[-1]
        for x in reversed(out[:-1]):
            r = f"(.seq {x} {r})"
        return r

    def stmt(self, st):
        if isinstance(st, ast.AnnAssign) and st.value is not None and isinstance(st.target, ast.Name):
            st = ast.Assign(targets=[st.target], value=st.value)
        if isinstance(st, ast.If):
            return f"(.ite {self.expr(st.test)} {self.seq(st.body)} {self.seq(st.orelse)})"
        if isinstance(st, ast.Return):
            if st.value is None or (isinstance(st.value, ast.Constant) and st.value.value is None):
                return ".retNone"
            return f"(.ret {self.expr(st.value)})"
        if isinstance(st, ast.Raise) and st.cause is None and st.exc is not None and ((isinstance(st.exc, ast.Call) and _u(st.exc.func) == "AnnotationError") or _u(st.exc) == "AnnotationError"):
            return ".raiseAnn"
        if isinstance(st, ast.Try) and len(st.handlers) == 1 and not st.orelse and not st.finalbody and st.handlers[0].name is None \
                and st.handlers[0].type is not None and _u(st.handlers[0].type) == "AttributeError":
            return f"(.tryAttr {self.seq(st.body)} {self.seq(st.handlers[0].body)})"
        if isinstance(st, ast.Assign) and len(st.targets) == 1:
            t = st.targets[0]
            if self._is_attr(t):
                return f"(.setAttr {self.expr(st.value)})"
            if isinstance(t, ast.Name):
                e = self.expr(st.value)
                return f"(.assign {self.loc(t.id)} {e})"
        self.notes.append(f"{self.fn.name}: statement: " + _u(st)[:80].replace("\n", " "))
        return ".unknown"


def translate_cell(tree, fns, cell, public, want_params, notes):
    import extract

    consts = {k: v.value for k, v in extract.module_constants(tree).items() if isinstance(v.value, str)}
    binds = [n for n in ast.walk(tree) if isinstance(n, (ast.Assign, ast.AnnAssign, ast.AugAssign)) and any(isinstance(t, ast.Name) and t.id == cell
             for t in (n.targets if isinstance(n, ast.Assign) else [n.target]))]
    ok = len(binds) == 1 and binds[0] in tree.body and isinstance(binds[0], ast.Assign) and _u(binds[0].value) == "threading.local()" \
        and not any(isinstance(n, ast.Global) and cell in n.names for n in ast.walk(tree)) \
        and any(isinstance(n, ast.Import) and any(a.name == "threading" and a.asname is None for a in n.names) for n in tree.body)
    if not ok:
        notes.append(f"`{cell} = threading.local()` not found exactly once at module level")
    helpers = []

    def reach(fn):
        for c in ast.walk(fn):
            if isinstance(c, ast.Call) and isinstance(c.func, ast.Name) and c.func.id in fns and c.func.id not in helpers and c.func.id not in public:
                h = fns[c.func.id]
                if not h.args.args and not h.args.vararg and not h.args.kwarg and not h.args.kwonlyargs and not h.decorator_list:
                    helpers.append(c.func.id)
                    reach(h)

    for name in public:
        if name in fns:
            reach(fns[name])
    index = {h: i for i, h in enumerate(helpers)}
    touched_by = {f.name for f in fns.values() if any(isinstance(n, ast.Name) and n.id == cell for n in ast.walk(f))}
    extra = touched_by - set(public) - set(helpers)
    at_module = any(isinstance(n, ast.Name) and n.id == cell for st in tree.body if not isinstance(st, ast.FunctionDef) and st is not (binds[0] if binds else None) for n in ast.walk(st))
    if extra or at_module:
        notes.append(f"{cell} is also touched by: " + (", ".join(sorted(extra)) or "module-level code"))
        ok = False
    codes = {}
    for name in helpers + public:
        fn = fns.get(name)
        if fn is None or not ok or fn.decorator_list or fn.args.vararg or fn.args.kwarg or fn.args.kwonlyargs \
                or (name in public and len(fn.args.args) != want_params[name]):
            if fn is None or name in public:
                notes.append(f"{name}: not found / unexpected parameters")
            codes[name] = ".unknown"
            continue
        codes[name] = CellFnTranslator(fn, cell, index, consts, notes).seq(fn.body)
    return helpers, codes


def run():
    with open(os.path.join(REPO, "jaxtyping", "_storage.py")) as fh:
        tree = ast.parse(fh.read())
    notes = []
    fns = {n.name: n for n in tree.body if isinstance(n, ast.FunctionDef)}
    public = ["get_shape_memo", "set_shape_memo", "push_shape_memo", "pop_shape_memo"]
    want_params = {"get_shape_memo": 0, "set_shape_memo": 4, "push_shape_memo": 1, "pop_shape_memo": 0}
    # the cell is ONE plain `threading.local()`, bound once at module level, and nothing else in the module touches it
    binds = [n for n in ast.walk(tree) if isinstance(n, (ast.Assign, ast.AnnAssign, ast.AugAssign)) and any(isinstance(t, ast.Name) and t.id == CELL
             for t in (n.targets if isinstance(n, ast.Assign) else [n.target]))]
    ok = len(binds) == 1 and binds[0] in tree.body and isinstance(binds[0], ast.Assign) and _u(binds[0].value) == "threading.local()" \
        and not any(isinstance(n, ast.Global) and CELL in n.names for n in ast.walk(tree)) \
        and any(isinstance(n, ast.Import) and any(a.name == "threading" and a.asname is None for a in n.names) for n in tree.body)
    if not ok:
        notes.append(f"`{CELL} = threading.local()` not found exactly once at module level")
    # helpers: zero-argument module functions reachable from the four, in a fixed order
    helpers = []

    def reach(fn):
        for c in ast.walk(fn):
            if isinstance(c, ast.Call) and isinstance(c.func, ast.Name) and c.func.id in fns and c.func.id not in helpers and c.func.id not in public:
                h = fns[c.func.id]
                if not h.args.args and not h.args.vararg and not h.args.kwarg and not h.args.kwonlyargs and not h.decorator_list:
                    helpers.append(c.func.id)
                    reach(h)

    for name in public:
        if name in fns:
            reach(fns[name])
    index = {h: i for i, h in enumerate(helpers)}
    # nobody else touches the cell
    touched_by = {f.name for f in fns.values() if any(isinstance(n, ast.Name) and n.id == CELL for n in ast.walk(f))}
    extra = touched_by - set(public) - set(helpers)
    if extra or any(isinstance(n, ast.Name) and n.id == CELL for st in tree.body if not isinstance(st, ast.FunctionDef) and st is not (binds[0] if binds else None) for n in ast.walk(st)):
        notes.append("the cell is also touched by: " + ", ".join(sorted(extra)) if extra else "the cell is touched at module level")
        ok = False
    codes = {}
    for name in helpers + public:
        fn = fns.get(name)
        if fn is None or not ok or fn.decorator_list or fn.args.vararg or fn.args.kwarg or fn.args.kwonlyargs \
                or (name in public and len(fn.args.args) != want_params[name]):
            if fn is None or name in public:
                notes.append(f"{name}: not found / unexpected parameters")
            codes[name] = ".unknown"
            continue
        codes[name] = FnTranslator(fn, index, notes).seq(fn.body)
    tp_helpers, tp = translate_cell(tree, fns, "_treepath_storage", ["clear_treepath_memo", "set_treepath_memo", "get_treepath_memo"],
                                    {"clear_treepath_memo": 0, "set_treepath_memo": 2, "get_treepath_memo": 0}, notes)
    fl_helpers, fl = translate_cell(tree, fns, "_treeflatten_storage", ["clear_treeflatten_memo", "set_treeflatten_memo", "get_treeflatten_memo"],
                                    {"clear_treeflatten_memo": 0, "set_treeflatten_memo": 0, "get_treeflatten_memo": 0}, notes)
    note = ("(" + "; ".join(notes)[:400].replace("-/", "- /") + ")") if notes else ""
    funs = ",\n  ".join(f"/- {h} -/ {codes[h]}" for h in helpers)
    tp_funs = ",\n  ".join(f"/- {h} -/ {tp[h]}" for h in tp_helpers)
    fl_funs = ",\n  ".join(f"/- {h} -/ {fl[h]}" for h in fl_helpers)
    txt = f"""/- GENERATED by harness/translate_storage.py from {REPO}/jaxtyping/_storage.py on every run. Do not edit. -/
import JaxVerif.Model.StorageDsl
import JaxVerif.Model.CellDsl

namespace JV.Generated

/-- the zero-argument helpers the four functions call, in call order {note} -/
def storageFuns : List SStmt := [
  {funs}]

def getShapeMemoCode : SStmt :=
  {codes['get_shape_memo']}
def setShapeMemoCode : SStmt :=
  {codes['set_shape_memo']}
def pushShapeMemoCode : SStmt :=
  {codes['push_shape_memo']}
def popShapeMemoCode : SStmt :=
  {codes['pop_shape_memo']}

/-- `_treepath_storage`: helpers, then `clear_treepath_memo()`, `set_treepath_memo(index, structure)`, `get_treepath_memo()` -/
def treepathFuns : List KStmt := [
  {tp_funs}]
def clearTreepathCode : KStmt :=
  {tp['clear_treepath_memo']}
def setTreepathCode : KStmt :=
  {tp['set_treepath_memo']}
def getTreepathCode : KStmt :=
  {tp['get_treepath_memo']}

/-- `_treeflatten_storage`: helpers, then `clear_` / `set_` / `get_treeflatten_memo()` -/
def treeflattenFuns : List KStmt := [
  {fl_funs}]
def clearTreeflattenCode : KStmt :=
  {fl['clear_treeflatten_memo']}
def setTreeflattenCode : KStmt :=
  {fl['set_treeflatten_memo']}
def getTreeflattenCode : KStmt :=
  {fl['get_treeflatten_memo']}

end JV.Generated
"""
    write_if_changed(os.path.join(GEN, "StorageCode.lean"), txt)
    return {"storage_notes": notes, "helpers": helpers, "codes": codes, "treepath": tp, "treeflatten": fl}


if __name__ == "__main__":
    import json

    print(json.dumps(run(), indent=1))
