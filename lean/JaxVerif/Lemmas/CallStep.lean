/-
The `call` and `ctx` cases of `runProg` (Model/Call.lean) with the run of the body abstracted into
a function `B` and every intermediate state written as a projection of the step that produced it.
`runProg_call_eq` / `runProg_ctx_eq` show that this is the same function, so that the lemma files
for C05 and C12 can reason about one non-recursive definition.
Core Lean only.
-/
import JaxVerif.Spec.Calls

namespace JV

def pushFrame (m : Memo) (st : TState) : TState := { st with stack := m :: st.stack }

/-- outcome of an old-style call from the verdict of the typechecker's wrapper -/
def oldOutcome : Verdict → CallOutcome
  | .T => .returned | .F => .checkerError | .ANN => .ann | .EXC e => .exc e

/-- the tail of a new-style call after a parameter or return check did not answer True
    (second full pass, `ret` given) -/
def newRetFail (w : WrapSkel) (pre : List Obs) (v : Verdict) (st : TState) : TState × List Obs :=
  match v with
  | .ANN =>
    (popAfter w.newPopInFinally (if w.annErrFirst then CallOutcome.ann else .tceReturn) st,
      pre ++ [.outcome (if w.annErrFirst then CallOutcome.ann else .tceReturn)])
  | .EXC .baseException =>
    (popAfter w.newPopInFinally (.exc .baseException) st, pre ++ [.outcome (.exc .baseException)])
  | _ =>
    (popAfter w.newPopInFinally .tceReturn st, pre ++ [.tceBindings (topMemo st), .outcome .tceReturn])

/-- the tail of a new-style call whose first parameter pass did not answer True -/
def newParamFail (sk : Skel) (w : WrapSkel) (params : List Param) (st : TState) :
    TState × List Obs :=
  match (problemArg sk params st).2 with
  | .inl b => (popAfter w.newPopInFinally (.tceParams b) (problemArg sk params st).1,
      [.tceBindings (topMemo (problemArg sk params st).1), .outcome (.tceParams b)])
  | .inr e => (popAfter w.newPopInFinally (.exc e) (problemArg sk params st).1, [.outcome (.exc e)])

def callStep (sk : Skel) (w : WrapSkel) (k : CallKind) (params : List Param)
    (ret : Option (LType × Obj)) (bindOk noTc : Bool) (B : TState → TState × List Obs)
    (exit : Exit) (st : TState) : TState × List Obs :=
  match k with
  | .noChecker =>
    if !bindOk then
      if w.oldBindBeforePush then (st, [.outcome .bindError])
      else (pushFrame {} st, [.outcome .bindError])
    else
      (popAfter w.oldPopInFinally (exitOutcome exit) (B (pushFrame { args := argsOf params } st)).1,
        [.bodyStart] ++ (B (pushFrame { args := argsOf params } st)).2 ++
          [.outcome (exitOutcome exit)])
  | .oldStyle =>
    if !bindOk then
      if w.oldBindBeforePush then (st, [.outcome .bindError])
      else (pushFrame {} st, [.outcome .bindError])
    else
      match (checkParams sk params (pushFrame { args := argsOf params } st)).2.1 with
      | .T =>
        match exit with
        | .ret =>
          match ret with
          | none =>
            (popAfter w.oldPopInFinally .returned
                (B (checkParams sk params (pushFrame { args := argsOf params } st)).1).1,
              [.bodyStart] ++ (B (checkParams sk params (pushFrame { args := argsOf params } st)).1).2
                ++ [.outcome .returned])
          | some (l, x) =>
            (popAfter w.oldPopInFinally
                (oldOutcome (onTop (B (checkParams sk params
                  (pushFrame { args := argsOf params } st)).1).1 (checkL sk l x)).2)
                (onTop (B (checkParams sk params
                  (pushFrame { args := argsOf params } st)).1).1 (checkL sk l x)).1,
              [.bodyStart] ++ (B (checkParams sk params (pushFrame { args := argsOf params } st)).1).2
                ++ [.outcome (oldOutcome (onTop (B (checkParams sk params
                  (pushFrame { args := argsOf params } st)).1).1 (checkL sk l x)).2)])
        | e =>
          (popAfter w.oldPopInFinally (exitOutcome e)
              (B (checkParams sk params (pushFrame { args := argsOf params } st)).1).1,
            [.bodyStart] ++ (B (checkParams sk params (pushFrame { args := argsOf params } st)).1).2
              ++ [.outcome (exitOutcome e)])
      | v =>
        (popAfter w.oldPopInFinally (oldOutcome v)
            (checkParams sk params (pushFrame { args := argsOf params } st)).1,
          [.outcome (oldOutcome v)])
  | .newStyle =>
    if w.disableTestFirst && (st.disable || noTc) then
      if !bindOk then (st, [.outcome .bindError])
      else ((B st).1, [.bodyStart] ++ (B st).2 ++ [.outcome (exitOutcome exit)])
    else if !bindOk then
      if w.newBindBeforePush then (st, [.outcome .bindError])
      else (pushFrame {} st, [.outcome .bindError])
    else if !w.disableTestFirst && (st.disable || noTc) then
      (popAfter w.newPopInFinally (exitOutcome exit)
          (B (pushFrame { args := argsOf params } st)).1,
        [.bodyStart] ++ (B (pushFrame { args := argsOf params } st)).2 ++
          [.outcome (exitOutcome exit)])
    else
      match (checkParams sk params (pushFrame { args := argsOf params } st)).2.1 with
      | .T =>
        match exit with
        | .ret =>
          match ret with
          | none =>
            (popAfter w.newPopInFinally .returned
                (B (checkParams sk params (pushFrame { args := argsOf params } st)).1).1,
              [.bodyStart] ++ (B (checkParams sk params (pushFrame { args := argsOf params } st)).1).2
                ++ [.outcome .returned])
          | some (l, x) =>
            match (checkParams sk params
                (B (checkParams sk params (pushFrame { args := argsOf params } st)).1).1).2.1 with
            | .T =>
              match (onTop (checkParams sk params
                  (B (checkParams sk params (pushFrame { args := argsOf params } st)).1).1).1
                  (checkL sk l x)).2 with
              | .T =>
                (popAfter w.newPopInFinally .returned
                    (onTop (checkParams sk params
                      (B (checkParams sk params (pushFrame { args := argsOf params } st)).1).1).1
                      (checkL sk l x)).1,
                  [.bodyStart] ++
                    (B (checkParams sk params (pushFrame { args := argsOf params } st)).1).2 ++
                    [.outcome .returned])
              | v =>
                newRetFail w ([.bodyStart] ++
                    (B (checkParams sk params (pushFrame { args := argsOf params } st)).1).2) v
                  (onTop (checkParams sk params
                      (B (checkParams sk params (pushFrame { args := argsOf params } st)).1).1).1
                      (checkL sk l x)).1
            | v =>
              newRetFail w ([.bodyStart] ++
                  (B (checkParams sk params (pushFrame { args := argsOf params } st)).1).2) v
                (checkParams sk params
                  (B (checkParams sk params (pushFrame { args := argsOf params } st)).1).1).1
        | e =>
          (popAfter w.newPopInFinally (exitOutcome e)
              (B (checkParams sk params (pushFrame { args := argsOf params } st)).1).1,
            [.bodyStart] ++ (B (checkParams sk params (pushFrame { args := argsOf params } st)).1).2
              ++ [.outcome (exitOutcome e)])
      | .ANN =>
        if w.annErrFirst then
          (popAfter w.newPopInFinally .ann
            (checkParams sk params (pushFrame { args := argsOf params } st)).1, [.outcome .ann])
        else
          newParamFail sk w params (checkParams sk params (pushFrame { args := argsOf params } st)).1
      | .EXC .baseException =>
        (popAfter w.newPopInFinally (.exc .baseException)
          (checkParams sk params (pushFrame { args := argsOf params } st)).1,
          [.outcome (.exc .baseException)])
      | _ =>
        newParamFail sk w params (checkParams sk params (pushFrame { args := argsOf params } st)).1

def ctxStep (w : WrapSkel) (B : TState → TState × List Obs) (exit : Exit) (st : TState) :
    TState × List Obs :=
  (if w.ctxExitPopsAlways || !isExceptional (exitOutcome exit)
      then popStack (B (pushFrame {} st)).1 else (B (pushFrame {} st)).1,
    (B (pushFrame {} st)).2 ++ [.outcome (exitOutcome exit)])

theorem runProg_ctx_eq (sk : Skel) (w : WrapSkel) (body : List Prog) (e : Exit) (st : TState) :
    runProg sk w (.ctx body e) st = ctxStep w (runProgs sk w body) e st := by
  rw [runProg]
  rfl

theorem runProg_call_eq (sk : Skel) (w : WrapSkel) (k : CallKind) (ps : List Param)
    (ret : Option (LType × Obj)) (bindOk noTc : Bool) (body : List Prog) (e : Exit) (st : TState) :
    runProg sk w (.call k ps ret bindOk noTc body e) st =
      callStep sk w k ps ret bindOk noTc (runProgs sk w body) e st := by
  cases k
  case noChecker => rw [runProg]; rfl
  case oldStyle =>
    rw [runProg]; unfold callStep pushFrame; dsimp only
    split
    · rfl
    rcases checkParams sk ps _ with ⟨st2, v, n⟩
    cases v with
    | T =>
      cases e with
      | ret =>
        cases ret with
        | none => rfl
        | some lx => rfl
      | _ => rfl
    | _ => rfl
  case newStyle =>
    rw [runProg]; unfold callStep pushFrame; dsimp only
    split
    · rfl
    split
    · rfl
    split
    · rfl
    rcases checkParams sk ps _ with ⟨st2, v, n⟩
    cases v with
    | T =>
      cases e with
      | ret =>
        cases ret with
        | none => rfl
        | some lx =>
          obtain ⟨l, x⟩ := lx
          dsimp only
          rcases checkParams sk ps _ with ⟨st4, v4, n4⟩
          cases v4 with
          | T =>
            dsimp only
            rcases onTop st4 _ with ⟨st5, v5⟩
            cases v5 with
            | EXC e5 => cases e5 <;> rfl
            | _ => rfl
          | EXC e4 => cases e4 <;> rfl
          | _ => rfl
      | _ => rfl
    | F =>
      unfold newParamFail; dsimp only
      rcases problemArg sk ps st2 with ⟨st3, b | e3⟩ <;> rfl
    | ANN =>
      unfold newParamFail; dsimp only
      split
      · rfl
      · rcases problemArg sk ps st2 with ⟨st3, b | e3⟩ <;> rfl
    | EXC e1 =>
      cases e1 with
      | baseException => rfl
      | exception =>
        unfold newParamFail; dsimp only
        rcases problemArg sk ps st2 with ⟨st3, b | e3⟩ <;> rfl

end JV
