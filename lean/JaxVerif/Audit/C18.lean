import JaxVerif.Properties.C18

#print axioms JV.C18_history
#print axioms JV.C18_init
#print axioms JV.C18_tags
#print axioms JV.C18_generated_good
#print axioms JV.C18_execmodule_violates
#print axioms JV.C18_nowrite_skip_violates
#print axioms JV.C18_source_to_code
#print axioms JV.C18_source_get_code
