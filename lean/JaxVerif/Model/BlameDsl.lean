/-
A small language for `_get_problem_arg` (jaxtyping/_decorator.py): the `for keep_name in …: … else: …` loop that
re-checks one parameter at a time to find which one to blame. The translator (harness/translate_wrap.py) turns the
current source into `Generated.problemArgBody` / `Generated.problemArgElse` (`Generated/WrapperCode.lean`);
`Source/Wrappers.lean` proves that running them over any parameter list is `problemArg` of the model (Model/Call.lean).
Building the one-parameter checker (`_make_fn_with_signature` + `_apply_typechecker` on a signature that keeps the
annotation of `keep_name` only) is one primitive (`buildChecker`); exception classes and handlers are those of
Model/WrapDsl.lean. Core Lean only.
-/
import JaxVerif.Model.WrapDsl

namespace JV

inductive BStmt
  | skip
  | seq (a b : BStmt)
  | message                        -- statements that only assemble message text
  | buildChecker                   -- `fn = _apply_typechecker(typechecker, _make_fn_with_signature(…one annotation…))`
  | callChecker                    -- `fn(*args, **kwargs)`
  | tryExcept (b hs : BStmt)
  | handler (cls : WCls) (body next : BStmt)
  | endHandlers
  | reraise
  | raiseBlame                     -- `raise TypeCheckError(f"… parameter '{keep_name}' …") from e`
  | raiseNone                      -- `raise TypeCheckError("")`
  | unknown
  deriving Repr

structure BSt where
  st : TState
  built : Bool := false
  caught : Option WExc := none

inductive BRes
  | normal (s : BSt)
  | raised (x : WExc) (s : BSt)
  | crash

/-- one statement, for the parameter `p` the loop is at (`none` = in the `else` clause) -/
def BStmt.run (sk : Skel) (p : Option Param) : BStmt → BSt → BRes
  | .skip, s => .normal s
  | .message, s => .normal s
  | .seq a b, s =>
    (match a.run sk p s with
     | .normal s' => b.run sk p s'
     | r => r)
  | .buildChecker, s => if p.isSome then .normal { s with built := true } else .crash
  | .callChecker, s =>
    (match p, s.built with
     | some q, true =>
       (match (onTop s.st (checkL sk q.ty q.val)).2 with
        | .T => .normal { s with st := (onTop s.st (checkL sk q.ty q.val)).1 }
        | .F => .raised .typeErr { s with st := (onTop s.st (checkL sk q.ty q.val)).1 }
        | .ANN => .raised .ann { s with st := (onTop s.st (checkL sk q.ty q.val)).1 }
        | .EXC e => .raised (.exc e) { s with st := (onTop s.st (checkL sk q.ty q.val)).1 })
     | _, _ => .crash)
  | .tryExcept b hs, s =>
    (match b.run sk p s with
     | .raised x s' => hs.run sk p { s' with caught := some x }
     | r => r)
  | .handler cls body next, s =>
    (match s.caught with
     | none => .crash
     | some x => if cls.covers x then body.run sk p s else next.run sk p s)
  | .endHandlers, s =>
    (match s.caught with
     | none => .crash
     | some x => .raised x s)
  | .reraise, s =>
    (match s.caught with
     | none => .crash
     | some x => .raised x s)
  | .raiseBlame, s =>
    (match p, s.caught with
     | some q, some _ => .raised (.tceInner (some q.name)) s
     | _, _ => .crash)
  | .raiseNone, s => .raised (.tceInner none) s
  | .unknown, _ => .crash

/-- the `for … else` loop: `body` once per parameter (a fresh `fn` each time), `orelse` when no iteration left the loop;
    `none` = the translated code left the fragment the interpreter gives a meaning to, or fell off its end (the real
    function is declared `NoReturn`: its caller would go on to call the function body) -/
def runBlame (sk : Skel) (body orelse : BStmt) : List Param → TState → Option (TState × (Option String ⊕ Exc))
  | [], st =>
    (match orelse.run sk none { st := st } with
     | .raised (.tceInner b) s => some (s.st, .inl b)
     | .raised (.exc e) s => some (s.st, .inr e)
     | _ => none)
  | p :: ps, st =>
    (match body.run sk (some p) { st := st } with
     | .normal s => runBlame sk body orelse ps s.st
     | .raised (.tceInner b) s => some (s.st, .inl b)
     | .raised (.exc e) s => some (s.st, .inr e)
     | _ => none)

end JV
