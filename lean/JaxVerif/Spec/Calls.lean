/-
Specification-level vocabulary for whole calls (C02 / C13).
-/
import JaxVerif.Spec.Array
import JaxVerif.Model.Call

namespace JV

/-- the typechecker's pass over array-annotated values, as a pure function: check them in order in
    one context, stop at the first that does not answer True -/
def checkSeq (c : Catch) (tp : TreePath) : List (Ann × ArrObj) → Memo → Verdict × Memo
  | [], m => (.T, m)
  | (a, o) :: rest, m =>
    match instancecheck c false tp a o m with
    | (.T, m') => checkSeq c tp rest m'
    | (v, m') => (v, m')

/-- one value matches its annotation under a total assignment -/
def GoodUnder (tp : TreePath) (args : Args) (α : Asg) (p : Ann × ArrObj) : Prop :=
  p.2.isInst = true ∧ p.1.dtypes.accepts p.2.dtype = true ∧ Matches tp args α p.1.shape p.2.shape

/-- an array-annotated parameter as (annotation, value) -/
def Param.asArr (p : Param) : Ann × ArrObj :=
  match p.ty with
  | .arr cls a => (a, p.val.toArr cls)
  | _ => ({ dtypes := .any, shape := { pre := [], var := none } }, { isInst := false, dtype := "", shape := [] })

/-- the wrapper skeleton under which the stack discipline holds -/
def WrapSkel.Good (w : WrapSkel) : Prop :=
  w.newPopInFinally = true ∧ w.oldPopInFinally = true ∧ w.ctxExitPopsAlways = true ∧
  w.newBindBeforePush = true ∧ w.oldBindBeforePush = true

instance (w : WrapSkel) : Decidable w.Good := by unfold WrapSkel.Good; infer_instance

/-- both transient flags are released on every path -/
def Skel.Good (sk : Skel) : Prop := sk.flattenInFinally = true ∧ sk.treepathInFinally = true

instance (sk : Skel) : Decidable sk.Good := by unfold Skel.Good; infer_instance

end JV
