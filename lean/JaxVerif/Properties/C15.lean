/-
C15 — nested, union, TypeVar and scalar annotations obey the documented laws.
The model (`Model/Make.lean`) mirrors `_MetaAbstractDtype.__getitem__`, `_make_array`,
`_make_array_cached` and `_check_scalar`. A made annotation is checked through its `core`
(array type, dtypes, axes, multi-axis index) only, so equal cores accept the same values in every
context.
-/
import JaxVerif.Lemmas.Make
import JaxVerif.Generated.Make

namespace JV

/-- **nesting**: `D₂[D₁[A, s₁], s₂]` is, for every check, the flat annotation
    `(D₁ ∩ D₂)[A, s₂ ++ " " ++ s₁]` — and an error exactly when that one is, or the dtypes do not
    overlap -/
theorem C15_nest (D₁ D₂ : Category) (A : String) (s₁ s₂ : List Char) (m₁ : Made)
    (h₁ : makeArray D₁ (atomOf A) s₁ = .made m₁) :
    (makeArray D₂ (.made m₁) s₂).toCore =
      match DtypeSpec.inter D₂.dtypes D₁.dtypes with
      | none => .valueError
      | some dt => (makeArray ⟨D₂.name, dt⟩ (atomOf A) (s₂ ++ ' ' :: s₁)).toCore := by
  have hw := (makeArray_wf D₁ (atomOf A) s₁ m₁ (by intro i hi; unfold atomOf at hi; split at hi <;> cases hi) h₁).1
  rw [makeArray_atomOf] at h₁
  cases hp : parseSpec s₁ with
  | none => simp [hp] at h₁
  | some p =>
    obtain ⟨dims, iv⟩ := p
    simp only [hp, MakeOut.made.injEq] at h₁
    have := nest_law D₂ m₁ hw s₂
    rw [← h₁] at this ⊢
    exact this

/-- the same at any nesting depth: the inner annotation may itself be nested (every annotation
    that can be built satisfies `WF`, `C15_closed`) -/
theorem C15_nest_deep (D₂ : Category) (m₁ : Made) (hw : m₁.WF) (s₂ : List Char) :
    (makeArray D₂ (.made m₁) s₂).toCore =
      match DtypeSpec.inter D₂.dtypes m₁.dtypes with
      | none => .valueError
      | some dt => (makeArray ⟨D₂.name, dt⟩ (atomOf m₁.arrayType) (s₂ ++ ' ' :: m₁.dimStr)).toCore :=
  nest_law D₂ m₁ hw s₂

theorem C15_closed (cat : Category) (a : Atom) (s : List Char) (m : Made)
    (ha : ∀ inner, a = .made inner → inner.WF) (h : makeArray cat a s = .made m) : m.WF :=
  (makeArray_wf cat a s m ha h).1

/-- `D₁ ∩ D₂` accepts exactly the dtypes both accept -/
theorem C15_nest_dtypes (o i r : DtypeSpec) (h : DtypeSpec.inter o i = some r) (d : String) :
    r.accepts d = (o.accepts d && i.accepts d) :=
  inter_accepts o i r h d

/-- **nesting errors**: exactly when the outer string is malformed, both parts list dtypes with
    nothing in common, or both parts have a multi-axis specifier -/
theorem C15_nest_error (D₂ : Category) (m₁ : Made) (s₂ : List Char) :
    makeArray D₂ (.made m₁) s₂ = .valueError ↔
      parseSpec s₂ = none ∨
      (∃ l l', D₂.dtypes = .names l ∧ m₁.dtypes = .names l' ∧ ∀ d, ¬ (d ∈ l ∧ d ∈ l')) ∨
      (∃ dims j, parseSpec s₂ = some (dims, some j) ∧ m₁.iv.isSome = true) := by
  rw [nest_error_iff, inter_none_iff]

/-- **unions**: `D[Union[a₁, …, aₙ], s]` accepts exactly what `Union[D[a₁, s], …, D[aₙ, s]]`
    accepts (members that do not exist — scalar types the category or shape excludes — drop out),
    whatever the check of one made annotation / scalar type is -/
theorem C15_union {V : Type} (chk : Core → V → Bool) (sc : ScalarTy → V → Bool)
    (cat : Category) (as : List Atom) (s : List Char)
    (h : getitem cat (.union as) s ≠ .valueError) (v : V) :
    GetOut.accepts chk sc (getitem cat (.union as) s) v =
      as.any (fun a => GetOut.accepts chk sc (getitem cat (.atom a) s) v) := by
  unfold getitem at h ⊢
  simp only at h ⊢
  cases hg : getitemAtoms cat as (stripWs s) with
  | valueError => exact absurd hg h
  | alts l => rw [← hg]; exact union_accepts chk sc cat as (stripWs s) l hg v

/-- the union is an error exactly when a member is an error of its own or no member exists -/
theorem C15_union_error (cat : Category) (as : List Atom) (s : List Char) :
    getitem cat (.union as) s = .valueError ↔
      (∃ a ∈ as, makeArray cat a (stripWs s) = .valueError) ∨
      (∀ a ∈ as, (makeArray cat a (stripWs s)).alt? = none) :=
  getitemAtoms_error_iff cat as (stripWs s)

/-- **TypeVars**: a TypeVar stands for its bound, the union of its constraints, or `Any` -/
theorem C15_typevar (cat : Category) (a : Atom) (as : List Atom) (s : List Char) :
    getitem cat (.tvBoundAtom a) s = getitem cat (.atom a) s ∧
    getitem cat (.tvBoundUnion as) s = getitem cat (.union as) s ∧
    getitem cat (.tvConstr as) s = getitem cat (.union as) s ∧
    getitem cat .tvFree s = getitem cat (.atom .any) s :=
  ⟨rfl, rfl, rfl, rfl⟩

/-- **scalars**: `bool / int / float / complex` (and the NumPy scalar bases) survive exactly for
    shapes that admit rank 0 and categories holding a dtype whose name starts with the scalar's
    prefix; otherwise the annotation is an error -/
theorem C15_scalar (cat : Category) (sc : ScalarTy) (str : List Char) :
    getitem cat (.atom (.scalar sc)) str =
      match parseSpec str with
      | none => .valueError
      | some (dims, iv) =>
        if rankOk dims iv 0 &&
            (match cat.dtypes with
             | .any => true
             | .names l => l.any (fun d => sc.pre.isPrefixOf d.toList))
        then .alts [.scalar sc] else .valueError := by
  rw [scalar_survives]
  cases hp : parseSpec str with
  | none => rfl
  | some p =>
    obtain ⟨dims, iv⟩ := p
    dsimp only
    have hb : dims.all PDim.isVariadic = rankOk dims iv 0 := by
      have := all_variadic_iff_rank0 str dims iv hp
      cases h1 : dims.all PDim.isVariadic <;> cases h2 : rankOk dims iv 0 <;> simp_all
    unfold checkScalar
    rw [hb]
    cases cat.dtypes <;> rfl

/-- what the current source does (re-extracted on every run): the scalar ladder and its prefixes,
    outer-before-inner concatenation of axes and strings, the shift of the inner multi-axis
    index, the dtype filter, the strip of the dim string; and the aliases `Scalar`, `ScalarLike`,
    `PRNGKeyArray` as documented in docs/api/array.md -/
theorem C15_generated_good :
    Generated.scalarLadder =
      [("bool", String.ofList ScalarTy.pyBool.pre), ("int", String.ofList ScalarTy.pyInt.pre),
       ("float", String.ofList ScalarTy.pyFloat.pre), ("complex", String.ofList ScalarTy.pyComplex.pre),
       ("np.bool_", String.ofList ScalarTy.npBool.pre), ("np.generic", String.ofList ScalarTy.npGeneric.pre),
       ("np.number", String.ofList ScalarTy.npNumber.pre)] ∧
    Generated.nestDimsOuterFirst = true ∧ Generated.nestStrOuterFirst = true ∧
    Generated.nestVariadicShift = true ∧ Generated.nestDtypesFilter = true ∧
    Generated.nestDtypesAnyTakesInner = true ∧ Generated.stripsDimStr = true := by decide

theorem C15_aliases :
    Generated.aliases =
      [("PRNGKeyArray", [("Key", "Array", ""), ("UInt32", "Array", "2")]),
       ("Scalar", [("Shaped", "Array", "")]),
       ("ScalarLike", [("Shaped", "ArrayLike", "")])] := by decide

/-! non-vacuity -/
private def floatC : Category := ⟨"Float", .names ["float16", "float32"]⟩
private def realC : Category := ⟨"Real", .names ["float32", "int32"]⟩
private def boolC : Category := ⟨"Bool", .names ["bool"]⟩
example : ∃ m₁ m₂, makeArray floatC (.cls "A") "a *b".toList = .made m₁ ∧
    makeArray realC (.made m₁) "c".toList = .made m₂ ∧
    m₂.dtypes = .names ["float32"] ∧ m₂.iv = some 2 ∧ m₂.dimStr = "c a *b".toList := ⟨_, _, rfl, rfl, by decide⟩
example : ∃ m₁, makeArray floatC (.cls "A") "a".toList = .made m₁ ∧
    makeArray boolC (.made m₁) "c".toList = .valueError := ⟨_, rfl, by decide⟩
example : getitem floatC (.atom (.scalar .pyFloat)) "...".toList = .alts [.scalar .pyFloat] ∧
    getitem floatC (.atom (.scalar .pyFloat)) "a".toList = .valueError ∧
    getitem floatC (.atom (.scalar .pyInt)) "".toList = .valueError := by decide
example : getitem floatC (.union [.cls "A", .scalar .pyInt, .scalar .pyFloat]) " ".toList =
    .alts [.made ⟨floatC, "A", [], floatC.dtypes, [], none⟩, .scalar .pyFloat] := by decide

end JV
