"""Run one JSON program on the Lean model and on the real code and compare the transcripts."""
import json

import extract
import gen_prog
import impl_prog


def strip(obs, ignore):
    return [o for o in obs if o["o"] not in ignore]


GOOD_SKEL = {"arrayCatch": "base", "pytreeCatch": "base", "flattenInFinally": True, "flattenRestores": True,
             "treepathInFinally": True, "treepathGuarded": True}
GOOD_WRAP = {k: True for k in ["newPopInFinally", "oldPopInFinally", "ctxExitPopsAlways", "newBindBeforePush", "oldBindBeforePush",
                               "disableTestFirst", "annErrFirst", "messageCurrent"]}


def run_both(drv, facts, prog, checker="typeguard", rng=None, spec=False):
    """spec=True: the model is run with the skeleton under which the theorems hold (the
    specification); otherwise with the skeleton read from the current source (correspondence)"""
    skel, wrap = (GOOD_SKEL, GOOD_WRAP) if spec else extract.skel_request(facts)
    w = drv.ask({"cmd": "prog", "prog": prog, "skel": skel, "wrap": wrap})
    got, resid = impl_prog.run_program(prog, checker, rng)
    want = None if "skip" in w else impl_prog.canon_model_obs(w["obs"])
    return got, want, resid, w


def compare_program(out, drv, facts, prog, tag, checker="typeguard", rng=None, as_violation=None, ignore=("tcebindings",), shrink=True):
    """as_violation: None -> a difference is a correspondence difference (model_diff);
    callable(got, want) -> (key, what) to report it as a property violation (the model IS the spec
    by the theorems) or None to fall back to model_diff."""
    spec = as_violation is not None
    got, want, resid, w = run_both(drv, facts, prog, checker, rng, spec=spec)
    if want is None:
        out.count("unmodelled")
        return got, None
    if spec and strip(got, ignore) == strip(want, ignore):
        # agrees with the specification; also keep the source-skeleton model honest
        _, want_src, _, _ = run_both(drv, facts, prog, checker, None, spec=False)
        if want_src is not None and strip(got, ignore) != strip(want_src, ignore):
            out.model_diff(f"{tag}:source-skeleton", "the implementation agrees with the specification model but not with the model run under the skeleton extracted from the source", {"program": prog, "implementation": got, "model_source_skeleton": want_src})
        return got, want
    if strip(got, ignore) != strip(want, ignore):
        small = prog
        if shrink:
            def differs(pr):
                g, ww, _, _ = run_both(drv, facts, pr, checker, None, spec=spec)
                return ww is not None and strip(g, ignore) != strip(ww, ignore)

            small = gen_prog.shrink(prog, differs, budget=120)
            got_s, want_s, _, _ = run_both(drv, facts, small, checker, None, spec=spec)
        else:
            got_s, want_s = got, want
        k = next((i for i, (a, b) in enumerate(zip(strip(got_s, ignore), strip(want_s, ignore))) if a != b), 0)
        rep = {"program": small, "implementation": got_s, "required": want_s, "checker": checker}
        res = as_violation(got_s, want_s) if as_violation else None
        if res:
            out.violation(res[0], res[1], rep)
        else:
            out.model_diff(f"{tag}:transcript", f"observation {k}: implementation {strip(got_s, ignore)[k:k+1]} vs model {strip(want_s, ignore)[k:k+1]}", rep)
    return got, want


def verdicts(obs):
    return [o["v"] for o in obs if o["o"] == "verdict"]


def last_bindings(obs):
    b = [o["m"] for o in obs if o["o"] == "bindings"]
    return b[-1] if b else None
