import JaxVerif.Properties.C13

#print axioms JV.C13_iff
#print axioms JV.C13_stage
#print axioms JV.C13_blame
#print axioms JV.C13_bindings
#print axioms JV.C13_annotation_error
#print axioms JV.C13_generated_good
#print axioms JV.C13_source_wrapper
#print axioms JV.C13_source_blame
