/-
C20 — annotations survive pickling and copying with their meaning intact.
`reduce` is the copyreg reducer `_pickle_array_annotation`, `rebuild` what the loading process
does with its output (`_unpickle_array_annotation`: `dtype[array_type, dim_str]`, re-parsing the
string there, then installing the carried dtypes). copy / deepcopy / cloudpickle go through the
same reducer.
-/
import JaxVerif.Lemmas.Make
import JaxVerif.Generated.Make

namespace JV

/-- **round trip**: for every annotation that can be built — flat or nested to any depth — the
    reconstruction exists and has the same array type, the same effective dtypes, the same axes
    and the same multi-axis index; it is again well-formed (so it can be pickled again) and keeps
    its category -/
theorem C20_roundtrip (m : Made) (hw : m.WF) :
    ∃ m', rebuild (reduce true m) = .alts [.made m'] ∧ m'.core = m.core ∧ m'.WF ∧ m'.cat = m.cat :=
  rebuild_reduce m hw

/-- hence it accepts exactly the same values, whatever the check of a made annotation is -/
theorem C20_accepts {V : Type} (chk : Core → V → Bool) (sc : ScalarTy → V → Bool) (m : Made) (hw : m.WF) (v : V) :
    GetOut.accepts chk sc (rebuild (reduce true m)) v = chk m.core v := by
  obtain ⟨m', h, hc, _, _⟩ := rebuild_reduce m hw
  rw [h]
  simp [GetOut.accepts, Alt.accepts, hc]

/-- every annotation `_make_array` builds from classes, `Any` and well-formed annotations is
    well-formed: the hypothesis of `C20_roundtrip` holds for everything constructible -/
theorem C20_constructible (cat : Category) (a : Atom) (s : List Char) (m : Made)
    (ha : ∀ inner, a = .made inner → inner.WF) (h : makeArray cat a s = .made m) : m.WF :=
  (makeArray_wf cat a s m ha h).1

/-- the reducer read from the current source hands the effective dtypes over, and `__getitem__`
    strips and re-parses the stored string -/
theorem C20_generated_good :
    Generated.reducerCarriesDtypes = true ∧ Generated.stripsDimStr = true ∧
    Generated.sentinelsByReference = true := by decide

/-- **by value** (cloudpickle on the dynamically created class, which bypasses the reducer): with
    sentinels that pickle as references to their module-level names the annotation comes back
    attribute for attribute -/
theorem C20_by_value (m : Made) : byValue true m = some m := byValue_true m

/-- and that fact matters: with bare `object()` sentinels every annotation that accepts any dtype
    or has an anonymous axis (`_`, `...`, `*_`) comes back as something the check cannot interpret -/
theorem C20_by_value_needs_reference (m : Made) :
    byValue false m = none ↔ m.dtypes = .any ∨ ∃ d ∈ m.dims, d = .anon ∨ d = .anonVar :=
  byValue_false_none_iff m

/-- the fact matters: a reducer that rebuilds from the written category alone loses the dtypes of
    a nested annotation — `Shaped[Float[A, "a"], "b"]` comes back accepting every dtype -/
theorem C20_reducer_must_carry :
    let shaped : Category := ⟨"Shaped", .any⟩
    let inner : Made := ⟨⟨"Float", .names ["float32"]⟩, "A", "a".toList, .names ["float32"], [.named "a".toList false false], none⟩
    let m := makeArray shaped (.made inner) "b".toList
    (m.made?.map Made.dtypes = some (.names ["float32"])) ∧
    ((m.made?.bind fun m => (rebuild (reduce false m)).single?).map Made.dtypes = some .any) ∧
    ((m.made?.bind fun m => (rebuild (reduce true m)).single?).map Made.dtypes = some (.names ["float32"])) := by
  decide

/-! non-vacuity: a nested annotation with leading whitespace left over from an empty outer string -/
example :
    let c : Category := ⟨"Float", .names ["float16", "float32"]⟩
    let inner : Made := ⟨c, "", "*b _".toList, c.dtypes, [.namedVar "b".toList false false, .anon], some 0⟩
    let m := makeArray ⟨"Real", .names ["float32", "int8"]⟩ (.made inner) "".toList
    m.made?.map Made.dimStr = some " *b _".toList ∧
    (m.made?.bind fun m => (rebuild (reduce true m)).single?).map Made.dimStr = some "*b _".toList ∧
    (m.made?.bind fun m => (rebuild (reduce true m)).single?).map Made.core = m.made?.map Made.core := by
  decide

end JV
