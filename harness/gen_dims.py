"""Generators for dim strings, shapes and histories of array checks."""
from __future__ import annotations

import itertools
import re

SMALL_TOKENS = ["a", "b", "#a", "3", "#3", "_", "a+1", "#a+1", "*v", "*#v", "...", "a*b", "{n}"]
VARIADIC_TOKENS = {"*v", "*#v", "...", "*w", "*#w", "*_"}

NAMES = ["a", "b", "c"]
VNAMES = ["v", "w"]


def small_dim_strings(max_axes: int, tokens=SMALL_TOKENS):
    for k in range(max_axes + 1):
        for combo in itertools.product(tokens, repeat=k):
            if sum(1 for t in combo if t in VARIADIC_TOKENS) > 1:
                continue
            yield " ".join(combo)


def small_shapes(max_rank: int, sizes=(0, 1, 2, 3)):
    for r in range(max_rank + 1):
        for s in itertools.product(sizes, repeat=r):
            yield list(s)


def sym_names(dims: str):
    """axis names mentioned by symbolic tokens of a dim string (outside holes)"""
    names = set()
    for tok in dims.split():
        base = tok.lstrip("#")
        if re.fullmatch(r"[A-Za-z_][A-Za-z0-9_]*", base) or base in ("...",) or base.startswith(("*", "_", "?")):
            continue
        if re.fullmatch(r"[+-]?[0-9_]+", base):
            continue
        nohole = re.sub(r"\{[^}]*\}", "0", base)
        names.update(re.findall(r"[A-Za-z_][A-Za-z0-9_]*", nohole))
    return names


def hole_names(dims: str):
    return set(re.findall(r"\{([A-Za-z_][A-Za-z0-9_]*)\}", dims))


def rand_expr(rng, names, holes, depth=0):
    r = rng.below(10)
    if depth >= 2 or r < 3:
        k = rng.below(5)
        if k == 0 and holes:
            return "{" + rng.choice(holes) + "}"
        if k <= 2 and names:
            return rng.choice(names)
        return str(rng.below(4))
    if r == 3:
        return "-" + rand_expr(rng, names, holes, depth + 1)
    if r == 4:
        return "(" + rand_expr(rng, names, holes, depth + 1) + ")"
    op = rng.choice(["+", "-", "*", "//", "+", "*"])
    return rand_expr(rng, names, holes, depth + 1) + op + rand_expr(rng, names, holes, depth + 1)


def rand_symbolic(rng, names, holes):
    for _ in range(20):
        e = rand_expr(rng, names, holes)
        # must not be classified as identifier / integer by the parser
        if re.fullmatch(r"[A-Za-z_][A-Za-z0-9_]*", e) or re.fullmatch(r"[+-]?[0-9]+", e):
            continue
        if e[0] in "#*_?" or "=" in e or e.endswith("#"):
            continue
        return e
    return "a+1"


def rand_token(rng, allow_variadic=True, holes=("n",), treepath=False):
    r = rng.below(100)
    if r < 30:
        t = rng.choice(NAMES)
        if rng.chance(1, 4):
            t = "#" + t
        if treepath and rng.chance(1, 3):
            t = "?" + t
        return t
    if r < 45:
        t = str(rng.below(5))
        return "#" + t if rng.chance(1, 3) else t
    if r < 55:
        return "_"
    if r < 75:
        t = rand_symbolic(rng, NAMES, list(holes))
        return "#" + t if rng.chance(1, 4) else t
    if r < 80:
        return rng.choice(["dim=3", "rows=a", "x=#b", "#y=2"])
    if allow_variadic:
        k = rng.below(10)
        if k < 2:
            return "..."
        if k < 3:
            return "*_"
        t = "*" + rng.choice(VNAMES)
        if rng.chance(1, 2):
            t = rng.choice(["#" + t, "*#" + t[1:]])
        return t
    return rng.choice(NAMES)


def chain_dims(rng):
    """one annotation in which later symbolic axes use names that are first bound BETWEEN two symbolic axes of the same
    annotation (`a a+1 b a+b`): each symbolic axis must see the bindings made so far in the same walk"""
    x, y = rng.shuffle(NAMES)[:2]
    f = rng.choice([f"{x}+1", f"2*{x}", f"{x}*{x}", f"{x}+0"])
    g = rng.choice([f"{y}+1", f"{x}+{y}", f"{x}*{y}", f"2*{y}", f"{y}-{x}+{x}"])
    toks = [x, f, y, g]
    k = rng.below(6)
    if k == 0:
        toks.insert(2, rng.choice(["_", "3", "..."]))
    elif k == 1:
        toks.insert(0, rng.choice(["*v", "_", "2"]))
    elif k == 2:
        toks.append(rng.choice([f"{x}+{y}", "*v", "..."]))
    elif k == 3:
        toks = [x, f, "#" + y, g]
    return " ".join(toks)


def rand_dims(rng, max_axes=5, holes=("n",), treepath=False):
    if max_axes >= 4 and not treepath and rng.chance(1, 12):
        return chain_dims(rng)
    n = rng.below(max_axes + 1)
    toks = []
    have_var = False
    for _ in range(n):
        t = rand_token(rng, allow_variadic=not have_var, holes=holes, treepath=treepath)
        if t == "..." or t.lstrip("#?_").startswith("*") or t in ("*_",):
            have_var = True
        toks.append(t)
    return " ".join(toks)


def rand_shape_for(rng, dims: str, alpha: dict, valpha: dict, max_size=4, mutate=True):
    """A shape that matches `dims` under the hidden assignment (mostly), for mostly-valid inputs."""
    toks = dims.split()
    shape = []
    for t in toks:
        base = t
        # strip doc prefix
        if base.count("=") == 1:
            pre, post = base.split("=")
            base = "".join(ch for ch in pre if ch in "#*_?") + post
        mods = ""
        while base and base[0] in "#*_?":
            mods += base[0]
            base = base[1:]
        if t == "...":
            shape.extend(rng.below(max_size + 1) for _ in range(rng.below(3)))
        elif "*" in mods:
            if "_" in mods or base not in valpha:
                shape.extend(rng.below(max_size + 1) for _ in range(rng.below(3)))
            else:
                v = list(valpha[base])
                if "#" in mods and rng.chance(1, 2):
                    # something that broadcasts to v
                    k = rng.below(len(v) + 1)
                    v = v[len(v) - k:]
                    v = [1 if rng.chance(1, 3) else s for s in v]
                shape.extend(v)
        elif "_" in mods:
            shape.append(rng.below(max_size + 1))
        elif re.fullmatch(r"[A-Za-z_][A-Za-z0-9_]*", base or "x"):
            s = alpha.get(base, rng.below(max_size + 1))
            if "#" in mods and rng.chance(1, 3):
                s = 1
            shape.append(s)
        elif re.fullmatch(r"[+-]?[0-9]+", base):
            s = max(0, int(base))
            if "#" in mods and rng.chance(1, 3):
                s = 1
            shape.append(s)
        else:
            # symbolic: try to evaluate under alpha
            try:
                env = dict(alpha)
                s = eval(re.sub(r"\{([A-Za-z_]\w*)\}", lambda m: str(alpha.get("{" + m.group(1) + "}", 2)), base), {"__builtins__": {}}, env)
                s = int(s)
                if s < 0:
                    s = rng.below(max_size + 1)
            except Exception:
                s = rng.below(max_size + 1)
            if "#" in mods and rng.chance(1, 3):
                s = 1
            shape.append(s)
    if mutate and rng.chance(1, 4):
        k = rng.below(4)
        if k == 0 and shape:
            i = rng.below(len(shape))
            shape[i] = rng.below(max_size + 1)
        elif k == 1 and shape:
            del shape[rng.below(len(shape))]
        elif k == 2:
            shape.insert(rng.below(len(shape) + 1), rng.below(max_size + 1))
        elif shape:
            i = rng.below(len(shape))
            shape[i] = 1
    return shape


def rand_history(rng, length, max_axes=5, max_size=4, holes=None):
    holes = holes if holes is not None else {"n": rng.below(4), "m": rng.below(4)}
    alpha = {nm: rng.below(max_size + 1) for nm in NAMES}
    for k, v in holes.items():
        if isinstance(v, int):
            alpha["{" + k + "}"] = v
    valpha = {nm: [rng.below(max_size + 1) for _ in range(rng.below(3))] for nm in VNAMES}
    ops = []
    for _ in range(length):
        dims = rand_dims(rng, max_axes=max_axes, holes=tuple(holes) or ("n",))
        shape = rand_shape_for(rng, dims, alpha, valpha, max_size=max_size)
        op = {"dims": dims, "shape": shape}
        if len(dims.split()) >= 2 and rng.chance(1, 6):
            # written as a nested annotation (outer axes first): the implementation builds it nested, the model is flat
            op["split"] = rng.rng(1, len(dims.split()) - 1)
        r = rng.below(40)
        if r == 0:
            op["isinst"] = False
        elif r == 1:
            op["dtypeok"] = False
        ops.append(op)
    return ops, holes
