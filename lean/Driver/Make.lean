/- driver commands for the annotation-building / pickling model (C15 / C20) -/
import Lean.Data.Json
import Driver.Codec
import JaxVerif.Model.Make

open Lean JV

namespace Drv

def pdimJ : PDim → Json
  | .anon => jarr [jstr "anon"]
  | .anonVar => jarr [jstr "anonvar"]
  | .named x b tp => jarr [jstr "named", jstr (String.ofList x), Json.bool b, Json.bool tp]
  | .namedVar x b tp => jarr [jstr "namedvar", jstr (String.ofList x), Json.bool b, Json.bool tp]
  | .fixed k b => jarr [jstr "fixed", jint k, Json.bool b]
  | .sym src b => jarr [jstr "sym", jstr (String.ofList src), Json.bool b]

def dtypesJ : DtypeSpec → Json
  | .any => Json.null
  | .names l => jarr (l.map jstr)

def scalarOfStr (s : String) : Except String ScalarTy :=
  match s with
  | "bool" => .ok .pyBool | "int" => .ok .pyInt | "float" => .ok .pyFloat | "complex" => .ok .pyComplex
  | "np.bool_" => .ok .npBool | "np.generic" => .ok .npGeneric | "np.number" => .ok .npNumber
  | _ => .error s!"bad scalar {s}"

def scalarStr : ScalarTy → String
  | .pyBool => "bool" | .pyInt => "int" | .pyFloat => "float" | .pyComplex => "complex"
  | .npBool => "np.bool_" | .npGeneric => "np.generic" | .npNumber => "np.number"

def parseCat (j : Json) : Except String Category := do
  let name ← getStr j "name"
  let dt : DtypeSpec ← match getOpt j "dtypes" with
    | none => pure .any
    | some d => do pure (.names (← (← d.getArr?).toList.mapM (·.getStr?)))
  return ⟨name, dt⟩

def madeJ (m : Made) : Json :=
  Json.mkObj [("k", jstr "made"), ("cat", jstr m.cat.name), ("at", jstr m.arrayType),
    ("dimstr", jstr (String.ofList m.dimStr)), ("dtypes", dtypesJ m.dtypes),
    ("dims", jarr (m.dims.map pdimJ)), ("iv", match m.iv with | none => Json.null | some i => jnat i)]

def altJ : Alt → Json
  | .made m => madeJ m
  | .scalar s => Json.mkObj [("k", jstr "scalar"), ("s", jstr (scalarStr s))]

def getOutJ : GetOut → Json
  | .valueError => Json.mkObj [("r", jstr "VAL")]
  | .alts l => Json.mkObj [("r", jstr "ok"), ("alts", jarr (l.map altJ))]

mutual
/-- an atom; a nested annotation is given by the request that builds it -/
partial def parseAtom (j : Json) : Except String Atom := do
  match ← getStr j "k" with
  | "cls" => return .cls (← getStr j "name")
  | "any" => return .any
  | "scalar" => return .scalar (← scalarOfStr (← getStr j "s"))
  | "made" =>
    match ← evalGetitem j with
    | .alts [.made m] => return .made m
    | _ => throw "SKIP:inner annotation is not a single made annotation"
  | k => throw s!"bad atom {k}"

partial def parseATy (j : Json) : Except String ATy := do
  match ← getStr j "k" with
  | "union" => return .union (← (← getArr j "as").mapM parseAtom)
  | "tvbound" => return .tvBoundAtom (← parseAtom (← j.getObjVal? "a"))
  | "tvboundunion" => return .tvBoundUnion (← (← getArr j "as").mapM parseAtom)
  | "tvconstr" => return .tvConstr (← (← getArr j "as").mapM parseAtom)
  | "tvfree" => return .tvFree
  | _ => return .atom (← parseAtom j)

/-- `{cat, aty, dims}` -> `cat[aty, dims]` -/
partial def evalGetitem (j : Json) : Except String GetOut := do
  let cat ← parseCat (← j.getObjVal? "cat")
  let t ← parseATy (← j.getObjVal? "aty")
  let s ← getStr j "dims"
  return getitem cat t s.toList
end

def cmdGetitem (j : Json) : Except String Json := do
  return getOutJ (← evalGetitem j)

/-- build the annotation, reduce it, rebuild it -/
def cmdPickle (j : Json) : Except String Json := do
  match ← evalGetitem j with
  | .alts [.made m] =>
    let r := rebuild (reduce (getBoolD j "carries" true) m)
    return Json.mkObj [("orig", madeJ m), ("back", getOutJ r)]
  | o => return Json.mkObj [("orig", getOutJ o), ("back", Json.null)]

end Drv
