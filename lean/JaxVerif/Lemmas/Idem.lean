/-
Idempotence of accepted checks beyond single arrays: sequences of array checks (whole calls) and
PyTrees of arrays (C04).
-/
import JaxVerif.Lemmas.Errors
import JaxVerif.Lemmas.Trees
import JaxVerif.Lemmas.Treepath

namespace JV

/-- along an accepted sequence every check that was stable stays stable, and every check of the
    sequence is stable at the end -/
theorem checkSeq_stable_all (c : Catch) (tp : TreePath) : ∀ (l : List (Ann × ArrObj)) (m m' : Memo),
    checkSeq c tp l m = (.T, m') →
      (∀ q, Stable c tp m q → Stable c tp m' q) ∧ (∀ p ∈ l, Stable c tp m' p)
  | [], m, m', h => by
    simp only [checkSeq, Prod.mk.injEq, true_and] at h
    subst h
    exact ⟨fun _ hq => hq, fun _ hp => by cases hp⟩
  | (a, o) :: rest, m, m', h => by
    simp only [checkSeq] at h
    cases hi : instancecheck c false tp a o m with
    | mk v m1 =>
      rw [hi] at h
      cases v with
      | T =>
        dsimp only at h
        obtain ⟨ih1, ih2⟩ := checkSeq_stable_all c tp rest m1 m' h
        refine ⟨fun q hq => ih1 q (Stable_step c tp a o m m1 hi q hq), fun p hp => ?_⟩
        rcases List.mem_cons.mp hp with rfl | hp
        · exact ih1 _ (Stable_self c tp a o m m1 hi)
        · exact ih2 p hp
      | F => simp at h
      | ANN => simp at h
      | EXC e => simp at h

theorem checkSeq_of_stable (c : Catch) (tp : TreePath) (m : Memo) : ∀ (l : List (Ann × ArrObj)),
    (∀ p ∈ l, Stable c tp m p) → checkSeq c tp l m = (.T, m)
  | [], _ => rfl
  | (a, o) :: rest, h => by
    have h1 : instancecheck c false tp a o m = (.T, m) := h (a, o) (List.mem_cons_self ..)
    simp only [checkSeq, h1]
    exact checkSeq_of_stable c tp m rest (fun p hp => h p (List.mem_cons_of_mem _ hp))

/-- **a whole accepted pass is idempotent**: checking the same values again, in the memo the first
    pass produced, accepts again and changes nothing -/
theorem checkSeq_idempotent (c : Catch) (tp : TreePath) (l : List (Ann × ArrObj)) (m m' : Memo)
    (h : checkSeq c tp l m = (.T, m')) : checkSeq c tp l m' = (.T, m') :=
  checkSeq_of_stable c tp m' l (checkSeq_stable_all c tp l m m' h).2

end JV
