"""C19 — disabling checks makes decorated code behave exactly like plain code."""
import itertools
import json
import os
import subprocess
import typing

import beartype
import typeguard

import extract
import gen_prog
import impl
import impl_prog
import jaxtyping
from common import PY, REPO, Rng, scratch_dir
from gen_prog import arr_type, arr_val
from impl import Duck
from jaxtyping import Float, TypeCheckError, jaxtyped

LEVEL = "proof"
THEOREMS = [
    "C19_parse",
    "C19_any_case",
    "C19_update",
    "C19_disabled_equiv",
    "C19_toggle",
    "C19_generated_good",
    "C19_late_test_differs",
    "C19_source_disabled",
    "C19_source_parse",
    "C19_source_update",
]
RULE = (
    "a module loaded through the import hook in four fresh interpreters sharing one __pycache__ (imported with "
    "checking off / on, toggled afterwards, ill- and well-typed calls of a function and a method); "
    "switch spellings: every case variant of 0/1/true/false (50), booleans, 40 junk values and objects, "
    "for both switches and for item names in any case plus unknown items, compared with the model; the "
    "JAXTYPING_DISABLE environment variable in fresh interpreters; decorated callables of every kind "
    "(function, method, classmethod, staticmethod, property, dataclass __init__, lambda) x {typeguard, "
    "beartype} x {flag toggled before / after decoration, no_type_check above / below the decorator} x "
    "well- and ill-typed and non-binding argument lists, each compared with the undecorated callable "
    "(result identity, exception class, call count, bindings seen by the body); programs with toggling "
    "compared with the model; non-trivial = an ill-typed call or a toggling history; distinct by case"
)
TRUSTED = [
    "Lean 4 kernel",
    "harness/extract.py: recognition of the early-return test in wrapped_fn",
    "ASCII-only model of str.lower()",
    "harness/translate_wrap.py (recognisers of the statements of the jaxtyped wrappers, _JaxtypingContext and _get_problem_arg) and the interpreters Model/WrapDsl.lean / Model/BlameDsl.lean (the typechecker passes, the one-parameter checker and message-text statements are primitives)",
    "harness/translate_config.py (recognisers of the statements of _maybestr2bool / config.update) and the interpreter Model/ConfigDsl.lean (str.lower on ASCII = lowerStr)",
]


def case_variants(word):
    return {"".join(c) for c in itertools.product(*[(ch.lower(), ch.upper()) for ch in word])}


def spelling_values():
    vals = []
    for w in ("0", "1", "true", "false"):
        vals.extend(sorted(case_variants(w)))
    vals += [True, False]
    junk = ["", " ", "yes", "no", "2", "-1", "tru", "truee", " true", "true ", "TRUE\n", "t", "f", "on", "off", "none", "None", "01", "1.0", "0.0",
            "fa lse", "fal\x00se", "ｔｒｕｅ", 0, 1, 2, None, 1.0, 0.0, b"1", b"true", [], (), object, "True1", "FALSE0", "İ", "ſ", "falſe", "FALſE", "１", "０", "tr\u016be", "ｆalse"]

    class BadRepr:
        def __repr__(self):
            raise RuntimeError("repr")

        __str__ = __repr__

    # values that misbehave when an error message is BUILT from them (tuples under `%`, mappings under `.format_map`, a raising repr)
    junk += [(0, 1), ("true", "false"), ("1",), {"k": 1}, frozenset(), bytearray(b"1"), range(2), 1 + 2j, BadRepr()]
    return vals, junk


def to_model_val(v):
    if isinstance(v, bool):
        return v
    if isinstance(v, str):
        return v
    return None


def rp(v):
    try:
        return repr(v)
    except BaseException:  # noqa: BLE001
        return f"<{type(v).__name__} object whose repr raises>"


def config_cases(out, drv):
    vals, junk = spelling_values()
    cfg = jaxtyping.config
    items = ["jaxtyping_disable", "JAXTYPING_DISABLE", "Jaxtyping_Disable", "jaxtyping_remove_typechecker_stack",
             "JAXTYPING_REMOVE_TYPECHECKER_STACK", "jaxtyping_disabled", "disable", "", "jaxtyping_disable ", "jaxtyping-disable"]
    for item in items:
        for v in vals + junk:
            before = (cfg.jaxtyping_disable, cfg.jaxtyping_remove_typechecker_stack)
            try:
                cfg.update(item, v)
                got = {"disable": cfg.jaxtyping_disable, "remove": cfg.jaxtyping_remove_typechecker_stack}
            except ValueError:
                got = "VAL"
            except BaseException as e:  # noqa: BLE001
                got = "OTHER:" + type(e).__name__
            finally:
                # through the public route only: how the values are stored is the library's business
                cfg.update("jaxtyping_disable", before[0])
                cfg.update("jaxtyping_remove_typechecker_stack", before[1])
            ascii_ok = not isinstance(v, str) or v.isascii()
            out.case(("cfg", item, rp(v)), item.lower().startswith("jaxtyping_"), sample={"item": item, "value": rp(v), "observed": got})
            if not (ascii_ok and item.isascii()):
                out.count("non_ascii")
                if isinstance(got, str) and got.startswith("OTHER"):
                    out.violation(f"config:{got}", f"config.update({item!r}, {rp(v)}) raised {got}", {"item": item, "value": rp(v)})
                elif item.isascii() and item.lower() in ("jaxtyping_disable", "jaxtyping_remove_typechecker_stack") and got != "VAL":
                    # a letter or digit outside ASCII is not another CASE of an ASCII one (long s, fullwidth forms, ...): not one of 0/1/true/false
                    out.violation("config:non-ascii:accept", f"config.update({item!r}, {rp(v)}) was accepted ({got}); {rp(v)} is not 0/1/true/false in any case, it must be rejected with ValueError",
                                  {"item": item, "value": rp(v), "observed": got, "required": "VAL"})
                continue
            w = drv.ask({"cmd": "cfg", "item": item, "val": to_model_val(v), "disable0": before[0], "remove0": before[1]})
            if got != w:
                out.violation(f"config:{item.lower()[:40]}:{'accept' if w != 'VAL' else 'reject'}",
                              f"config.update({item!r}, {rp(v)}) gave {got} but must give {w}", {"item": item, "value": rp(v), "observed": got, "required": w})


def env_cases(out, thorough):
    env_then_update_cases(out)
    thread_cases(out)
    spellings = ["1", "true", "TRUE", "0", "False", "yes", ""] if not thorough else ["1", "true", "TRUE", "tRuE", "0", "false", "False", "FALSE", "yes", "", "2", " 1"]
    code = (
        "import sys\n"
        f"sys.path.insert(0, {REPO!r})\n"
        "try:\n"
        "    import jaxtyping\n"
        "    print('FLAG', jaxtyping.config.jaxtyping_disable)\n"
        "except ValueError:\n"
        "    print('FLAG VAL')\n"
    )
    for sp in spellings:
        env = dict(os.environ, JAXTYPING_DISABLE=sp)
        p = subprocess.run([PY, "-c", code], env=env, capture_output=True, text=True, timeout=120)
        line = next((l for l in p.stdout.splitlines() if l.startswith("FLAG")), "FLAG ?" + p.stderr[-200:])
        got = line.split(" ", 1)[1]
        want = {"1": "True", "true": "True", "0": "False", "false": "False"}.get(sp.lower(), "VAL")
        out.case(("env", sp), True, sample={"JAXTYPING_DISABLE": sp, "observed": got})
        if got != want:
            out.violation(f"env:{sp!r}", f"JAXTYPING_DISABLE={sp!r} gives {got}, must give {want}", {"env": sp, "observed": got})


ENV_THEN_UPDATE = r"""
import sys
sys.path.insert(0, sys.argv[1])
import json
import jaxtyping, typeguard
from jaxtyping import Float, config, jaxtyped
class A:
    def __init__(self, shape): self.shape, self.dtype = shape, "float32"
@jaxtyped(typechecker=typeguard.typechecked)
def f(x: Float[A, "3"]): return "ran"
def probe():
    try:
        return f(A((4,)))
    except jaxtyping.TypeCheckError:
        return "tce"
res = [["start", bool(config.jaxtyping_disable), probe()]]
for v in json.loads(sys.argv[2]):
    config.update("jaxtyping_disable", v)
    res.append([v, bool(config.jaxtyping_disable), probe()])
print("RES " + json.dumps(res))
"""


def env_then_update_cases(out):
    """the environment variable only sets the switch's INITIAL value: later `config.update` calls decide, in both directions"""
    for env_val, updates in (("1", [False, True, "0", "TRUE", False]), ("true", ["false"]), ("0", [True, False]), ("TRUE", [False, False, "1"])):
        env = dict(os.environ, JAXTYPING_DISABLE=env_val)
        p = subprocess.run([PY, "-c", ENV_THEN_UPDATE, REPO, json.dumps(updates)], env=env, capture_output=True, text=True, timeout=300)
        line = next((l for l in p.stdout.splitlines() if l.startswith("RES ")), None)
        out.case(("env-then-update", env_val, json.dumps(updates)), True, sample={"JAXTYPING_DISABLE": env_val, "updates": updates, "observed": line})
        if line is None:
            out.violation("env-then-update:failed", f"JAXTYPING_DISABLE={env_val} then updates {updates}: the interpreter failed: {p.stderr[-300:]}", {"env": env_val, "updates": updates})
            continue
        res = json.loads(line[4:])
        truth = lambda v: str(v).lower() in ("1", "true")  # noqa: E731
        want = [["start", truth(env_val), "ran" if truth(env_val) else "tce"]] + [[v, truth(v), "ran" if truth(v) else "tce"] for v in updates]
        if res != want:
            k = next(i for i, (a, b) in enumerate(zip(res, want)) if a != b)
            out.violation("env-then-update", f"JAXTYPING_DISABLE={env_val}, then config.update('jaxtyping_disable', …) with {updates}: after step {k} the switch reads {res[k][1]} and an "
                          f"ill-typed call gives {res[k][2]!r}; it must read {want[k][1]} and give {want[k][2]!r}", {"env": env_val, "updates": updates, "observed": res})


def thread_cases(out):
    """the switch is one process-wide setting: a `config.update` is seen by threads started later, and it is not undone by
    another thread that happens to be in the middle of reporting a type error (its argument's __repr__ parked) meanwhile"""
    import threading

    import typeguard
    from jaxtyping import Float, jaxtyped

    class A:
        def __init__(self, shape, gate=None):
            self.shape, self.dtype, self.gate = shape, "float32", gate

        def __repr__(self):
            if self.gate is not None:
                self.gate[0].set()
                self.gate[1].wait(30)
            return f"A{self.shape}"

    @jaxtyped(typechecker=typeguard.typechecked)
    def f(x: Float[A, "3"]):
        return "ran"

    def call(x):
        try:
            return f(x)
        except jaxtyping.TypeCheckError:
            return "tce"

    cfg = jaxtyping.config
    try:
        # (1) updated here, used in a thread started afterwards
        cfg.update("jaxtyping_disable", True)
        box = {}
        t = threading.Thread(target=lambda: box.update(v=call(A((4,))), flag=bool(cfg.jaxtyping_disable)))
        t.start()
        t.join(30)
        cfg.update("jaxtyping_disable", False)
        t2 = threading.Thread(target=lambda: box.update(v2=call(A((4,)))))
        t2.start()
        t2.join(30)
        out.case(("threads", "visibility"), True, sample=dict(box))
        if box != {"v": "ran", "flag": True, "v2": "tce"}:
            out.violation("threads:visibility", f"config.update('jaxtyping_disable', True) in the main thread, then an ill-typed call in a NEW thread: {box}; "
                          "must be ran / True, and 'tce' again after switching back on", {"threads": "visibility"})
        # (2) switched off while another thread is formatting a type error
        gate = (threading.Event(), threading.Event())
        box = {}
        w = threading.Thread(target=lambda: box.update(worker=call(A((4,), gate))))
        w.start()
        inside = gate[0].wait(10)
        cfg.update("jaxtyping_disable", True)
        gate[1].set()
        w.join(30)
        box.update(inside=inside, flag=bool(cfg.jaxtyping_disable), after=[call(A((4,))), call(A((5,)))])
        cfg.update("jaxtyping_disable", False)
        box["back_on"] = call(A((4,)))
        out.case(("threads", "update-during-error-report"), True, sample=dict(box))
        if box != {"worker": "tce", "inside": True, "flag": True, "after": ["ran", "ran"], "back_on": "tce"}:
            out.violation("threads:update-lost", f"checking was switched off while another thread was reporting a type error: {box}; the switch must stay off "
                          "(flag True, later ill-typed calls run) until it is switched back on", {"threads": "update-during-error-report"})
    finally:
        cfg.update("jaxtyping_disable", False)


HOOKED_CHILD = r"""
import json, os, sys
sys.path.insert(0, sys.argv[2]); sys.path.insert(0, sys.argv[1])
import jaxtyping
from jaxtyping import config, install_import_hook
res = {}
def call(tag, fn, *a):
    try:
        res[tag] = ["ret", repr(fn(*a))]
    except jaxtyping.TypeCheckError:
        res[tag] = ["tce", None]
    except BaseException as e:
        res[tag] = ["raise", type(e).__name__]
res["flag_at_import"] = bool(config.jaxtyping_disable)
tc_name = sys.argv[4] if len(sys.argv) > 4 else "typeguard.typechecked"
with install_import_hook("c19_hooked", None if tc_name == "None" else tc_name):
    import c19_hooked as m
import numpy as np
def arity(fn):
    try:
        fn(1)
        return "no error"
    except TypeError as e:
        return "plain message" if "missing 1 required positional argument" in str(e) else "other message: " + str(e)[:60]
for step in sys.argv[3].split(","):
    if step == "off":
        config.update("jaxtyping_disable", True)
    elif step == "on":
        config.update("jaxtyping_disable", False)
    else:
        call(step + ":ill-typed", m.double, "ab")
        call(step + ":well-typed", m.double, 4)
        call(step + ":method", m.K().twice, "ab")
        call(step + ":shared-context", m.same_len, np.zeros(3, np.float32), np.zeros(4, np.float32))
        res[step + ":arity"] = ["ret", arity(m.two_args)]
print("RESULT " + json.dumps(res))
"""


def hooked_module_cases(out):
    """a module loaded through the import hook: imported while checking is off / on, toggled afterwards, and
    loaded again by later interpreters that share its __pycache__ (bytecode writing enabled)"""
    with scratch_dir("jaxverif_c19_") as root:
        with open(os.path.join(root, "c19_hooked.py"), "w") as fh:
            fh.write("import numpy as np\nfrom jaxtyping import Float\ndef double(x: int) -> int:\n    return x * 2\nclass K:\n    def twice(self, x: int) -> int:\n        return x + x\n"
                     "def same_len(a, b):\n    return isinstance(a, Float[np.ndarray, 'n']) and isinstance(b, Float[np.ndarray, 'n'])\ndef two_args(x, y):\n    return x\n")
        plain = {"ill-typed": ["ret", repr("abab")], "well-typed": ["ret", "8"], "method": ["ret", repr("abab")], "shared-context": ["ret", "True"], "arity": ["ret", "plain message"]}
        checked = {"ill-typed": ["tce", None], "well-typed": ["ret", "8"], "method": ["tce", None], "shared-context": ["ret", "False"]}
        # hooked with typechecker=None: no type errors, but the calls run in a binding context
        ctx_only = {"ill-typed": ["ret", repr("abab")], "well-typed": ["ret", "8"], "shared-context": ["ret", "False"]}
        # (environment value, steps, expectation per probe step)
        runs = [
            ("TRUE", "p1,on,p2,off,p3", {"p1": plain, "p2": checked, "p3": plain}),
            (None, "p1,off,p2,on,p3", {"p1": checked, "p2": plain, "p3": checked}),
            ("0", "p1", {"p1": checked}),
            ("1", "p1,on,p2", {"p1": plain, "p2": checked}),
            ("1", "p1,on,p2,off,p3", {"p1": plain, "p2": ctx_only, "p3": plain}, "None"),
            (None, "p1,off,p2", {"p1": ctx_only, "p2": plain}, "None"),
        ]
        for envval, steps, want, *tcn in runs:
            env = {k: v for k, v in os.environ.items() if k not in ("JAXTYPING_DISABLE", "PYTHONDONTWRITEBYTECODE")}
            if envval is not None:
                env["JAXTYPING_DISABLE"] = envval
            p = subprocess.run([PY, "-c", HOOKED_CHILD, root, REPO, steps] + tcn, env=env, capture_output=True, text=True, timeout=300, cwd=root)
            line = next((l for l in p.stdout.splitlines() if l.startswith("RESULT ")), None)
            out.case(("hooked-module", envval, steps), True, sample={"JAXTYPING_DISABLE": envval, "steps": steps, "result": line})
            if line is None:
                out.violation(f"hooked-module:{envval}:crash", f"a hooked module could not be exercised with JAXTYPING_DISABLE={envval!r}: {p.stderr[-400:]}", {"hooked": True, "env": envval, "steps": steps})
                continue
            res = json.loads(line[7:])
            for step, exp in want.items():
                for probe, w in exp.items():
                    g = res.get(f"{step}:{probe}")
                    if g != w:
                        state = "off" if exp is plain else "on"
                        envval = f"{envval} (hook typechecker: {tcn[0]})" if tcn else envval
                        out.violation(f"hooked-module:{state}:{probe}",
                                      f"hooked module, JAXTYPING_DISABLE={envval!r}, steps {steps} (shared __pycache__ with the earlier runs): at {step} checking is {state}, "
                                      f"so the {probe} call must give {w} but gives {g}", {"hooked": True, "env": envval, "steps": steps, "observed": res})
                        break


# ----------------------------------------------------------------------------- behaviour


class Probe:
    """the undecorated code: records calls, the bindings it sees, returns a fixed object / raises"""

    def __init__(self):
        self.calls = []

    def body(self, *args, **kwargs):
        self.calls.append((tuple(id(a) for a in args), tuple(sorted((k, id(v)) for k, v in kwargs.items())), impl.canon_bindings(impl.bindings())))


def make_callables(tc, probe, result, raises):
    """returns list of (kind, plain_callable, decorated_callable_factory) where each takes (x, y)"""
    X = Float[Duck, "a b"]
    Y = Float[Duck, "b c"]
    R = Float[Duck, "a c"]

    def mk():
        def f(x: X, y: Y) -> R:
            probe.body(x, y)
            if raises:
                raise raises("body")
            return result
        return f

    out = []
    out.append(("function", mk(), lambda deco: deco(mk())))

    def method_pair(deco, which=None):
        class C:
            def m(self, x: X, y: Y) -> R:
                probe.body(x, y)
                if raises:
                    raise raises("body")
                return result
            if deco and which == "m":
                m = deco(m)

            @classmethod
            def cm(cls, x: X, y: Y) -> R:
                probe.body(x, y)
                if raises:
                    raise raises("body")
                return result

            @staticmethod
            def sm(x: X, y: Y) -> R:
                probe.body(x, y)
                if raises:
                    raise raises("body")
                return result

            def _get(self) -> R:
                probe.body()
                if raises:
                    raise raises("body")
                return result
            prop = property(_get)
            if deco and which == "cm":
                cm = deco(cm)
            if deco and which == "sm":
                sm = deco(sm)
            if deco and which == "prop":
                prop = deco(prop)
        return C

    for nm in ("m", "cm", "sm"):
        out.append((
            {"m": "method", "cm": "classmethod", "sm": "staticmethod"}[nm],
            (lambda nm: lambda x, y: getattr(method_pair(None)(), nm)(x, y))(nm),
            (lambda nm: lambda deco: (lambda C: lambda x, y: getattr(C(), nm)(x, y))(method_pair(deco, nm)))(nm),
        ))
    out.append(("property", lambda x, y: method_pair(None)().prop, lambda deco: (lambda C: lambda x, y: C().prop)(method_pair(deco, "prop"))))
    return out


def run_one(fn, args):
    try:
        return ("ret", id(fn(*args)))
    except TypeCheckError:
        return ("tce", None)
    except BaseException as e:  # noqa: BLE001
        if isinstance(e, (SystemExit, KeyboardInterrupt)):
            raise
        return ("raise", type(e).__name__)


def behaviour_cases(out, rng, thorough):
    cfg = jaxtyping.config
    good = (Duck((2, 3), "float32"), Duck((3, 4), "float32"))
    bad_args = [(Duck((2, 3), "float32"), Duck((9, 4), "float32")), (Duck((2, 3), "int32"), Duck((3, 4), "float32")), ("str", 3)]
    results = [Duck((2, 4), "float32"), Duck((7, 7), "float32"), None]
    for ck, tc in (("typeguard", typeguard.typechecked), ("beartype", beartype.beartype)):
        for result in results:
            for raises in (None, impl.UserExc, impl.UserBaseExc):
                if raises and result is not results[0]:
                    continue
                probe_plain, probe_dec = Probe(), Probe()
                plain = make_callables(tc, probe_plain, result, raises)
                deco_fn = jaxtyped(typechecker=tc)
                switches = {
                    "flag-before-decoration": (lambda d: d, True),
                    "flag-after-decoration": (lambda d: d, True),
                    "no_type_check-above": (lambda d: (lambda f: typing.no_type_check(d(f))), False),
                    "no_type_check-below": (lambda d: (lambda f: d(typing.no_type_check(f))), False),
                }
                for sw, (wrapdeco, uses_flag) in switches.items():
                    for (kind, pf, _), (_, _, mkdec) in zip(plain, make_callables(tc, probe_dec, result, raises)):
                        if not uses_flag and kind in ("classmethod", "staticmethod", "property"):
                            continue  # no_type_check on a descriptor object: DESIGN §6, no claim
                        try:
                            if sw == "flag-before-decoration":
                                cfg.update("jaxtyping_disable", True)
                            df = mkdec(wrapdeco(deco_fn))
                            if uses_flag:
                                cfg.update("jaxtyping_disable", True)
                            for args in [good] + bad_args:
                                probe_plain.calls.clear()
                                probe_dec.calls.clear()
                                with jaxtyped("context"):
                                    isinstance(Duck((5,), "float32"), Float[Duck, "marker"])
                                    a = run_one(pf, args)
                                    b = run_one(df, args)
                                out.case(("behaviour", ck, sw, kind, repr(result), str(raises), str(args)), args is not good,
                                         sample={"checker": ck, "switch": sw, "kind": kind, "args": str(args)[:80], "plain": a[0], "decorated": b[0]})
                                rep = {"checker": ck, "switch": sw, "kind": kind, "args": str(args), "plain": a, "decorated": b}
                                if a != b:
                                    out.violation(f"disabled-differs:{sw}:{kind}:{a[0]}->{b[0]}", f"with checking off ({sw}) the {kind} behaves differently from the plain code: plain {a}, decorated {b}", rep)
                                elif probe_plain.calls != probe_dec.calls and [c[2] for c in probe_plain.calls] != [c[2] for c in probe_dec.calls]:
                                    out.violation(f"disabled-context:{sw}:{kind}", f"with checking off the body saw bindings {[c[2] for c in probe_dec.calls]} instead of {[c[2] for c in probe_plain.calls]}", rep)
                                elif len(probe_plain.calls) != len(probe_dec.calls):
                                    out.violation(f"disabled-callcount:{sw}:{kind}", f"body ran {len(probe_dec.calls)} times instead of {len(probe_plain.calls)}", rep)
                            if uses_flag:
                                # switching back on restores checking without re-decoration
                                cfg.update("jaxtyping_disable", False)
                                r = run_one(df, bad_args[0])
                                out.case(("reenable", ck, sw, kind), True)
                                if kind != "property" and r[0] != "tce":
                                    out.violation(f"reenable:{sw}:{kind}", f"after switching checking back on an ill-typed call gives {r} instead of a TypeCheckError", {"checker": ck, "switch": sw, "kind": kind})
                        finally:
                            cfg.update("jaxtyping_disable", False)


def no_type_check_carrier_cases(out):
    """where the `no_type_check` mark can sit when it is "below the decorator": on the function object at decoration time,
    on the function object only LATER (the wrapper keeps a reference to the function, not a copy of its attributes), and on
    the CLASS of a callable object (the instance has no such attribute of its own)"""
    X = Float[Duck, "a b"]
    good, bad = (Duck((2, 3), "float32"),), (Duck((2,), "float32"),)
    for ck, tc in (("typeguard", typeguard.typechecked), ("beartype", beartype.beartype)):
        def mk():
            def f(x: X):
                return "ran"
            return f

        @typing.no_type_check
        class Marked:
            def __call__(self, x: X):
                return "ran"

        carriers = {}
        f1 = mk()
        g1 = jaxtyped(typechecker=tc)(f1)
        typing.no_type_check(f1)                       # marked after decoration
        carriers["function marked after decoration"] = (g1, "ran")
        try:
            carriers["callable object whose class is marked"] = (jaxtyped(typechecker=tc)(Marked()), "ran")
        except BaseException:  # noqa: BLE001
            out.count("callable_object_not_decoratable")     # no claim: whether such objects can be decorated at all is not in the statement
        carriers["function, no mark"] = (jaxtyped(typechecker=tc)(mk()), "tce")
        for name, (g, want_bad) in carriers.items():
            a, b = run_one(g, good), run_one(g, bad)
            got_bad = "ran" if b[0] == "ret" else b[0]
            out.case(("no_type_check-carrier", ck, name), True, sample={"checker": ck, "carrier": name, "well_typed": a[0], "ill_typed": b[0]})
            if a[0] != "ret" or got_bad != want_bad:
                out.violation(f"no_type_check-carrier:{ck}:{name}", f"{name} ({ck}): a well-typed call gives {a[0]}, an ill-typed one {b[0]}; must be ret and "
                              f"{'the plain behaviour (returns)' if want_bad == 'ran' else 'a TypeCheckError'}", {"carrier": name, "checker": ck})


def toggling_programs(out, drv, facts, rng, n):
    skel, wrap = extract.skel_request(facts)
    for _ in range(n):
        prog = []
        for _ in range(rng.rng(2, 6)):
            r = rng.below(4)
            if r == 0:
                prog.append({"op": "disable", "v": rng.chance(1, 2)})
            else:
                params = [{"name": "p0", "ty": arr_type("a b"), "val": arr_val([2, 3] if rng.chance(2, 3) else [2])},
                          {"name": "p1", "ty": arr_type("b"), "val": arr_val([3] if rng.chance(2, 3) else [4])}]
                prog.append({"op": "ctx", "body": [
                    {"op": "check", "l": arr_type("q"), "x": arr_val([7])},
                    {"op": "call", "kind": "new", "params": params, "ret": None, "bindok": not rng.chance(1, 8), "notc": rng.chance(1, 5),
                     "body": [{"op": "print"}], "exit": rng.choice(["ret", "ret", "exc"])},
                ], "exit": "ret"})
        w = drv.ask({"cmd": "prog", "prog": prog, "skel": skel, "wrap": wrap})
        got, _ = impl_prog.run_program(prog, "typeguard", rng)
        out.case(("toggle", json.dumps(prog, sort_keys=True)), True, sample={"program": prog})
        want = impl_prog.canon_model_obs(w["obs"])
        g2 = [o for o in got if o["o"] != "tcebindings"]
        w2 = [o for o in want if o["o"] != "tcebindings"]
        if g2 != w2:
            k = next((i for i, (a, b) in enumerate(zip(g2, w2)) if a != b), 0)
            out.violation("toggle:transcript", f"a program toggling the switch observes {g2[k:k+2]} where disabled-means-plain-code requires {w2[k:k+2]}", {"program": prog, "impl": g2, "model": w2})


def run(tier, seed, out, drv, facts):
    rng = Rng(seed, "C19")
    thorough = tier == "thorough"
    config_cases(out, drv)
    env_cases(out, thorough)
    behaviour_cases(out, rng, thorough)
    no_type_check_carrier_cases(out)
    hooked_module_cases(out)
    toggling_programs(out, drv, facts, rng, 20000 if thorough else 150)


def replay(rep, out, drv, facts):
    if rep.get("hooked"):
        hooked_module_cases(out)
        return
    run("quick", 0, out, drv, facts)
