import JaxVerif.Properties.C11

#print axioms JV.C11_dotted
#print axioms JV.C11_history
#print axioms JV.C11_loaded_stable
#print axioms JV.C11_uninstalled
#print axioms JV.C11_no_hook
#print axioms JV.C11_lookup
#print axioms JV.C11_generated_good
#print axioms JV.C11_source_should
#print axioms JV.C11_source_find_spec
