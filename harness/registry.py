"""Per-property metadata for MANIFEST.json. A property is listed under `checks` only when its
harness module (harness/cXX.py), Properties/CXX.lean and Audit/CXX.lean exist."""

COMMON_NOTE = (
    "Trusted: Lean 4.33 kernel (leanchecker re-check in the thorough tier); axioms limited to "
    "propext / Classical.choice / Quot.sound, audited by `#print axioms` on every run; no sorry, "
    "native_decide, bv_decide or own axioms (grep on every run). The theorems are about a "
    "hand-written executable model; the tie to /repo is (T1) facts re-extracted from the current "
    "source into lean/JaxVerif/Generated/*.lean against which the theorems are re-checked, and "
    "(T2) a differential run of model and implementation on generated inputs. "
)

PROPS = {
    "C01": dict(
        text="Kernel-checked theorems that the model of _check_dims/_check_shape/__instancecheck_str__ accepts exactly the shapes the declarative dim-string semantics (Matches under one total assignment extending the context) accepts, for every dim list, shape, memo and history; the branch structure of _check_dims and of the multi-axis part of _check_shape is TRANSLATED from the current source on every run (harness/translate.py -> Generated/CheckCode.lean) and proved equal to the model's checkDim / vstep by scripts that survive meaning-preserving restructurings and fail on others; the index arithmetic of _check_shape (i, j = -(len(dims) - i - 1), 'if j == 0: j = None', the slices [:i] / [j:] / [i:j] under Python's slice rules, both rank tests) is translated as well and proved to take exactly the prefix / suffix / middle the model uses, for every number of axes, position of the multi-axis specifier and rank (C01_source_slices, C01_source_rank_tests, C01_source_slices_lists); both wrappers are read to push the arguments of bind(*args, **kwargs) after an unconditional apply_defaults(), so '{name}' axes see every parameter of the current call (C01_source_arguments); the model is tied to the code by an exhaustive small-scope plus random differential run of verdicts and print_bindings() on histories of checks.",
        note="Modelled not verified: numpy.broadcast_shapes (compared with JV.bcast on every run), eval of symbolic axes outside the integer fragment (+ - * // unary minus, {arg}), dict ordering.",
        technique="Lean 4 proof (greedy walk = satisfiability, induction over axes and histories; source-to-model translation re-proved equal to the model on every run) + differential correspondence",
        design="§4 C01",
    ),
    "C02": dict(
        text="Kernel-checked theorems that the sequential bind-or-compare walk over all annotated values of a call is satisfiability (one total assignment matches every value), hence invariant under permutation of the parameters and under the wrapper's re-check of the parameters; the wrapper's parameter pass is proved equal to that walk. Every generated call is run on the real code under {typeguard, beartype} x {new-style, old-style, dataclass} x 3 parameter orders x {positional, keyword, mixed}; all verdicts must equal the model's.",
        note="Trusted (validated on every run, not proved): typeguard 2.x and beartype call isinstance once per annotated parameter / return value inside the context and raise iff one answers False. Annotations with unions are outside the quantifier.",
        technique="Lean 4 proof (walk = satisfiability, List.Perm invariance) + cross-configuration differential run",
    ),
    "C03": dict(
        text="The quantifier is a finite table and is decided completely: `decide +kernel` proves, over the category table re-extracted from the current source and the dtype rows re-gathered from the installed numpy / ml_dtypes / jax / tensorflow, that every (dtype, category) cell agrees with the documented hierarchy, each precision class accepts exactly its dtype, the verdict is the same for every library carrying the same dtype, and the hierarchy identities hold for all names; the same cells are then evaluated on the real code (complete enumeration, incl. jit tracers, PRNG keys, structured dtypes, duck arrays, user categories with strings and regexes).",
        note="Trusted: harness/envrows.py (canonical name / kind of each dtype as the libraries report it), the hand transcription of docs/api/array.md into Spec/Dtype.lean, Python's re for regex categories. Dtypes no exported class names (float128, float8_e4m3, float4/6) are 'unspecified': no claim.",
        technique="Lean 4 proof by kernel evaluation of the regenerated finite table + complete enumeration on the implementation",
    ),
    "C04": dict(
        text="Kernel-checked theorems: an array check answering False / raising AnnotationError / raising any exception the handler covers returns the memo unchanged (wherever in the walk the mismatch is), the handler extracted from the current source covers BaseException and restores all four dictionaries, a passing array check is idempotent, and so are a whole accepted pass over several annotated values and an accepted PyTree-of-arrays check (stability of accepted checks under the bindings later checks add), and a PyTree check that does not answer True restores the memo whatever the leaf type; lifted to manual checks at any program point. On the real code: bindings before == after for every non-True check with the mismatch planted at every axis / leaf index and for raising variants (unbound symbolic / structure name, Exception and BaseException from {arg} formatting, custom flatteners, leaf __instancecheck__), and repetition of passing checks.",
        note="Idempotence is proved for array annotations, sequences of them and structure-less PyTrees of arrays; for PyTrees with structure names or non-array leaf types it is evaluated on the implementation only. Exceptions raised by isinstance(obj, array_type) itself happen before any binding.",
        technique="Lean 4 proof (rollback by case analysis of the walk; idempotence via stability of the walk under larger memos) + direct before/after evaluation",
    ),
    "C05": dict(
        text="Kernel-checked theorems, by mutual induction over all programs of nested calls (new-style, old-style, typechecker=None), context blocks, manual checks and exits by return / Exception / BaseException / non-binding call: the stack is balanced and every frame below the top unchanged; a block or context-opening call leaves the caller's stack exactly as it was; the callee's observations do not depend on the callers' bindings; top-level checks remember nothing; the wrapper skeleton extracted from the current source (pop in finally, bind before push, __exit__ pops always) is the good one and each fact is shown to matter. Random programs are run on the real code: caller's bindings and depth before/after every statement, transcript vs the model, generators / async generators / coroutines keep no context open.",
        note="Modelled: CPython try/finally and generator semantics; metadata of wrappers is C07.",
        technique="Lean 4 proof (invariant by mutual induction over programs, skeleton facts extracted from source) + program-level differential run",
    ),
    "C12": dict(
        text="Kernel-checked theorems: for every program and every fault (Exception or BaseException raised by user code at any call-out: argument formatting, custom flattener, leaf __instancecheck__, wrapped function) the flatten-mode flag and the '?'-leaf label are off afterwards (rest invariant, by mutual induction over leaf types / values / programs, given the two try/finally facts extracted from the source, each shown to matter); at rest the verdict is a function of value, annotation and the current frame only; the list of every piece of process-wide mutable state in jaxtyping/*.py outside _storage.py, regenerated from the source on every run, equals the twelve known entries, none of which can remember a check (C12_no_other_state). On the real code: fault enumeration over the catalogue x call-out points x 2 classes followed by the probe set and a peek at the thread-local storage, plus random histories of public-API operations followed by probes of a fixed annotation object, probes from other threads, re-use of one annotation object under other bindings, and pickling round trips of annotations that differ only in equal-comparing parts.",
        note="Known finding F2 (old-style decoration of a generator function makes the shared annotation object transparent) is reported as KNOWN-FINDING. Call-outs the model does not represent (array attribute access, array-type __instancecheck__, a raising typechecker) are evaluated on the implementation only.",
        technique="Lean 4 proof (rest invariant by mutual structural induction; skeleton facts from source) + fault enumeration",
    ),
    "C14": dict(
        text="Kernel-checked theorems about the model of the dim-string parser (total by construction: a value or ValueError): any two orderings of the same modifier characters parse identically unless one ends in '#'; '...' is '*_' in any position; leading / trailing / repeated whitespace only separates tokens; 'name=' prefixes are ignored; each documented illegal form is ValueError; concatenation law for nested annotations. On the real code: exhaustive over every token of <=4 modifier characters (all orders, with and without a 'd=' prefix at every position) x 5 bases, all sequences of <=2 tokens from a reduced set, random whitespace, non-string specifications, an exotic/Unicode totality stream; exception class and acceptance vectors compared with the model and within each order family. The body of the parsing loop of _make_array_cached is TRANSLATED statement by statement from the current source on every run (harness/translate.py -> Generated/ParserCode.lean, a small imperative language with if / while True / break / try-int / raise, Model/ParserDsl.lean) and proved, for every token, position and state of index_variadic, to compute exactly the model's parseTok step (same axis, same index, ValueError in the same cases, never another error): C14_source_loop_body, C14_source_parser, and for whole strings C14_source_spec - so the theorems above are statements about the code the source contains.",
        note="ASCII model; '*', '?' or 'x=' with an empty base, signed/underscored integers and symbolic garbage are the §6 zones (model mirrors the code, no claim).",
        technique="Lean 4 proof (permutation invariance of modifier stripping, whitespace splitting) + exhaustive token enumeration",
    ),
    "C06": dict(
        text="Kernel-checked theorems about a model of the three storage cells (context stack, '?'-leaf label, flatten-mode flag) under threads, each cell thread-local or process-global as read from the current _storage.py: with thread-local cells, for every family of thread programs (any number of threads; a step is an ARBITRARY function of the cells the running thread sees, so every granularity of preemption is covered), every initial world and EVERY schedule, what a thread observes - its cells, its position, its transcript of verdicts and bindings - is what it observes running alone for as many steps as the schedule gave it (induction over the schedule: frame + determinism); the cells read from the source today are all thread-local (decide); each cell matters (with any one process-global a two-thread schedule makes thread 0 read thread 1's write); the list of every other piece of process-wide mutable state in jaxtyping/*.py, regenerated from the source on every run (module-level containers, mutable class attributes, global statements, memoising decorators), equals the twelve known entries (value-keyed construction caches, constant tables, the hook's typechecker table, two write-once flags), so a new shared cell anywhere breaks an obligation. On the real code: 3 real threads under a deterministic settrace scheduler (no source hook), preemptible at every line of _storage.py (quick) or of every jaxtyping file (thorough); for every thread A and EVERY yield point p of A the other threads run to completion inside A's p-th point, plus seeded two-window and multi-segment schedules; workloads of context blocks, new/old-style calls, array checks, PyTree checks with '?' axes and structure names, custom nodes, rollbacks and leak-revealing probes; per-thread transcripts must equal the solo run, which must equal the Lean model's sequential prediction.",
        note="Partial: the theorem speaks about interleavings of steps over the modelled cells; CPython's threading.local implementation, the GIL, C extensions (jax.tree_util) and preemption between two bytecodes of one source line are not exhibited by the model nor exercised by the scheduler. Process-global state outside _storage.py is listed and compared with the known list, but what the known entries do (the config flags, the lru caches, the per-annotation transparency switch of known finding F2) is outside this property's cells.",
        technique="Lean 4 proof (non-interference for every schedule by induction, extracted storage kinds) + systematic one-preemption schedule enumeration on real threads",
    ),
    "C07": dict(
        text="Kernel-checked theorems about the wrapper's control flow and name generation: _gensym terminates and is fresh for every finite name set; every identifier the synthesised def uses is distinct from every other, from all parameter names and from the function name; the parameter list rendered for the synthesised def (positional-only group and '/', positional-or-keyword group, '*name' or bare '*', keyword-only group plus the fresh output parameter, '**name'), read back by a model of Python's parameter-list grammar, is the original signature with names, kinds and default-presence in order plus that one keyword-only parameter (C07_same_signature); on a binding new-style call the body starts exactly once when the parameter pass accepts and not at all when it rejects; a non-binding call raises before any context is opened; the body's own exception passes through; the source calls the wrapped function at exactly one place. On the real code: generated signatures over all five parameter kinds, defaults, colliding names, def / lambda / async def, all descriptor kinds, both typecheckers: call counter, identity of arguments and result, exception class, metadata, inspect.signature, the rendered parameter list piece by piece against the model's renderer, and the generated identifier scope against the model.",
        note="Python's bind() is not modelled (equal signatures are what is proved). Metadata (__name__, __qualname__, __doc__, __module__, signature, descriptor kind) is functools.wraps / descriptor unwrapping and is evaluated on the implementation only. Known finding F4 (async def with a return annotation) is reported as KNOWN-FINDING.",
        technique="Lean 4 proof (pigeonhole freshness of gensym, wrapper control flow) + generated-signature differential run",
    ),
    "C13": dict(
        text="Kernel-checked theorems: the outcome of a new-style call over array annotations is decided by the one sequential walk (returned iff accepted; TypeCheckError for parameters or return iff rejected; AnnotationError never becomes TypeCheckError); the error is a parameter error exactly when the parameter pass rejected and then the body never ran; the one-at-a-time re-check blames exactly the first parameter violating its annotation given the earlier ones and changes no binding; the bindings in force at detection are exactly those of the accepted checks; the source formats the current bindings and has the AnnotationError handler first. On the real code: ill-typed calls with the failure at every position (arrays, unions whose first alternative fails, tuples, PyTrees), both checkers, both values of the remove-stack switch: stage, blamed parameter (re-evaluated independently), listed bindings, __cause__.",
        note="Message wording beyond stage sentence / parameter name / name=value lines is not constrained. With beartype only class-only annotations are compared (its traversal of tuple/union hints is not the modelled one).",
        technique="Lean 4 proof (blame = first failing parameter via stability of accepted checks) + message oracle on generated ill-typed calls",
    ),
    "C19": dict(
        text="Kernel-checked theorems: the switch parser accepts exactly booleans and 0/1/true/false in any ASCII case (explicit character-wise form) and rejects everything else and unknown items; with the flag set or no_type_check present the new-style wrapper IS the bare call (same body run, same outcome, no context, for every argument list); the flag is read at every call; the source tests the switches before bind/push, and testing later is shown to be observable. On the real code: all 50 case variants + booleans + junk for both switches and item spellings vs the model, the environment variable in fresh interpreters, every callable kind x both checkers x {flag before/after decoration, no_type_check above/below} x well/ill-typed/non-binding calls vs the undecorated callable, re-enabling, toggling programs vs the model.",
        note="no_type_check applied to a classmethod/staticmethod/property object and old-style / typechecker=None wrappers are DESIGN §6 zones (no claim). ASCII model of str.lower().",
        technique="Lean 4 proof (wrapper reduces to the bare call; case-insensitive parser characterisation) + exhaustive spellings and behavioural comparison",
    ),
    "C08": dict(
        text="Kernel-checked theorems about the model of PyTree.__instancecheck__ (flatten with the is-leaf test, per-leaf check through a model of the vendored typeguard, rollback): for every value and every context-free leaf type, PyTree[L] answers True exactly when the declarative TreeAccepts holds (the value matches L, or is a node - None and empty containers included - all of whose children are accepted); PyTree[PyTree[L]] gives the same verdict; bare PyTree and a top-level None are always accepted; with an array leaf type the verdict and the bindings are those of checking the discovered leaves one after the other in the current context (which C02 shows to be satisfiability); a rejected tree binds nothing. On the real code: all small trees over tuple/list/dict/None plus random trees with namedtuples and registered nodes x 10 leaf types x 3 prior contexts, verdict and bindings against the model, PyTree[PyTree[L]] against PyTree[L], and the structure of every generated tree against jax.tree_util.",
        note="Modelled, validated on every generated tree: jax.tree_util (flatten order, None handling, dict key sorting). Trusted: the vendored typeguard for the leaf types in scope (int, str, tuple[...], Union, Any, classes, arrays, structure-less PyTrees).",
        technique="Lean 4 proof (mutual structural induction over values and leaf types) + differential run on generated trees",
    ),
    "C09": dict(
        text="Kernel-checked theorems: a single identifier binds the structure on first use and afterwards accepts exactly equal structures; a composite 'N1 ... Nk' stands for the right-nested substitution (n-ary, by associativity of substitution); 'T ...' accepts exactly the trees arising from T by grafting arbitrary subtrees on its leaves; '... T' accepts exactly the trees of the form U[every leaf := T]; a composite mentioning an unbound name raises AnnotationError; the build-time validation rejects exactly the empty string, non-identifier pieces and an interior '...'. On the real code: every triple of a 15-tree pool x the four forms, whitespace / piece variants of structure strings for validation, random deeper trees; verdicts, bindings and exception class against the model.",
        note="Strings '...', '... ...', '... T ...' and non-string structures are DESIGN §6 zones (model mirrors the code, no claim). jax.tree_util's treedef equality and tree_map prefix rule are modelled (Def equality / isPrefix) and compared on every generated tree.",
        technique="Lean 4 proof (structural induction on tree definitions; substitution / graft characterisations) + exhaustive small-scope differential run",
    ),
    "C10": dict(
        text="Kernel-checked theorems about the model of JaxtypingTransformer on located rose trees: for every program, erasing the one import after the prologue, the last decorator of every def and the first of every class gives back the original tree (all locations, docstring and __future__ imports included); exactly one decorator per synchronous def and class at any depth, none on async def or lambda (nested synchronous defs still reached); exactly one import iff a non-prologue statement exists, placed after the maximal prologue; the visitor facts (append / insert(0) / copy_location / visitor set) are re-extracted from the current source and decided. Translation validation per program on the real transformer: for sampled standard-library and site-packages files and generated modules, the real output is compared with the Lean transform node by node, erase-equality of ast.dump(include_attributes=True), compile(), __future__ flags and docstring; generated modules are executed plain vs hooked on well-typed calls.",
        note="Partial: 'the result always compiles' and 'behaves like the plain module' involve CPython's compiler and decorator semantics and are established per program only (translation validation), under the hypothesis that the module does not rebind `jaxtyping`.",
        technique="Lean 4 proof (erase-after-transform identity by structural induction) + per-program translation validation against the real transformer",
        level="proof",
    ),
    "C11": dict(
        text="Kernel-checked theorems: the in-scope predicate is dotted-component prefix (so `foobar` is not beneath `foo`) for all well-formed names; for every history of install / uninstall / import operations a module's status is decided at its first import by the front-most installed hook in scope and never changes afterwards; an uninstalled hook claims nothing; with no hook everything loads unmodified; the checker key is injective with None as '0'; the predicate / insertion / removal facts are re-extracted from the current source and decided. On the real code: generated package forests (siblings with common string prefixes, nested sub-packages, cross-imports) under random operation histories with a spy typechecker, compared with the model.",
        note="Partial: importlib itself (finder protocol, sys.modules, parents-first import) is modelled, not verified; md5 is modelled as injective.",
        technique="Lean 4 proof (invariant over import histories; component-prefix characterisation) + differential run on generated package forests",
    ),
    "C15": dict(
        text="Kernel-checked theorems about the model of __getitem__ / _make_array / _check_scalar: D2[D1[A,s1],s2] has, for every check, exactly the array type, dtypes, axes and multi-axis index of (D1 & D2)[A, s2 + ' ' + s1] - at any nesting depth, errors included - and is an error exactly when the outer string is malformed, both dtype lists share nothing, or both parts have a multi-axis specifier; D1 & D2 accepts exactly the dtypes both accept; D[Union[...], s] accepts exactly what the union of the member annotations accepts (members that do not exist drop out; error iff a member is an error of its own or none exists), for any check of a single annotation; a TypeVar stands for its bound / the union of its constraints / Any; a scalar type survives exactly when a rank-0 value passes the rank test of the parsed specification and the category holds a dtype with the scalar's prefix; the scalar ladder, the nesting assignments and the alias definitions re-extracted from the current source equal the modelled / documented ones (decide). On the real code: every ordered pair of 37 categories x dim-string pairs, unions / X|Y / TypeVars / seven scalar types x categories x dim strings: what was built against the model, and both sides of each law evaluated over 281 probe values; Scalar / ScalarLike / PRNGKeyArray against their documented definitions on JAX values.",
        note="Categories listing regular expressions are a DESIGN §6 zone under nesting (specifier intersection; no claim). A TypeVar inside a Union and generic aliases as array types are outside the model. typing.get_args / Union flattening and typeguard's 'some member accepts' are trusted.",
        technique="Lean 4 proof (nesting = flat annotation via the parser's concatenation law; union / scalar characterisations) + exhaustive category-pair differential run and direct law evaluation",
    ),
    "C16": dict(
        text="Kernel-checked theorems: the memo key of a '?name' axis at leaf i of structure string T is distinct from the plain axis and from every other (i, T, name) - also after rendering to the string the memo shows; an array check at '?'-position tp reads and writes only plain keys and keys of that position (frame theorem for _check_shape: other leaf positions and other structure strings never influence it nor change), so with the C02 satisfiability theorem over keys: same position must agree, different positions are independent; '?' outside a structured PyTree or beneath two raises AnnotationError; leaf types built from arrays, classes, tuples, unions and structure-less PyTrees hand the two flags through unchanged given the re-entrant protocol extracted from the source, and each protocol fact is shown to matter. On the real code: pairs of trees with per-leaf sizes equal / different at the same and at different positions, 10 leaf-type shapes, contexts and decorated calls (new and old style), a second structure name, the error cases; verdicts and bindings against the model.",
        note="jax.tree_util flatten order gives the leaf index; modelled and compared. The structure string is assumed free of ')' for the rendered-key theorem (it is a sequence of identifiers and '...').",
        technique="Lean 4 proof (frame property of the shape walk, injectivity of rendered keys, flag transparency by induction on leaf types) + differential run on generated tree pairs",
    ),
    "C17": dict(
        text="Kernel-checked theorems: the model's verdict AND bindings of one array check are the same for any two objects that answer the type test, .dtype and .shape alike (a tracer and the concrete array it stands for), in every context and mode; lifted to the typechecker's whole pass over the annotated values of a call (the walk C02 proves to be satisfiability), hence to replacing every payload as tracing does; and, by a relational induction over values and leaf types, to EVERY annotation in scope - tuples, unions, PyTree[...] with structure names and '?' axes - and to the parameter pass of a call with such annotations: values that are the same tree with arrays of the same class, dtype and shape at the same places get the same verdict and leave the same state; and the tie to the source: the uses of the checked object on the check path, re-extracted on every run, are reads of `shape` and `dtype` and hand-offs to isinstance / hasattr / the two helpers only - no comparison, truth test, indexing or iteration (decide). On the real code: functions generated as in C02 over jax.Array (some parameters PyTrees of arrays) called eagerly with zeros / random / NaN values and under jit, eval_shape, vmap (random in_axes incl. None, batch axis at a random position; eager counterpart = per-example shapes), grad, value_and_grad and the compositions jit(jit), jit(vmap), vmap(jit), eval_shape(vmap), vmap(vmap), jit(grad): raise / no-raise must equal the eager call (and the model), no Concretization / TracerBoolConversion error may occur; a spy array records every attribute and special method touched.",
        note="Partial: that JAX tracers report the shape / dtype of the values they stand for, that vmap strips the mapped axis, and that reading them does not concretise is JAX behaviour - validated on every generated function, not proved.",
        technique="Lean 4 proof (the check is a function of type test, dtype and shape; extracted attribute-use facts) + eager-vs-transformed differential run under jit / vmap / grad / eval_shape",
    ),
    "C18": dict(
        text="Kernel-checked theorems about the model of the loader's bytecode cache: with the cache-name patch confined to get_code (fact re-extracted from the current source and decided, as are the presence of the typechecker hash in the tag, the single md5 key shared by decorator text, lookup table and file name, and the absence of any path through source_to_code that compiles a module without the transformer having run), the invariant 'every entry is what its tag says' holds for every reachable cache and every load of every run of every history (any hooked subsets, typecheckers, nested import orders, source edits, runs that write bytecode and runs that only read it) executes the code the current source and configuration call for; tags of different configurations never collide; with the patch spanning exec_module a two-run history provably executes stale code (the repaired defect F1), and so does skipping the patch in a run that writes no bytecode. On the real code: histories of 2-4 fresh interpreter runs over one cache directory, each run with bytecode writing on or off (-B), modules with nested imports, hooked subsets / typecheckers / source edits varied; per module: instrumented?, by which checker, current source?",
        note="Partial: the file system, mtime/size validation of pyc files and importlib's SourceLoader are modelled (version number = what the validation compares), not verified.",
        technique="Lean 4 proof (cache invariant by induction over histories of runs; extracted patch-scope fact) + multi-run subprocess histories",
    ),
    "C20": dict(
        text="Kernel-checked theorems about the model of the copyreg reducer and of what the loading process does with its output: for every annotation that can be built (flat or nested to any depth; well-formedness is shown to be preserved by every construction) the reconstruction exists and has the same array type, effective dtypes, axes and multi-axis index - hence accepts exactly the same values whatever the check is - is again well-formed and keeps its category; by-value pickling (cloudpickle on the dynamically created class) returns the annotation attribute for attribute given that the identity-compared sentinels pickle as references to their module-level names; both facts (reducer hands the effective dtypes over; sentinels pickle by reference) are re-extracted from the current source and decided, and each is shown to matter (Shaped[Float[A,'a'],'b'] comes back accepting every dtype; any-dtype / '_' / '...' annotations come back uninterpretable). On the real code: generated annotations (37 categories incl. importable user-defined ones, classes / subclasses / Any / unions / 1-3 levels of nesting, 13 dim strings) through pickle protocols 2 and 5, cloudpickle, copy, deepcopy in-process and pickle / cloudpickle into a fresh interpreter: acceptance vectors over 281 probe values of the original before and after and of every reconstruction, and the rebuilt attributes against the model.",
        note="pickle / cloudpickle / copy protocols (classes and functions by reference, cloudpickle's class tracker) are trusted. Two genuine defects found by this check were repaired (nested dtypes lost by the reducer; object() sentinels not surviving by-value pickling).",
        technique="Lean 4 proof (reduce/rebuild round trip via re-parsing invariance of the stored string; by-value route with sentinel identity) + multi-route, multi-process differential run",
    ),
}


def manifest():
    import json
    import os

    verif = os.path.dirname(os.path.dirname(os.path.abspath(__file__)))
    props = [json.loads(l) for l in open(os.path.join(verif, "properties.jsonl"))]
    checks = []
    na = []
    for p in props:
        pid = p["id"]
        meta = PROPS.get(pid)
        have = (
            meta is not None
            and os.path.exists(os.path.join(verif, "harness", pid.lower() + ".py"))
            and os.path.exists(os.path.join(verif, "lean", "JaxVerif", "Properties", pid + ".lean"))
            and os.path.exists(os.path.join(verif, "lean", "JaxVerif", "Audit", pid + ".lean"))
        )
        if not have:
            na.append({"property_id": pid, "reason": (meta or {}).get("na_reason", "check not built yet (work in progress; designed in DESIGN.md §4 " + pid + ")")})
            continue
        checks.append({
            "property_id": pid,
            "quick_cmd": f"bin/check {pid} quick",
            "thorough_cmd": f"bin/check {pid} thorough",
            "evidence_file": f"evidence/{pid}.json",
            "replay_cmd_template": f"bin/check {pid} quick --replay {{path}}",
            "engine": "lean4+correspondence",
            "level_claimed": {"category": meta.get("level", "proof"), "text": meta["text"], "design_ref": meta.get("design", "§4 " + pid)},
            "level_note": COMMON_NOTE + meta["note"],
            "technique": meta["technique"],
        })
    m = {
        "version": 1,
        "setup_cmd": "bin/setup",
        "hooks": {
            "guard": "PATRICK_KIDGER_JAXTYPING_VERIF",
            "enable": "no source hooks are needed: checks import jaxtyping from /repo in-process; scheduling uses sys.settrace, fault injection uses ordinary user objects",
            "baseline_off_cmd": "cd /repo && /venv/bin/python -m pytest -ra -q -p no:cacheprovider --timeout=900 --continue-on-collection-errors",
            "source_commits": [],
            "add_only": True,
        },
        "engines": [
            {"name": "lean4+correspondence", "path": "lean/", "serves_properties": [c["property_id"] for c in checks],
             "kind_free_text": "Lean 4 model + theorems (lean/JaxVerif), facts regenerated from /repo by harness/extract.py, compiled line-protocol driver (lean/Driver) compared with the real jaxtyping by harness/cXX.py"},
        ],
        "checks": checks,
        "not_applicable": na,
        "notes": "bin/check <id> <tier>: extract facts from /repo -> lake build of the property's theorems + axiom audit -> correspondence and direct property evaluation -> exit 0 / VIOLATION / KNOWN-FINDING; exit 2 = infrastructure failure. See DESIGN.md.",
    }
    with open(os.path.join(verif, "MANIFEST.json"), "w") as fh:
        json.dump(m, fh, indent=1)
    return m


if __name__ == "__main__":
    m = manifest()
    print("checks:", [c["property_id"] for c in m["checks"]])
    print("not_applicable:", [c["property_id"] for c in m["not_applicable"]])
