/-
Model of `_gensym` and of the name generation in `_make_fn_with_signature`
(jaxtyping/_decorator.py).
-/
namespace JV

/-- `prefix + str(i)` for the first `i ≥ start` such that the name is not in `names`; searching
    `fuel` candidates -/
def gensymFrom (names : List String) (pre : String) : Nat → Nat → String
  | 0, i => pre ++ toString i
  | fuel + 1, i =>
    if names.contains (pre ++ toString i) then gensymFrom names pre fuel (i + 1)
    else pre ++ toString i

/-- `_gensym(names, prefix)`: the `while` loop terminates within `names.length + 1` candidates -/
def gensym (names : List String) (pre : String) : String :=
  gensymFrom names pre names.length 0

/-- the scope dictionary built by `_make_fn_with_signature`: starting from the function's own name
    and the parameter names (plus the output name), one annotation identifier and one default
    identifier per entry, each fresh for everything generated so far -/
def genScope (fnName : String) (paramNames : List String) : Nat → List String → List String
  | 0, scope => scope
  | n + 1, scope =>
    let a := gensym (scope ++ paramNames) "T"
    let scope1 := scope ++ [a]
    let d := gensym (scope1 ++ paramNames) "default"
    genScope fnName paramNames n (scope1 ++ [d])

/-- all names of the generated `def`: with `output`, first the keyword-only `ret` parameter -/
def generatedNames (fnName : String) (paramNames : List String) (output : Bool) : List String × List String :=
  let ps := if output then paramNames ++ [gensym paramNames "ret"] else paramNames
  let nEntries := paramNames.length + (if output then 2 else 1)
  (ps, genScope fnName ps nEntries [fnName])

end JV
