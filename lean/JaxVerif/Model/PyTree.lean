/-
Executable model of `_MetaPyTree.__instancecheck__` / `_check` (jaxtyping/_pytree_type.py),
of the leaf-type checks the vendored typeguard performs for the leaf types in scope, and of
the two transient flags of jaxtyping/_storage.py (flatten mode, `?`-leaf label).
Core Lean only.
-/
import JaxVerif.Model.Core
import JaxVerif.Model.Parse

namespace JV

/-- Python values as far as a PyTree check looks at them -/
inductive Obj
  | int (n : Int)
  | str (s : String)
  | none
  | opaque (tag : String)                       -- any other leaf object (class name `tag`)
  | arr (cls : String) (a : ArrObj)             -- an array of class `cls`
  | tuple (xs : List Obj)
  | list (xs : List Obj)
  | dict (keys : List String) (vals : List Obj) -- keys sorted (jax sorts them)
  | ntuple (tag : String) (xs : List Obj)       -- namedtuple: a tuple *and* a pytree node
  | custom (tag : String) (fault : Option Exc) (xs : List Obj)
      -- registered pytree node class; `fault`: its flatten function raises
  deriving Repr

/-- leaf types `L` of `PyTree[L]` (and parameter annotations) in scope of the model -/
inductive LType
  | any
  | int
  | str
  | noneT
  | user (accept : List String) (faultOn : List (String × Exc))
      -- a user class: `isinstance` is True for opaque objects with tag in `accept`; its
      -- `__instancecheck__` raises for tags in `faultOn`
  | arr (cls : String) (a : Ann)                -- `Dtype[cls, dims]`; cls = "" is `Any`
  | tuple (ts : List LType)                     -- `tuple[t1, ..., tn]`
  | union (ts : List LType)
  | pytree (l : LType) (s : Option String)      -- `PyTree[l]` / `PyTree[l, s]`
  | barePytree                                  -- `PyTree`
  deriving Repr

/-- facts about the exception skeleton of the two `__instancecheck__`s and of `_check`,
    read from the current source by the translator (harness/extract.py) -/
structure Skel where
  arrayCatch : Catch
  pytreeCatch : Catch
  /-- the flatten-mode flag is released in a `finally` -/
  flattenInFinally : Bool
  /-- releasing puts the *previous* value back (re-entrant) instead of writing `False` -/
  flattenRestores : Bool
  /-- the `?`-leaf label is cleared in a `finally` around the leaf loop -/
  treepathInFinally : Bool
  /-- the label is cleared only by a PyTree that set it (`cls.structure is not None`) -/
  treepathGuarded : Bool
  deriving Repr, DecidableEq

/-- per-thread state a check can read or write -/
structure CState where
  memo : Memo := {}
  tp : TreePath := none
  flatten : Bool := false
  /-- no context is open: `get_shape_memo()` hands out fresh throw-away dictionaries on every
      call and `set_shape_memo` does nothing, so nothing is ever remembered -/
  noCtx : Bool := false
  deriving Repr

def Obj.toArr (cls : String) : Obj → ArrObj
  | .arr c a => { a with isInst := (cls == "" || cls == c) }
  | _ => { isInst := false, dtype := "", shape := [] }

/-! ### structure strings (C09) -/

/-- fold of `tree_map(lambda _: T, named)` over the pieces, starting from a single leaf -/
def composeNamed (pm : List (String × Def)) : List String → Def → Res Def
  | [], acc => .ok acc
  | p :: ps, acc =>
    match pm.lookup p with
    | none => .annErr
    | some t => composeNamed pm ps (Def.subst t acc)

/-- `cls.structure.isidentifier()` (ASCII) -/
def isIdentStr (s : String) : Bool := isIdentifier s.toList

/-- `cls.structure.split()` -/
def splitWsStr (s : String) : List String := (splitWs s.toList).map String.ofList

/-- the structure step of `_check`: bind / compare / composite; `fail` = the check says False -/
def structStep (S : String) (d : Def) (pm : List (String × Def)) : Res (List (String × Def)) :=
  if isIdentStr S then
    match pm.lookup S with
    | none => .ok (pm ++ [(S, d)])
    | some prev => if prev == d then .ok pm else .fail
  else
    let pieces := splitWsStr S
    match pieces with
    | [] => .ok pm        -- rejected when the annotation is built; unreachable
    | first :: _ =>
      if first == "..." then
        -- suffix form
        match composeNamed pm (pieces.drop 1) .leaf with
        | .ok named => if Def.isSuffix named d then .ok pm else .fail
        | .fail => .fail | .annErr => .annErr | .exc e => .exc e
      else if pieces.getLast? == some "..." then
        match composeNamed pm pieces.dropLast .leaf with
        | .ok named => if Def.isPrefix named d then .ok pm else .fail
        | .fail => .fail | .annErr => .annErr | .exc e => .exc e
      else
        match composeNamed pm pieces .leaf with
        | .ok named => if d == named then .ok pm else .fail
        | .fail => .fail | .annErr => .annErr | .exc e => .exc e

/-! ### flattening with a leaf predicate that may bind and may raise -/

inductive FlatRes
  | ok (leaves : List Obj) (d : Def)
  | raised (v : Verdict)
  deriving Repr

inductive FlatListRes
  | ok (leaves : List Obj) (ds : List Def)
  | raised (v : Verdict)

def wrapNode (k : Kind) : CState × FlatListRes → CState × FlatRes
  | (st, .ok ls ds) => (st, .ok ls (.node k ds))
  | (st, .raised v) => (st, .raised v)

mutual
/-- `jax.tree_util.tree_flatten(x, is_leaf=isLeaf)`: top-down, `isLeaf` is asked at every node
    first; `None` and empty containers are childless nodes -/
def flat (isLeaf : Obj → CState → CState × Verdict) (useLeaf : Bool) :
    Obj → CState → CState × FlatRes
  | x, st =>
    let r := if useLeaf then isLeaf x st else (st, Verdict.F)
    match r with
    | (st', .T) => (st', .ok [x] .leaf)
    | (st', .F) =>
      match x with
      | .tuple xs => wrapNode .tuple (flatList isLeaf useLeaf xs st')
      | .list xs => wrapNode .list (flatList isLeaf useLeaf xs st')
      | .dict ks vs => wrapNode (.dict ks) (flatList isLeaf useLeaf vs st')
      | .ntuple tag xs => wrapNode (.custom ("namedtuple:" ++ tag)) (flatList isLeaf useLeaf xs st')
      | .custom tag fault xs =>
        match fault with
        | some e => (st', .raised (.EXC e))
        | none => wrapNode (.custom tag) (flatList isLeaf useLeaf xs st')
      | .none => (st', .ok [] (.node .none []))
      | y => (st', .ok [y] .leaf)
    | (st', v) => (st', .raised v)
def flatList (isLeaf : Obj → CState → CState × Verdict) (useLeaf : Bool) :
    List Obj → CState → CState × FlatListRes
  | [], st => (st, .ok [] [])
  | x :: xs, st =>
    match flat isLeaf useLeaf x st with
    | (st1, .raised v) => (st1, .raised v)
    | (st1, .ok l d) =>
      match flatList isLeaf useLeaf xs st1 with
      | (st2, .raised v) => (st2, .raised v)
      | (st2, .ok ls ds) => (st2, .ok (l ++ ls) (d :: ds))
end

/-- the leaf loop of `_check` -/
def leafLoop (sk : Skel) (leafCheck : Obj → CState → CState × Verdict) (S : Option String) :
    List Obj → Nat → CState → CState × Verdict
  | [], _, st => (st, .T)
  | x :: xs, i, st =>
    -- set_treepath_memo(leaf_index, cls.structure): ambiguous if a label is already set
    let r : Option CState :=
      match S with
      | none => some st
      | some s => if st.tp.isSome then none else some { st with tp := some (i, s) }
    match r with
    | none => (st, .ANN)
    | some st1 =>
      match leafCheck x st1 with
      | (st2, .T) =>
        let st3 := if sk.treepathGuarded && S.isNone then st2 else { st2 with tp := none }
        leafLoop sk leafCheck S xs (i + 1) st3
      | (st2, v) => (st2, v)

/-- `_MetaPyTree._check`; `leafAny` = the leaf type is `Any` -/
def pytreeCore (sk : Skel) (leafCheck : Obj → CState → CState × Verdict) (leafAny : Bool)
    (S : Option String) (x : Obj) (st : CState) : CState × Verdict :=
  let was := st.flatten
  let release (s : CState) : CState := { s with flatten := if sk.flattenRestores then was else false }
  match flat leafCheck (!leafAny) x { st with flatten := true } with
  | (st1, .raised v) => (if sk.flattenInFinally then release st1 else st1, v)
  | (st1, .ok leaves d) =>
    let st2 := release st1
    let stepped : Res (List (String × Def)) :=
      match S with
      | none => .ok st2.memo.pytree
      | some s => structStep s d st2.memo.pytree
    match stepped with
    | .fail => (st2, .F)
    | .annErr => (st2, .ANN)
    | .exc e => (st2, .EXC e)
    | .ok pm =>
      let st3 : CState := { st2 with memo := { st2.memo with pytree := pm } }
      let check : Obj → CState → CState × Verdict :=
        if leafAny then fun _ s => (s, .T) else leafCheck
      let (st4, v) := leafLoop sk check S leaves 0 st3
      let clearTp (s : CState) : CState :=
        if sk.treepathGuarded && S.isNone then s else { s with tp := none }
      match v with
      | .T => (clearTp st4, .T)
      | .F => (clearTp st4, .F)
      | w => (if sk.treepathInFinally then clearTp st4 else st4, w)

/-- `_MetaPyTree.__instancecheck__` for `PyTree[L]` / `PyTree[L, S]` -/
def pytreeInstancecheck (sk : Skel) (leafCheck : Obj → CState → CState × Verdict)
    (leafAny : Bool) (S : Option String) (x : Obj) (st : CState) : CState × Verdict :=
  match x with
  | .none => (st, .T)
  | _ =>
    let bak := st.memo
    let st0 := if st.noCtx then { st with memo := {} } else st
    match pytreeCore sk leafCheck leafAny S x st0 with
    | (st1, .T) => (if st.noCtx then { st1 with memo := bak } else st1, .T)
    | (st1, .F) => ({ st1 with memo := bak }, .F)
    | (st1, .ANN) => ({ st1 with memo := bak }, .ANN)
    | (st1, .EXC e) =>
      if sk.pytreeCatch.covers e || st.noCtx then ({ st1 with memo := bak }, .EXC e)
      else (st1, .EXC e)

mutual
/-- the check of one value against one type, as the vendored typeguard performs it
    (`F` = it raises TypeError) -/
def checkL (sk : Skel) : LType → Obj → CState → CState × Verdict
  | .any, _, st => (st, .T)
  | .int, x, st => (st, match x with | .int _ => .T | _ => .F)
  | .str, x, st => (st, match x with | .str _ => .T | _ => .F)
  | .noneT, x, st => (st, match x with | .none => .T | _ => .F)
  | .user acc faults, x, st =>
    match x with
    | .opaque tag =>
      match faults.lookup tag with
      | some e => (st, .EXC e)
      | none => (st, if acc.contains tag then .T else .F)
    | _ => (st, .F)
  | .arr cls a, x, st =>
    if st.noCtx then
      (st, (instancecheck sk.arrayCatch st.flatten st.tp a (x.toArr cls) {}).1)
    else
      let (v, m) := instancecheck sk.arrayCatch st.flatten st.tp a (x.toArr cls) st.memo
      ({ st with memo := m }, v)
  | .tuple ts, x, st =>
    match x with
    | .tuple xs => if xs.length != ts.length then (st, .F) else checkLs sk ts xs st
    | .ntuple _ xs => if xs.length != ts.length then (st, .F) else checkLs sk ts xs st
    | _ => (st, .F)
  | .union ts, x, st => checkLU sk ts x st
  | .pytree l s, x, st =>
    pytreeInstancecheck sk (checkL sk l) (match l with | .any => true | _ => false) s x st
  | .barePytree, _, st => (st, .T)
/-- element-wise tuple check: stops at the first failure, nothing is rolled back here -/
def checkLs (sk : Skel) : List LType → List Obj → CState → CState × Verdict
  | [], _, st => (st, .T)
  | _ :: _, [], st => (st, .T)
  | t :: ts, x :: xs, st =>
    match checkL sk t x st with
    | (st1, .T) => checkLs sk ts xs st1
    | (st1, v) => (st1, v)
/-- union: first alternative that does not raise TypeError wins -/
def checkLU (sk : Skel) : List LType → Obj → CState → CState × Verdict
  | [], _, st => (st, .F)
  | t :: ts, x, st =>
    match checkL sk t x st with
    | (st1, .F) => checkLU sk ts x st1
    | (st1, v) => (st1, v)
end

/-- structure of a value with no leaf predicate (`jax.tree_util.tree_structure`) -/
def Obj.structure (x : Obj) : Def :=
  match flat (fun _ s => (s, Verdict.F)) false x {} with
  | (_, .ok _ d) => d
  | _ => .leaf

end JV
