/-
Model of the dtype part of `__instancecheck_str__` (jaxtyping/_array_types.py): how the dtype
*name* is extracted from `obj.dtype` for each kind of array library, and the match against
the category's list of names.
-/
import JaxVerif.Model.Core

namespace JV

/-- what the code can see of `obj.dtype` -/
structure RawDtype where
  /-- `obj.dtype.type.__name__` when `obj.dtype` has a `type` with a `__name__` (NumPy, JAX) -/
  typeName : Option String := none
  /-- `str(obj.dtype)` when the dtype is a NumPy structured dtype -/
  structStr : Option String := none
  /-- `obj.dtype.name` when `obj.dtype` is a `numpy.dtype` of kind i/u/f/c -/
  npName : Option String := none
  /-- `obj.dtype.as_numpy_dtype.__name__` (TensorFlow) -/
  asNumpyName : Option String := none
  /-- the dtype itself when it is a `str` (duck arrays) -/
  strVal : Option String := none
  /-- the part of `repr(obj.dtype)` after the last dot (PyTorch style) -/
  reprTail : String := ""
  deriving Repr, DecidableEq

/-- `npCanonical`: the source has the branch that prefers `dtype.name` for NumPy numeric dtypes
    (read from the source by the translator) -/
def extractName (npCanonical : Bool) (r : RawDtype) : String :=
  match r.typeName with
  | some tn =>
    match r.structStr with
    | some s => s
    | none => if npCanonical then r.npName.getD tn else tn
  | none =>
    match r.asNumpyName with
    | some n => n
    | none =>
      match r.strVal with
      | some s => s
      | none => r.reprTail

/-- `AbstractDtype.__init_subclass__`: a single string becomes a one-element tuple -/
inductive UserDtypes
  | one (s : String)
  | many (l : List String)
  deriving Repr, DecidableEq

def UserDtypes.normalize : UserDtypes → DtypeSpec
  | .one s => .names [s]
  | .many l => .names l

end JV
