/-
Model of `JaxtypingTransformer` (jaxtyping/_import_hook.py) on a generic located syntax tree.
A Python AST is abstracted to the node kinds the transformer distinguishes; everything else is
`other` (with its children, so that definitions nested in `if`/`for`/`try`/`with`/`async def`
are still reached, as `generic_visit` reaches them).
-/
namespace JV

structure Loc where
  line : Nat
  col : Nat
  endLine : Nat
  endCol : Nat
  deriving DecidableEq, Repr

inductive NodeKind
  | module
  | funcDef            -- ast.FunctionDef
  | asyncFuncDef       -- ast.AsyncFunctionDef
  | classDef           -- ast.ClassDef
  | futureImport       -- `from __future__ import …`
  | constExpr          -- an expression statement that is a constant (docstring)
  | importJaxtyping    -- the statement the hook adds
  | jaxtypedDecorator  -- the decorator expression the hook adds
  | other (tag : String)
  deriving DecidableEq, Repr

/-- a node: kind, location, decorator list (for definitions), all other children in field order -/
inductive Node
  | mk (kind : NodeKind) (loc : Loc) (decos : List Node) (kids : List Node)
  deriving Repr

def Node.kind : Node → NodeKind | .mk k _ _ _ => k
def Node.loc : Node → Loc | .mk _ l _ _ => l

def isPrologue (n : Node) : Bool :=
  match n.kind with
  | .futureImport => true
  | .constExpr => true
  | _ => false

def zeroLoc : Loc := ⟨0, 0, 0, 0⟩

/-- `ast.Import(names=[alias("jaxtyping")])`: no location until `fix_missing_locations` -/
def importNode : Node := .mk .importJaxtyping zeroLoc [] []

/-- `Typechecker.get_ast()` followed by `ast.copy_location(decorator, node)` -/
def decoNode (l : Loc) : Node := .mk .jaxtypedDecorator l [] []

/-- `visit_Module`'s loop: insert before the first statement that is neither a `__future__`
    import nor a constant expression; nothing is inserted when there is no such statement -/
def insertImport : List Node → List Node
  | [] => []
  | n :: ns => if isPrologue n then n :: insertImport ns else importNode :: n :: ns

mutual
/-- `JaxtypingTransformer.visit` -/
def transform : Node → Node
  | .mk .funcDef l decos kids => .mk .funcDef l (transformList decos ++ [decoNode l]) (transformList kids)
  | .mk .classDef l decos kids => .mk .classDef l (decoNode l :: transformList decos) (transformList kids)
  | .mk k l decos kids => .mk k l (transformList decos) (transformList kids)
def transformList : List Node → List Node
  | [] => []
  | n :: ns => transform n :: transformList ns
end

/-- the whole pass over a module: `visit_Module` inserts the import, then `generic_visit` -/
def transformModule : Node → Node
  | .mk .module l decos kids => .mk .module l (transformList decos) (transformList (insertImport kids))
  | n => transform n

/-- remove the first statement after the prologue if it is the added import -/
def eraseImport : List Node → List Node
  | [] => []
  | n :: ns =>
    if isPrologue n then n :: eraseImport ns
    else match n.kind with
      | .importJaxtyping => ns
      | _ => n :: ns

mutual
/-- undo the three kinds of additions: last decorator of every `def`, first of every `class` -/
def erase : Node → Node
  | .mk .funcDef l decos kids => .mk .funcDef l ((eraseList decos).dropLast) (eraseList kids)
  | .mk .classDef l decos kids => .mk .classDef l ((eraseList decos).drop 1) (eraseList kids)
  | .mk k l decos kids => .mk k l (eraseList decos) (eraseList kids)
def eraseList : List Node → List Node
  | [] => []
  | n :: ns => erase n :: eraseList ns
end

def eraseModule : Node → Node
  | .mk .module l decos kids => .mk .module l (eraseList decos) (eraseImport (eraseList kids))
  | n => erase n

mutual
/-- number of nodes of a kind satisfying `p` -/
def countKind (p : NodeKind → Bool) : Node → Nat
  | .mk k _ decos kids => (if p k then 1 else 0) + countKindList p decos + countKindList p kids
def countKindList (p : NodeKind → Bool) : List Node → Nat
  | [] => 0
  | n :: ns => countKind p n + countKindList p ns
end

mutual
/-- the original tree contains none of the two node kinds the hook adds -/
def clean : Node → Bool
  | .mk k _ decos kids =>
    (match k with | .importJaxtyping => false | .jaxtypedDecorator => false | _ => true) &&
      cleanList decos && cleanList kids
def cleanList : List Node → Bool
  | [] => true
  | n :: ns => clean n && cleanList ns
end

end JV
