/-
A small language for the bodies of `JaxtypingTransformer.visit_FunctionDef`, `visit_ClassDef` and `visit_Module`
(jaxtyping/_import_hook.py). The translator (harness/translate_hook.py) turns the current source of the three methods
into terms of this language (`Generated/HookCode.lean`); `Properties/C10.lean` proves, on every run, that running them on
ANY node is `transform` / `transformModule` of the model (Model/HookAst.lean). What `generic_visit` does — visit every
child, decorators first, with the same visitor — is the model's `transformList`; the loop of `visit_Module` that finds
where the import goes is one primitive here (`insertImport`), emitted only when the abstract run of that loop
(harness/extract.py, fact `hookImportRule`) finds the rule the model has. Core Lean only.
-/
import JaxVerif.Model.HookAst

namespace JV

inductive HStmt
  | skip
  | seq (a b : HStmt)
  | getDeco            -- `decorator = self._typechecker.get_ast()`
  | copyLoc            -- `ast.copy_location(decorator, node)`
  | decoAppend         -- `node.decorator_list.append(decorator)`
  | decoInsertFront    -- `node.decorator_list.insert(0, decorator)`
  | pushParent         -- `self._parents.append(node)`
  | popParent          -- `self._parents.pop()`
  | genericVisit       -- `self.generic_visit(node)`
  | insertImport       -- the `for i, child in enumerate(node.body): …` loop of `visit_Module`
  | retNode            -- `return node`
  | unknown
  deriving Repr

structure HSt where
  kind : NodeKind
  loc : Loc
  decos : List Node
  kids : List Node
  deco : Option Node := none
  parents : Nat := 0
  returned : Bool := false

def HStmt.run : HStmt → HSt → Option HSt
  | .skip, s => some s
  | .seq a b, s =>
    (match a.run s with
     | some s' => if s'.returned then some s' else b.run s'
     | none => none)
  | .getDeco, s => some { s with deco := some (decoNode zeroLoc) }
  | .copyLoc, s =>
    (match s.deco with
     | some _ => some { s with deco := some (decoNode s.loc) }
     | none => none)
  | .decoAppend, s =>
    (match s.deco with
     | some d => some { s with decos := s.decos ++ [d] }
     | none => none)
  | .decoInsertFront, s =>
    (match s.deco with
     | some d => some { s with decos := d :: s.decos }
     | none => none)
  | .pushParent, s => some { s with parents := s.parents + 1 }
  | .popParent, s => if s.parents = 0 then none else some { s with parents := s.parents - 1 }
  | .genericVisit, s => some { s with decos := transformList s.decos, kids := transformList s.kids }
  | .insertImport, s => some { s with kids := JV.insertImport s.kids }
  | .retNode, s => some { s with returned := true }
  | .unknown, _ => none

/-- run a visitor method on a node: it must return the node and leave the parent stack as it found it -/
def runVisitor (code : HStmt) : Node → Option Node
  | .mk k l decos kids =>
    match code.run { kind := k, loc := l, decos := decos, kids := kids } with
    | some s => if s.returned && s.parents = 0 then some (.mk s.kind s.loc s.decos s.kids) else none
    | none => none

end JV
