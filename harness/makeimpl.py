"""Building real jaxtyping annotations from the JSON specs the driver understands, describing what
was built in the driver's canonical form, and evaluating annotations on a probe set. (C15 / C20)"""
from __future__ import annotations

import typing

import numpy as np

import impl  # noqa: F401  (asserts jaxtyping comes from REPO)
import jaxtyping
import usercats
from jaxtyping import _array_types as AT

SCALARS = {"bool": bool, "int": int, "float": float, "complex": complex, "np.bool_": np.bool_, "np.generic": np.generic, "np.number": np.number}
SCALAR_NAMES = {v: k for k, v in SCALARS.items()}

EXPORTED = [
    "BFloat16", "Bool", "Complex", "Complex128", "Complex64", "Float", "Float16", "Float32", "Float64",
    "Float8e4m3b11fnuz", "Float8e4m3fn", "Float8e4m3fnuz", "Float8e5m2", "Float8e5m2fnuz", "Inexact",
    "Int", "Int16", "Int2", "Int32", "Int4", "Int64", "Int8", "Integer", "Key", "Num", "Real", "Shaped",
    "UInt", "UInt16", "UInt2", "UInt32", "UInt4", "UInt64", "UInt8",
]
_dyn_cats = {}


def cat_class(name, dtypes="?"):
    if name in usercats.USER_CATS:
        return usercats.USER_CATS[name]
    if name in EXPORTED:
        return getattr(jaxtyping, name)
    key = (name, None if dtypes is None else tuple(dtypes))
    if key not in _dyn_cats:
        ns = {"dtypes": AT._any_dtype if dtypes is None else list(dtypes)}
        _dyn_cats[key] = type(name, (jaxtyping.AbstractDtype,), ns)
    return _dyn_cats[key]


def cat_spec(name, dtypes="?"):
    """JSON category spec for the driver, with the dtypes the real class carries"""
    c = cat_class(name, dtypes)
    d = c.dtypes
    # `name` is what the class is called (the model prints it); `key` is how this harness finds the class again
    return {"name": c.__name__, "key": name, "dtypes": None if d is AT._any_dtype else [x for x in d]}


class Unbuildable(Exception):
    def __init__(self, kind):
        self.kind = kind


def build_atom(a):
    k = a["k"]
    if k == "cls":
        return usercats.CLASSES[a["name"]]
    if k == "any":
        return typing.Any
    if k == "scalar":
        return SCALARS[a["s"]]
    if k == "made":
        out = build(a)
        if isinstance(out, str):
            raise Unbuildable(out)
        return out
    raise KeyError(k)


def build_aty(t):
    k = t["k"]
    if k == "union":
        return typing.Union[tuple(build_atom(a) for a in t["as"])]
    if k == "tvbound":
        return typing.TypeVar("T", bound=build_atom(t["a"]))
    if k == "tvboundunion":
        return typing.TypeVar("T", bound=typing.Union[tuple(build_atom(a) for a in t["as"])])
    if k == "tvconstr":
        return typing.TypeVar("T", *[build_atom(a) for a in t["as"]])
    if k == "tvfree":
        return typing.TypeVar("T")
    return build_atom(t)


def build(spec):
    """spec = {cat:{name,dtypes}, aty, dims} -> annotation | 'VAL' | 'OTHER:<cls>'"""
    try:
        aty = build_aty(spec["aty"])
    except Unbuildable as e:
        return "INNER-" + e.kind
    cat = cat_class(spec["cat"].get("key", spec["cat"]["name"]), spec["cat"].get("dtypes"))
    try:
        return cat[aty, spec["dims"]]
    except ValueError:
        return "VAL"
    except BaseException as e:  # noqa: BLE001
        return "OTHER:" + type(e).__name__


def dim_json(d):
    if d is AT._anonymous_dim:
        return ["anon"]
    if d is AT._anonymous_variadic_dim:
        return ["anonvar"]
    if isinstance(d, AT._NamedDim):
        return ["named", d.name, bool(d.broadcastable), bool(d.treepath)]
    if isinstance(d, AT._NamedVariadicDim):
        return ["namedvar", d.name, bool(d.broadcastable), bool(d.treepath)]
    if isinstance(d, AT._FixedDim):
        return ["fixed", d.size, bool(d.broadcastable)]
    if isinstance(d, AT._SymbolicDim):
        return ["sym", d.elem, bool(d.broadcastable)]
    return ["?", repr(d)]


def class_name(c):
    if c is typing.Any:
        return ""
    for k, v in usercats.CLASSES.items():
        if v is c:
            return k
    return getattr(c, "__name__", repr(c))


def alt_json(x):
    if x in SCALAR_NAMES:
        return {"k": "scalar", "s": SCALAR_NAMES[x]}
    if isinstance(x, type) and issubclass(x, jaxtyping.AbstractArray):
        return {
            "k": "made", "cat": x.dtype.__name__, "at": class_name(x.array_type), "dimstr": x.dim_str,
            "dtypes": None if x.dtypes is AT._any_dtype else list(x.dtypes) if isinstance(x.dtypes, (tuple, list)) else "FOREIGN:" + type(x.dtypes).__name__,
            "dims": [dim_json(d) for d in x.dims], "iv": x.index_variadic,
        }
    return {"k": "?", "repr": repr(x)}


def alts_of(out):
    if typing.get_origin(out) is typing.Union:
        return list(typing.get_args(out))
    return [out]


def describe(out):
    if isinstance(out, str):
        return {"r": out}
    return {"r": "ok", "alts": [alt_json(x) for x in alts_of(out)]}


def core(alt):
    """the part of a description the check looks at"""
    if alt.get("k") == "made":
        return {k: alt[k] for k in ("k", "at", "dtypes", "dims", "iv")}
    return alt


def cores(desc):
    if desc.get("r") != "ok":
        return desc
    return {"r": "ok", "alts": [core(a) for a in desc["alts"]]}


# ----------------------------------------------------------------------------- probes

PROBE_DTYPES = ["bool", "uint8", "int8", "int32", "float16", "float32", "bfloat16", "complex64", "prng_key", "weird"]
PROBE_SHAPES = [(), (1,), (2,), (3,), (2, 3), (1, 3), (3, 2), (2, 3, 4), (2, 2, 2, 2)]


def probes():
    ps = []
    for cls in (usercats.Duck, usercats.Duck2, usercats.Other):
        for dt in PROBE_DTYPES:
            for sh in PROBE_SHAPES:
                ps.append(cls(sh, dt))
    ps += [True, 1, 1.5, 1j, np.float32(1), np.bool_(True), np.int32(1), "a string", None,
           np.zeros((2, 3), np.float32), np.zeros((), np.int32)]
    return ps


_PROBES = None


def accepts(out, v):
    """typeguard's reading of the annotation: a Union accepts iff some member does"""
    return verdict_char(out, v) == "1"


def verdict_char(out, v):
    """'1' accepted, '0' rejected, 'A' AnnotationError, 'E' the check itself raised"""
    worst = "0"
    for x in alts_of(out):
        r = impl.check_once(v, x)
        if r == "T":
            return "1"
        if r == "ANN":
            worst = "A"
        elif r != "F":
            worst = "E"
    return worst


def vector(out):
    global _PROBES
    if _PROBES is None:
        _PROBES = probes()
    if isinstance(out, str):
        return out
    return "".join(verdict_char(out, v) for v in _PROBES)
