import JaxVerif.Properties.C17

#print axioms JV.C17_payload
#print axioms JV.C17_call
#print axioms JV.C17_trace
#print axioms JV.C17_attrs
#print axioms JV.C17_pytree
#print axioms JV.C17_params
