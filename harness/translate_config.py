"""(T1, translation) jaxtyping/_config.py: `_maybestr2bool` and `_JaxtypingConfig.update` are translated into the language
of lean/JaxVerif/Model/ConfigDsl.lean (`Generated/ConfigCode.lean`); Properties/C19.lean proves on every run that the
translated code computes the model's `str2bool` / `cfgUpdate` for every value and item. Anything not recognised becomes
`.unknown` (a crash in the interpreter)."""
from __future__ import annotations

import ast
import os

from common import GEN, REPO, write_if_changed


def _u(n):
    try:
        return ast.unparse(n)
    except Exception:  # noqa: BLE001
        return "?"


def _lean_str(s):
    return '"' + s.replace("\\", "\\\\").replace('"', '\\"') + '"'


class ConfigTranslator:
    def __init__(self, value_name, item_name=None, tables=None):
        self.value, self.item = value_name, item_name
        self.tables = tables or {}
        self.locals = {}      # local name -> CExp it was bound to (`v = value.lower()`)
        self.notes = []

    def exp(self, e):
        if isinstance(e, ast.Name):
            if e.id == self.value:
                return ".value"
            if self.item and e.id == self.item:
                return ".item"
            if e.id in self.locals:
                return self.locals[e.id]
        if isinstance(e, ast.Call) and isinstance(e.func, ast.Attribute) and e.func.attr == "lower" and not e.args and not e.keywords:
            inner = self.exp(e.func.value)
            if inner:
                return f"(.lower {inner})"
        return None

    def cond(self, t):
        src = _u(t)
        if src == f"isinstance({self.value}, bool)":
            return ".isBool"
        if src == f"isinstance({self.value}, str)":
            return ".isStr"
        if isinstance(t, ast.Compare) and len(t.ops) == 1 and len(t.comparators) == 1:
            left, op, right = t.left, t.ops[0], t.comparators[0]
            le = self.exp(left)
            if le and isinstance(op, ast.In) and isinstance(right, (ast.Tuple, ast.List, ast.Set)) and right.elts \
                    and all(isinstance(x, ast.Constant) and isinstance(x.value, str) for x in right.elts):
                return f"(.inLits {le} [{', '.join(_lean_str(x.value) for x in right.elts)}])"
            if le and isinstance(op, ast.Eq) and isinstance(right, ast.Constant) and isinstance(right.value, str):
                return f"(.eqLit {le} {_lean_str(right.value)})"
        self.notes.append("condition: " + src[:100])
        return ".unknown"

    def seq(self, stmts, tail=True):
        """`tail`: nothing of the function runs after this block. An assignment of a switch is modelled as the LAST thing
        on its path (`.setDisable` returns): it must be in tail position or be followed by a bare `return`."""
        stmts = self.unroll([st for st in stmts if not (isinstance(st, ast.Expr) and isinstance(st.value, ast.Constant))])
        out = []
        i = 0
        while i < len(stmts):
            st = stmts[i]
            last = i == len(stmts) - 1
            nxt_is_return = not last and isinstance(stmts[i + 1], ast.Return) and stmts[i + 1].value is None
            x = self.stmt(st, tail=(tail and last))
            if x in (".setDisable", ".setRemove") and not (tail and last):
                if nxt_is_return:
                    i += 1          # the `return` that follows is what the model already does
                else:
                    self.notes.append("a switch is assigned and the method goes on")
                    x = ".unknown"
            out.append(x)
            i += 1
        out = [x for x in out if x != ".skip"] or [".skip"]
        r = out[-1]
        for x in reversed(out[:-1]):
            r = f"(.seq {x} {r})"
        return r

    def unroll(self, stmts):
        """`for a, b in TABLE:` over a module-level tuple / list of pairs of string constants: written out, the loop
        variables replaced by the constants (the body may `return` / `raise`; `break` / `continue` are not handled)"""
        out = []
        for st in stmts:
            table = self.tables.get(ast.unparse(st.iter)) if isinstance(st, ast.For) else None
            if table is not None and not st.orelse and isinstance(st.target, ast.Tuple) and all(isinstance(e, ast.Name) for e in st.target.elts) \
                    and all(len(row) == len(st.target.elts) for row in table) and not any(isinstance(n, (ast.Break, ast.Continue)) for n in ast.walk(st)):
                names = [e.id for e in st.target.elts]
                for row in table:
                    env = dict(zip(names, row))

                    class Sub(ast.NodeTransformer):
                        def visit_Name(self, node, env=env):
                            if isinstance(node.ctx, ast.Load) and node.id in env:
                                return ast.copy_location(ast.Constant(env[node.id]), node)
                            return node

                    import copy

                    out.extend(ast.fix_missing_locations(Sub().visit(copy.deepcopy(b))) for b in st.body)
            else:
                out.append(st)
        return out

    def stmt(self, st, tail=True):
        if isinstance(st, ast.If):
            return f"(.ite {self.cond(st.test)} {self.seq(st.body, tail)} {self.seq(st.orelse, tail)})"
        # `setattr(self, "<switch>", _maybestr2bool(value, msg))`
        if isinstance(st, ast.Expr) and isinstance(st.value, ast.Call) and _u(st.value.func) == "setattr" and len(st.value.args) == 3 and not st.value.keywords \
                and _u(st.value.args[0]) == "self" and isinstance(st.value.args[1], ast.Constant) and isinstance(st.value.args[2], ast.Call) \
                and _u(st.value.args[2].func) == "_maybestr2bool" and len(st.value.args[2].args) == 2 and _u(st.value.args[2].args[0]) == self.value and not st.value.args[2].keywords:
            if st.value.args[1].value == "jaxtyping_disable":
                return ".setDisable"
            if st.value.args[1].value == "jaxtyping_remove_typechecker_stack":
                return ".setRemove"
        if isinstance(st, ast.Return) and st.value is not None:
            if isinstance(st.value, ast.Name) and st.value.id == self.value:
                return ".retValue"
            if isinstance(st.value, ast.Constant) and st.value.value is True:
                return "(.retConst true)"
            if isinstance(st.value, ast.Constant) and st.value.value is False:
                return "(.retConst false)"
        if isinstance(st, ast.Raise) and isinstance(st.exc, ast.Call) and _u(st.exc.func) == "ValueError" and st.cause is None:
            return ".raiseValueError"
        if isinstance(st, ast.Assign) and len(st.targets) == 1:
            t, v = st.targets[0], st.value
            if isinstance(t, ast.Name):
                e = self.exp(v)
                if e is not None and t.id not in (self.value, self.item):
                    self.locals[t.id] = e
                    return ".skip"
                if isinstance(v, (ast.Constant, ast.JoinedStr)) or (isinstance(v, ast.BinOp) and all(isinstance(x, (ast.Constant, ast.JoinedStr, ast.BinOp, ast.Add)) for x in ast.walk(v) if not isinstance(x, (ast.Load, ast.FormattedValue, ast.Name)))):
                    return ".message"
            if isinstance(t, ast.Attribute) and isinstance(t.value, ast.Name) and t.value.id == "self" and isinstance(v, ast.Call) \
                    and _u(v.func) == "_maybestr2bool" and len(v.args) == 2 and _u(v.args[0]) == self.value and not v.keywords:
                if t.attr == "jaxtyping_disable":
                    return ".setDisable"
                if t.attr == "jaxtyping_remove_typechecker_stack":
                    return ".setRemove"
        self.notes.append("statement: " + _u(st)[:100].replace("\n", " "))
        return ".unknown"


def run():
    with open(os.path.join(REPO, "jaxtyping", "_config.py")) as fh:
        tree = ast.parse(fh.read())
    notes = []
    parse_code = update_code = ".unknown"
    from inline import inline_helpers

    # module-level tables of tuples of string constants, bound once
    tables = {}
    for n in tree.body:
        if isinstance(n, ast.Assign) and len(n.targets) == 1 and isinstance(n.targets[0], ast.Name) and isinstance(n.value, (ast.Tuple, ast.List)) and n.value.elts \
                and all(isinstance(r, ast.Tuple) and r.elts and all(isinstance(c, ast.Constant) and isinstance(c.value, str) for c in r.elts) for r in n.value.elts):
            nm = n.targets[0].id
            if sum(1 for m in ast.walk(tree) if isinstance(m, ast.Name) and m.id == nm and isinstance(m.ctx, ast.Store)) == 1:
                tables[nm] = [[c.value for c in r.elts] for r in n.value.elts]
    fn = next((n for n in tree.body if isinstance(n, ast.FunctionDef) and n.name == "_maybestr2bool"), None)
    if fn is not None and len(fn.args.args) == 2 and not fn.decorator_list:
        t = ConfigTranslator(fn.args.args[0].arg)
        parse_code = t.seq(inline_helpers(fn, tree).body)
        notes += t.notes
    else:
        notes.append("_maybestr2bool not found / unexpected parameters")
    cls = next((n for n in tree.body if isinstance(n, ast.ClassDef) and n.name == "_JaxtypingConfig"), None)
    up = next((m for m in cls.body if isinstance(m, ast.FunctionDef) and m.name == "update"), None) if cls is not None else None
    plain_base = cls is not None and not cls.bases and not cls.keywords and not cls.decorator_list
    if up is not None and [a.arg for a in up.args.args][:1] == ["self"] and len(up.args.args) == 3 and not up.decorator_list and plain_base:
        t = ConfigTranslator(up.args.args[2].arg, up.args.args[1].arg, tables)
        update_code = t.seq(inline_helpers(up, tree, cls, exclude=("_maybestr2bool",)).body)
        notes += t.notes
    else:
        notes.append("_JaxtypingConfig.update not found / unexpected parameters / the class has bases or decorators")
    # `config` is ONE module-level instance of that class
    inst = [n for n in tree.body if isinstance(n, ast.Assign) and len(n.targets) == 1 and _u(n.targets[0]) == "config" and _u(n.value) == "_JaxtypingConfig()"]
    if len(inst) != 1:
        notes.append("`config = _JaxtypingConfig()` not found exactly once at module level")
        update_code = ".unknown"
    note = ("(" + "; ".join(notes)[:400].replace("-/", "- /") + ")") if notes else ""
    txt = f"""/- GENERATED by harness/translate_config.py from {REPO}/jaxtyping/_config.py on every run. Do not edit. -/
import JaxVerif.Model.ConfigDsl

namespace JV.Generated

/-- `_maybestr2bool(value, error)` {note} -/
def str2boolCode : CStmt :=
  {parse_code}

/-- `_JaxtypingConfig.update(self, item, value)` (a plain class, one module-level instance `config`) -/
def updateCode : CStmt :=
  {update_code}

end JV.Generated
"""
    write_if_changed(os.path.join(GEN, "ConfigCode.lean"), txt)
    return {"config_notes": notes, "parse": parse_code, "update": update_code}


if __name__ == "__main__":
    import json

    print(json.dumps(run(), indent=1))
