/-
Lemmas for the translated PyTree code (Model/TreeDsl.lean): a loop body that behaves like one round of the
model's leaf loop, iterated by `runFor`, is `leafLoop`. Proved once; the obligation about the body the
translator produces on each run (Source/Trees.lean) is then free of recursion. Core Lean only.
-/
import JaxVerif.Model.TreeDsl

namespace JV

/-- the leaf test the model's loop uses -/
def leafCheckOf (env : TEnv) : Obj → CState → CState × Verdict :=
  if env.leafAny then fun _ s => (s, .T) else env.leafCheck

/-- one round of the leaf loop of `_check`, as the model sees it (`treepathGuarded`) -/
def leafStepSpec (env : TEnv) (i : Nat) (x : Obj) (s : TSt) : TRes :=
  match (match env.S with
         | none => some s.st
         | some str => if s.st.tp.isSome then none else some { s.st with tp := some (i, str) }) with
  | none => .raised .ANN { s with cur := some (i, x) }
  | some st1 =>
    match leafCheckOf env x st1 with
    | (st2, .T) =>
      .normal { s with st := (if env.S.isNone then st2 else { st2 with tp := none }), cur := some (i, x) }
    | (st2, .F) => .ret false { s with st := st2, cur := some (i, x) }
    | (st2, v) => .raised v { s with st := st2, cur := some (i, x) }

/-- how the outcome of the model's loop looks from inside the interpreter -/
def loopRes (s : TSt) (r : CState × Verdict) : TRes :=
  match r with
  | (st', .T) => .normal { s with st := st', cur := none }
  | (st', .F) => .ret false { s with st := st', cur := none }
  | (st', v) => .raised v { s with st := st', cur := none }

/-- where a loop of the translated code is used: everywhere, or only with / only without a structure name -/
def guardHolds : Option Bool → TEnv → Prop
  | none, _ => True
  | some b, env => env.S.isSome = b

theorem runFor_leafLoop (env : TEnv) (sk : Skel) (hg : sk.treepathGuarded = true) (body : TSt → TRes)
    (hb : ∀ i x s, s.preds = some env.leafAny → body { s with cur := some (i, x) } = leafStepSpec env i x s) :
    ∀ (ls : List Obj) (i : Nat) (s : TSt), s.preds = some env.leafAny →
      runFor body ls i s = loopRes s (leafLoop sk (leafCheckOf env) env.S ls i s.st) := by
  intro ls
  induction ls with
  | nil => intro i s _; simp [runFor, leafLoop, loopRes]
  | cons x xs ih =>
    intro i s hp
    rw [runFor, hb i x s hp]
    conv => rhs; unfold leafLoop
    unfold leafStepSpec
    cases hS : env.S with
    | none =>
      simp only [Option.isNone_none, if_true, hg, Bool.and_self]
      generalize hc : leafCheckOf env x s.st = r
      obtain ⟨st2, v⟩ := r
      cases v with
      | T =>
        simp only
        rw [ih (i + 1) _ (by exact hp)]
        simp [loopRes, hS]
      | F => simp [loopRes]
      | ANN => simp [loopRes]
      | EXC e => simp [loopRes]
    | some str =>
      by_cases htp : s.st.tp.isSome = true
      · simp [htp, loopRes]
      · simp only [htp, if_false, Bool.false_eq_true]
        generalize hc : leafCheckOf env x { s.st with tp := some (i, str) } = r
        obtain ⟨st2, v⟩ := r
        cases v with
        | T =>
          simp only [Option.isNone_some, Bool.and_false, Bool.false_eq_true, if_false]
          rw [ih (i + 1) _ (by exact hp)]
          simp [loopRes, hS]
        | F => simp [loopRes]
        | ANN => simp [loopRes]
        | EXC e => simp [loopRes]

/-- an exception is never the answer True or False -/
def IsExcV : Verdict → Prop
  | .T => False
  | .F => False
  | _ => True

def FlatRes.RaisedOk : FlatRes → Prop
  | .ok _ _ => True
  | .raised v => IsExcV v

def FlatListRes.RaisedOk : FlatListRes → Prop
  | .ok _ _ => True
  | .raised v => IsExcV v

theorem wrapNode_raisedOk (k : Kind) (p : CState × FlatListRes) (h : p.2.RaisedOk) : (wrapNode k p).2.RaisedOk := by
  rcases p with ⟨st, _ | _⟩ <;> exact h

mutual
/-- when flattening does not finish, what comes out is an exception (AnnotationError or user code's), never a verdict -/
theorem flat_raisedOk (f : Obj → CState → CState × Verdict) (u : Bool) :
    ∀ (x : Obj) (st : CState), (flat f u x st).2.RaisedOk
  | x, st => by
    rw [flat]
    generalize (if u then f x st else (st, Verdict.F)) = r
    obtain ⟨st', v⟩ := r
    cases v with
    | T => trivial
    | ANN => trivial
    | EXC e => trivial
    | F =>
      cases x with
      | tuple xs => exact wrapNode_raisedOk _ _ (flatList_raisedOk f u xs st')
      | list xs => exact wrapNode_raisedOk _ _ (flatList_raisedOk f u xs st')
      | dict ks vs => exact wrapNode_raisedOk _ _ (flatList_raisedOk f u vs st')
      | ntuple tag xs => exact wrapNode_raisedOk _ _ (flatList_raisedOk f u xs st')
      | custom tag fault xs =>
        cases fault with
        | some e => trivial
        | none => exact wrapNode_raisedOk _ _ (flatList_raisedOk f u xs st')
      | none => trivial
      | int n => trivial
      | str s => trivial
      | «opaque» t => trivial
      | arr c a => trivial
theorem flatList_raisedOk (f : Obj → CState → CState × Verdict) (u : Bool) :
    ∀ (xs : List Obj) (st : CState), (flatList f u xs st).2.RaisedOk
  | [], st => by rw [flatList]; trivial
  | x :: xs, st => by
    have h1 := flat_raisedOk f u x st
    rw [flatList]
    generalize flat f u x st = r at h1
    obtain ⟨st1, _ | _⟩ := r
    · dsimp only
      have h2 := flatList_raisedOk f u xs st1
      generalize flatList f u xs st1 = r2 at h2
      obtain ⟨st2, _ | _⟩ := r2
      · trivial
      · exact h2
    · exact h1
end

/-- the leaf check hands the flatten-mode flag back as it found it (true of every leaf type of the model: a nested
    PyTree switches it on and puts the previous value back) -/
def FlattenKept (f : Obj → CState → CState × Verdict) : Prop := ∀ x st, (f x st).1.flatten = st.flatten

theorem wrapNode_fst'' (k : Kind) (p : CState × FlatListRes) : (wrapNode k p).1 = p.1 := by
  rcases p with ⟨st, _ | _⟩ <;> rfl

mutual
theorem flat_flattenKept (f : Obj → CState → CState × Verdict) (hf : FlattenKept f) (u : Bool) :
    ∀ (x : Obj) (st : CState), (flat f u x st).1.flatten = st.flatten
  | x, st => by
    have h0 : (if u then f x st else (st, Verdict.F)).1.flatten = st.flatten := by
      cases u
      · rfl
      · exact hf x st
    rw [flat]
    generalize (if u then f x st else (st, Verdict.F)) = r at h0
    obtain ⟨st', v⟩ := r
    cases v with
    | T => exact h0
    | ANN => exact h0
    | EXC e => exact h0
    | F =>
      cases x with
      | tuple xs => simp only [wrapNode_fst'']; exact (flatList_flattenKept f hf u xs st').trans h0
      | list xs => simp only [wrapNode_fst'']; exact (flatList_flattenKept f hf u xs st').trans h0
      | dict ks vs => simp only [wrapNode_fst'']; exact (flatList_flattenKept f hf u vs st').trans h0
      | ntuple tag xs => simp only [wrapNode_fst'']; exact (flatList_flattenKept f hf u xs st').trans h0
      | custom tag fault xs =>
        cases fault with
        | some e => exact h0
        | none => simp only [wrapNode_fst'']; exact (flatList_flattenKept f hf u xs st').trans h0
      | none => exact h0
      | int n => exact h0
      | str s => exact h0
      | «opaque» t => exact h0
      | arr c a => exact h0
theorem flatList_flattenKept (f : Obj → CState → CState × Verdict) (hf : FlattenKept f) (u : Bool) :
    ∀ (xs : List Obj) (st : CState), (flatList f u xs st).1.flatten = st.flatten
  | [], st => by rw [flatList]
  | x :: xs, st => by
    have h1 := flat_flattenKept f hf u x st
    rw [flatList]
    generalize flat f u x st = r at h1
    obtain ⟨st1, _ | _⟩ := r
    · dsimp only
      have h2 := flatList_flattenKept f hf u xs st1
      generalize flatList f u xs st1 = r2 at h2
      obtain ⟨st2, _ | _⟩ := r2
      · exact h2.trans h1
      · exact h2.trans h1
    · exact h1
end

end JV
