import JaxVerif.Properties.C12

#print axioms JV.C12_rest_invariant
#print axioms JV.C12_check_flags
#print axioms JV.C12_pure_verdict
#print axioms JV.C12_generated_good
#print axioms JV.C12_facts_matter
#print axioms JV.C12_no_other_state
#print axioms JV.C12_source_flags
#print axioms JV.C12_source_flag_cell
