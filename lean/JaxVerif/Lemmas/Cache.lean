/-
Lemmas for C18: with the cache-name patch confined to `get_code`, every load of every run of
every history executes the code its current source and hook configuration call for.
The definitions `CacheInv` / `LoadOk` of Properties/C18.lean are stated here unfolded
(`CacheInv'`, `LoadOk'`), so that the property file's theorems are these lemmas by definitional
unfolding.
-/
import JaxVerif.Model.Cache

namespace JV

/-- `CacheInv` of Properties/C18.lean, unfolded -/
def CacheInv' (c : Cache) : Prop :=
  ∀ k v code, cacheLookup c k = some (v, code) →
    code.version = v ∧ code.instr = (match k.2 with | .default => none | .jaxtyping key => some key)

/-- `LoadOk` of Properties/C18.lean, unfolded -/
def LoadOk' (versions : String → Nat) (l : Load) (out : String × CodeDesc) : Prop :=
  out.1 = l.name ∧ out.2.version = versions l.name ∧ out.2.instr = l.hookedWith

theorem lookup_filter_ne {α β : Type} [BEq α] [LawfulBEq α] (c : List (α × β)) (k k' : α)
    (h : k' ≠ k) : (c.filter (fun e => e.1 != k)).lookup k' = c.lookup k' := by
  induction c with
  | nil => rfl
  | cons e c ih =>
    obtain ⟨a, b⟩ := e
    by_cases ha : a = k
    · subst ha
      have : (k' == a) = false := by simpa using h
      simp [List.lookup_cons, this, ih]
    · have : (a != k) = true := by simpa using ha
      simp only [List.filter_cons, this, if_true, List.lookup_cons, ih]

theorem cacheLookup_store (c : Cache) (k k' : String × Tag) (v : Nat × CodeDesc) :
    cacheLookup (cacheStore c k v) k' = if k' = k then some v else cacheLookup c k' := by
  unfold cacheLookup cacheStore
  by_cases h : k' = k
  · subst h; simp
  · have : (k' == k) = false := by simpa using h
    simp only [List.lookup_cons, this, h, if_false]
    exact lookup_filter_ne c k k' h

theorem tagFor_getCode (w : Bool) (l : Load) :
    tagFor .getCode w l = (match l.hookedWith with | some key => .jaxtyping key | none => .default) := by
  unfold tagFor
  cases l.hookedWith <;> cases w <;> rfl

theorem instr_tagFor_getCode (w : Bool) (l : Load) :
    (match (tagFor .getCode w l) with | .default => none | .jaxtyping key => some key) = l.hookedWith := by
  rw [tagFor_getCode]
  cases l.hookedWith <;> rfl

theorem cacheInv_store (c : Cache) (hc : CacheInv' c) (w : Bool) (version : Nat) (l : Load) :
    CacheInv' (cacheStore c (l.name, tagFor .getCode w l) (version, ⟨version, l.hookedWith⟩)) := by
  intro k v code hk
  rw [cacheLookup_store] at hk
  by_cases h : k = (l.name, tagFor .getCode w l)
  · rw [if_pos h] at hk
    cases hk
    subst h
    exact ⟨rfl, (instr_tagFor_getCode w l).symm⟩
  · rw [if_neg h] at hk
    exact hc k v code hk

theorem cacheInv_maybe_store (c : Cache) (hc : CacheInv' c) (w : Bool) (version : Nat) (l : Load) :
    CacheInv' (if w then cacheStore c (l.name, tagFor .getCode w l) (version, ⟨version, l.hookedWith⟩) else c) := by
  cases w
  · exact hc
  · exact cacheInv_store c hc true version l

theorem loadModule_ok (w : Bool) (version : Nat) (c : Cache) (hc : CacheInv' c) (l : Load) :
    CacheInv' (loadModule .getCode w version c l).1 ∧
      (loadModule .getCode w version c l).2.version = version ∧
      (loadModule .getCode w version c l).2.instr = l.hookedWith := by
  unfold loadModule
  simp only
  cases hlk : cacheLookup c (l.name, tagFor .getCode w l) with
  | none => exact ⟨cacheInv_maybe_store c hc w version l, rfl, rfl⟩
  | some vc =>
    obtain ⟨v, code⟩ := vc
    by_cases hv : v = version
    · dsimp only
      rw [if_pos hv]
      obtain ⟨h1, h2⟩ := hc _ _ _ hlk
      refine ⟨hc, h1.trans hv, ?_⟩
      rw [h2]; exact instr_tagFor_getCode w l
    · dsimp only
      rw [if_neg hv]
      exact ⟨cacheInv_maybe_store c hc w version l, rfl, rfl⟩

theorem runLoads_ok (w : Bool) (versions : String → Nat) (ls : List Load) (c : Cache) (hc : CacheInv' c) :
    CacheInv' (runLoads .getCode w versions c ls).1 ∧
      (runLoads .getCode w versions c ls).2.length = ls.length ∧
      ∀ p ∈ ls.zip (runLoads .getCode w versions c ls).2, LoadOk' versions p.1 p.2 := by
  induction ls generalizing c with
  | nil => exact ⟨hc, rfl, by simp [runLoads]⟩
  | cons l ls ih =>
    obtain ⟨h1, h2, h3⟩ := loadModule_ok w (versions l.name) c hc l
    obtain ⟨i1, i2, i3⟩ := ih _ h1
    simp only [runLoads]
    refine ⟨i1, by simp [i2], ?_⟩
    intro p hp
    simp only [List.zip_cons_cons, List.mem_cons] at hp
    rcases hp with rfl | hp
    · exact ⟨rfl, h2, h3⟩
    · exact i3 p hp

theorem history_correct' (runs : List CacheRun) (c : Cache) (hc : CacheInv' c) :
    CacheInv' (runHistory .getCode c runs).1 ∧ (runHistory .getCode c runs).2.length = runs.length ∧
    ∀ i (hi : i < runs.length) (hi' : i < (runHistory .getCode c runs).2.length),
      ((runHistory .getCode c runs).2[i]).length = (runs[i]).loads.length ∧
      ∀ p ∈ (runs[i]).loads.zip ((runHistory .getCode c runs).2[i]), LoadOk' (runs[i]).versions p.1 p.2 := by
  induction runs generalizing c with
  | nil => exact ⟨hc, rfl, fun i hi => absurd hi (Nat.not_lt_zero i)⟩
  | cons r rs ih =>
    obtain ⟨h1, h2, h3⟩ := runLoads_ok r.writes r.versions r.loads c hc
    obtain ⟨i1, i2, i3⟩ := ih _ h1
    simp only [runHistory]
    refine ⟨i1, by simp [i2], ?_⟩
    intro i hi hi'
    cases i with
    | zero => exact ⟨h2, h3⟩
    | succ j =>
      simp only [List.getElem_cons_succ]
      exact i3 j (by simpa using hi) (by simpa using hi')

theorem history_correct (c : Cache) (hc : CacheInv' c) (runs : List CacheRun) :
    let r := runHistory .getCode c runs
    CacheInv' r.1 ∧ r.2.length = runs.length ∧
    ∀ i (hi : i < runs.length) (hi' : i < r.2.length),
      (r.2[i]).length = (runs[i]).loads.length ∧
      ∀ p ∈ (runs[i]).loads.zip (r.2[i]), LoadOk' (runs[i]).versions p.1 p.2 :=
  history_correct' runs c hc

theorem cacheInv_nil : CacheInv' [] := by
  intro k v code h
  simp [cacheLookup] at h

theorem tags_distinct (w₁ w₂ : Bool) (l₁ l₂ : Load) (h : l₁.hookedWith ≠ l₂.hookedWith) :
    tagFor .getCode w₁ l₁ ≠ tagFor .getCode w₂ l₂ := by
  intro heq
  apply h
  rw [← instr_tagFor_getCode w₁ l₁, ← instr_tagFor_getCode w₂ l₂, heq]

end JV
