/-
C10 — the import hook only adds decorators: everything else in the module is untouched.
-/
import JaxVerif.Model.HookAst
import JaxVerif.Generated.Hook
import JaxVerif.Lemmas.HookAst
import JaxVerif.Generated.HookCode
import JaxVerif.Source.Loader

namespace JV

/-- **erase ∘ transform = id**, for every tree (every program): removing the one import after the
    prologue, the last decorator of every `def` and the first of every `class` gives back the
    original tree — every other node, every location, the docstring and `__future__` imports and
    their order included -/
theorem C10_erase (t : Node) (h : clean t = true) : eraseModule (transformModule t) = t :=
  erase_transformModule t h

/-- exactly one decorator per synchronous `def` and per `class`, at any nesting depth; none on
    `async def` (whose nested synchronous definitions are still reached) -/
theorem C10_count (t : Node) (h : clean t = true) :
    countKind (fun k => k == .jaxtypedDecorator) (transformModule t) =
      countKind (fun k => k == .funcDef || k == .classDef) t :=
  count_decorators t h

/-- one import iff the module has a statement after its docstring / `__future__` prologue -/
theorem C10_import_count (l : Loc) (decos kids : List Node) (h : cleanList kids = true) :
    countKindList (fun k => k == .importJaxtyping) (insertImport kids) =
      if kids.all isPrologue then 0 else 1 :=
  count_import l decos kids h

/-- **positions**: the import sits exactly after the maximal prefix of `__future__` imports and
    constant-expression statements -/
theorem C10_import_position (kids : List Node) (hne : kids.all isPrologue = false) :
    ∃ pre post, kids = pre ++ post ∧ pre.all isPrologue = true ∧
      (∃ n rest, post = n :: rest ∧ isPrologue n = false) ∧
      insertImport kids = pre ++ importNode :: post :=
  insertImport_position kids hne

/-- the `def` decorator is innermost (last), the `class` decorator outermost (first), both carry the
    location of the definition they decorate; `async def` gets none -/
theorem C10_positions (l : Loc) (decos kids : List Node) :
    transform (.mk .funcDef l decos kids) = .mk .funcDef l (transformList decos ++ [decoNode l]) (transformList kids) ∧
    transform (.mk .classDef l decos kids) = .mk .classDef l (decoNode l :: transformList decos) (transformList kids) ∧
    transform (.mk .asyncFuncDef l decos kids) = .mk .asyncFuncDef l (transformList decos) (transformList kids) :=
  transform_positions l decos kids

/-- what the current source does (re-extracted on every run): append for `def`, insert(0) for
    `class`, copy_location on both, insertion before the first non-prologue statement, no visitor
    for `AsyncFunctionDef` / `Lambda`; the decorator text looks the typechecker up under the key the table is filled
    under, in a table that is a plain dict on the class and never pruned (definitions nested in functions look it up
    every time the enclosing function runs) -/
theorem C10_generated_good :
    Generated.hookDefDecorator = "append" ∧ Generated.hookClassDecorator = "insert0" ∧
    Generated.hookCopiesLocation = true ∧ Generated.hookImportRule = "before-first-non-prologue" ∧
    Generated.hookVisitors = ["visit_ClassDef", "visit_FunctionDef", "visit_Module"] ∧
    Generated.hookCompileIsolated = true ∧ Generated.hookKeyChain = "md5-everywhere" := by decide

/-! non-vacuity -/
private def L (n : Nat) : Loc := ⟨n, 0, n, 9⟩
private def sample : Node :=
  .mk .module (L 0) [] [
    .mk .constExpr (L 1) [] [], .mk .futureImport (L 2) [] [],
    .mk .classDef (L 3) [.mk (.other "Name") (L 3) [] []] [
      .mk .funcDef (L 4) [] [.mk (.other "If") (L 5) [] [.mk .funcDef (L 6) [.mk (.other "Name") (L 6) [] []] []]],
      .mk .asyncFuncDef (L 7) [] [.mk .funcDef (L 8) [] []]]]
example : eraseModule (transformModule sample) = sample := by decide
example : countKind (fun k => k == .jaxtypedDecorator) (transformModule sample) = 4 := by decide
example : countKind (fun k => k == .importJaxtyping) (transformModule sample) = 1 := by decide

/-! ### the visitor methods as written today -/

theorem transform_decoNode (l : Loc) : transform (decoNode l) = decoNode l := by
  simp [decoNode, transform, transformList]

theorem transformList_append (a b : List Node) : transformList (a ++ b) = transformList a ++ transformList b := by
  induction a with
  | nil => simp [transformList]
  | cons x xs ih => simp [transformList, ih]

/-- **the three visitor methods, translated from the current source on this run, are the model's transformation**: on
    EVERY function definition, class definition and module (any location, any decorators, any children)
    `visit_FunctionDef` / `visit_ClassDef` / `visit_Module` build the decorator, give it the node's location, put it last /
    first, visit decorators and children with the same visitor (`generic_visit` = the model's `transformList`), leave the
    parent stack as they found it and return the node — exactly `transform` / `transformModule`. `C10_erase`, `C10_count`,
    `C10_import_position` and `C10_positions` are therefore statements about the code the source contains. -/
theorem C10_source_visitors (l : Loc) (decos kids : List Node) :
    runVisitor Generated.visitFunctionDefCode (.mk .funcDef l decos kids) = some (transform (.mk .funcDef l decos kids)) ∧
    runVisitor Generated.visitClassDefCode (.mk .classDef l decos kids) = some (transform (.mk .classDef l decos kids)) ∧
    runVisitor Generated.visitModuleCode (.mk .module l decos kids) = some (transformModule (.mk .module l decos kids)) := by
  refine ⟨?_, ?_, ?_⟩
  · simp [runVisitor, Generated.visitFunctionDefCode, HStmt.run, transform, transformList_append, transformList, transform_decoNode]
  · simp [runVisitor, Generated.visitClassDefCode, HStmt.run, transform, transformList_append, transformList, transform_decoNode]
  · simp [runVisitor, Generated.visitModuleCode, HStmt.run, transformModule, transformList_append, transformList, transform_decoNode]

/-- what a hooked import compiles, from the source read today (harness/translate_loader.py): the bytes decoded by
    `decode_source` (coding cookie, BOM), parsed, passed through the transformer above, located, and nothing else -/
theorem C10_source_to_code (key : String) (writes : Bool) (gc : LSt → LRes) (active : Option String) :
    Generated.sourceToCodeCode.run key writes gc (LSt.fresh active) = .code ⟨true, true⟩ :=
  source_loader_to_code key writes gc active

end JV
