/-
Model of the dtype part of `__instancecheck_str__` (jaxtyping/_array_types.py): how the dtype
*name* is extracted from `obj.dtype` for each kind of array library, and the match against
the category's list of names.
-/
import JaxVerif.Model.Core

namespace JV

/-- what the code can see of `obj.dtype` -/
structure RawDtype where
  /-- `obj.dtype.type.__name__` when `obj.dtype` has a `type` with a `__name__` (NumPy, JAX) -/
  typeName : Option String := none
  /-- `str(obj.dtype)` when the dtype is a NumPy structured dtype -/
  structStr : Option String := none
  /-- `obj.dtype.name` when `obj.dtype` is a `numpy.dtype` of kind i/u/f/c -/
  npName : Option String := none
  /-- `obj.dtype.as_numpy_dtype.__name__` (TensorFlow) -/
  asNumpyName : Option String := none
  /-- the dtype itself when it is a `str` (duck arrays) -/
  strVal : Option String := none
  /-- `repr(obj.dtype)` when the dtype is some other object (PyTorch / MLX style: `torch.float32`,
      `mlx.core.float32`, or a bare `float32`) -/
  reprFull : String := ""
  deriving Repr, DecidableEq

/-- how the source cuts the name out of `repr(obj.dtype)` (read from the source by the translator) -/
inductive ReprRule
  | lastComponent    -- `*_, dtype = repr(obj.dtype).rsplit(".", 1)`: after the LAST dot, all of it without one
  | afterFirstDot    -- `partition(".")`: after the FIRST dot, empty without one
  | unknown
  deriving Repr, DecidableEq

def cutLastComponent (cs : List Char) : List Char :=
  cs.foldl (fun acc c => if c == '.' then [] else acc ++ [c]) []

def cutAfterFirstDot : List Char → List Char
  | [] => []
  | c :: cs => if c == '.' then cs else cutAfterFirstDot cs

def ReprRule.cut : ReprRule → String → String
  | .lastComponent, s => String.ofList (cutLastComponent s.toList)
  | .afterFirstDot, s => String.ofList (cutAfterFirstDot s.toList)
  | .unknown, _ => "?"

/-- `npCanonical`: the source has the branch that prefers `dtype.name` for NumPy numeric dtypes
    (read from the source by the translator) -/
def extractName (npCanonical : Bool) (rule : ReprRule) (r : RawDtype) : String :=
  match r.typeName with
  | some tn =>
    match r.structStr with
    | some s => s
    | none => if npCanonical then r.npName.getD tn else tn
  | none =>
    match r.asNumpyName with
    | some n => n
    | none =>
      match r.strVal with
      | some s => s
      | none => rule.cut r.reprFull

/-- `AbstractDtype.__init_subclass__`: a single string becomes a one-element tuple -/
inductive UserDtypes
  | one (s : String)
  | many (l : List String)
  deriving Repr, DecidableEq

def UserDtypes.normalize : UserDtypes → DtypeSpec
  | .one s => .names [s]
  | .many l => .names l

end JV
