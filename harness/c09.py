"""C09 — PyTree structure names bind, compose, prefix and suffix exactly as documented."""
import itertools
import json

import gen_prog
import impl_prog
import progcheck
from common import Rng
from gen_prog import INT, ival
from jaxtyping import PyTree

LEVEL = "proof"
THEOREMS = ["C09_bind", "C09_compose", "C09_compose_two", "C09_prefix", "C09_suffix", "C09_unbound", "C09_validate", "C09_validate_forms"]
RULE = (
    "triples (t bound to T, s bound to S, candidate x) drawn from a pool of trees over tuple/list/dict/None "
    "(quick: all triples over a 12-tree pool; thorough: 24-tree pool + random depth-4 trees) x the forms "
    "'T', 'S T', 'T S', 'T ...', '... T', 'S T ...', '... S T', 'T T'; unbound names in composites; all "
    "leaf types whose check rolls the context back inside the leaf loop (unions of array annotations) or WHILE THE TREE IS BEING FLATTENED "
    "(a nested PyTree as first member of a union, failing at inner nodes) x pairs of trees x four forms; ten spellings of the composites with other separators; "
    "leaf types whose values are containers or None; structure strings of <=4 pieces over {T, S, ..., 1x, a.b} with whitespace variants at build time; "
    "non-trivial = the candidate is neither identical to t nor a bare leaf; distinct by (t, s, x, form)"
)
TRUSTED = [
    "Lean 4 kernel",
    "jax.tree_util: PyTreeDef equality, tree_map prefix rule (ValueError on mismatch), tree_leaves(is_leaf=...)",
]

FORMS = ["T", "S T", "T S", "T ...", "... T", "S T ...", "... S T", "T T", "S"]


def pool(n):
    L = ival(0)
    N = {"t": "none"}
    tup = lambda *xs: {"t": "tuple", "xs": list(xs)}  # noqa: E731
    lst = lambda *xs: {"t": "list", "xs": list(xs)}  # noqa: E731
    dct = lambda **kv: {"t": "dict", "keys": sorted(kv), "vals": [kv[k] for k in sorted(kv)]}  # noqa: E731
    base = [L, tup(L, L), lst(L), tup(), dct(a=L), N, tup(L, N), tup(tup(L, L), tup(L, L)), lst(tup(L, L)), dct(a=tup(L, L)),
            tup(lst(L), lst(L)), lst(lst(L)),
            tup(L, tup(L, L)), dct(a=L, b=L), lst(L, L), tup(N), lst(), dct(a=dct(a=L)), tup(tup(), L), lst(dct(a=L), dct(a=L)),
            tup(tup(tup(L, L), tup(L, L)), tup(tup(L, L), tup(L, L))), lst(N, L), tup(L, L, L), dct(b=lst(L))]
    return base[:n]


def as_violation(got, want):
    gv, wv = progcheck.verdicts(got), progcheck.verdicts(want)
    if gv != wv:
        k = next(i for i, (a, b) in enumerate(zip(gv, wv)) if a != b)
        return (f"structure:{wv[k]}->{gv[k]}", f"a structure check answers {gv[k]} where the documented meaning requires {wv[k]}")
    gb = [o["m"]["struct"] for o in got if o["o"] == "bindings"]
    wb = [o["m"]["struct"] for o in want if o["o"] == "bindings"]
    if gb != wb:
        return ("structure-bindings", f"the structure names bound are {gb} but must be {wb}")
    return None


def fresh_thread_cases(out):
    """the FIRST structured check a thread ever makes (per-thread state that exists on the importing thread only would
    fail exactly here): binding, comparing and the three composite forms on a thread started for the purpose, each
    compared with what the documented meaning gives"""
    import threading

    import impl
    from jaxtyping import jaxtyped

    T, S = PyTree[int, "T"], PyTree[int, "S"]
    scenarios = [
        ("bind then compare", [((1, 2), T, "T"), ((3, 4), T, "T"), ((1, 2, 3), T, "F")]),
        ("compose", [((1, 2), T, "T"), ([0], S, "T"), ([(1, 2)], PyTree[int, "S T"], "T"), ([(1, 2), (3, 4)], PyTree[int, "S T"], "F")]),
        ("prefix / suffix", [((1, 2), T, "T"), (([5], [6, 7]), PyTree[int, "T ..."], "T"), ({"a": (1, 2), "b": (3, 4)}, PyTree[int, "... T"], "T"), ({"a": (1, 2), "b": 3}, PyTree[int, "... T"], "F")]),
    ]
    for sname, steps in scenarios:
        box = {}

        def work():
            got = []
            try:
                with jaxtyped("context"):
                    for x, ann, _ in steps:
                        got.append(impl.check_once(x, ann))
            except BaseException as e:  # noqa: BLE001
                got.append("raised " + type(e).__name__)
            box["got"] = got

        t = threading.Thread(target=work)
        t.start()
        t.join(60)
        want = [w for *_, w in steps]
        out.case(("fresh-thread", sname), True, sample={"scenario": sname, "verdicts": box.get("got")})
        if box.get("got") != want:
            out.violation("fresh-thread", f"the first structured PyTree checks of a freshly started thread ({sname}): verdicts {box.get('got')}, the documented meaning gives {want}",
                          {"fresh_thread": sname})
            return


def run(tier, seed, out, drv, facts):
    rng = Rng(seed, "C09")
    thorough = tier == "thorough"
    fresh_thread_cases(out)
    trees = pool(24 if thorough else 12)
    triples = list(itertools.product(trees, repeat=3))
    if thorough:
        triples = rng.sample(triples, 6000)
        for _ in range(1500):
            triples.append(tuple(gen_prog.rand_tree(rng, rng.rng(1, 4), lambda: ival(0), kinds=("tuple", "list", "dict", "none", "leaf", "leaf")) for _ in range(3)))
    for t, s, x in triples:
        body = [{"op": "check", "l": {"t": "pytree", "l": INT, "s": "T"}, "x": t},
                {"op": "check", "l": {"t": "pytree", "l": INT, "s": "S"}, "x": s}]
        for form in FORMS:
            body.append({"op": "check", "l": {"t": "pytree", "l": INT, "s": form}, "x": x})
        body.append({"op": "print"})
        prog = [{"op": "ctx", "body": body, "exit": "ret"}]
        got, want = progcheck.compare_program(out, drv, facts, prog, "triple", rng=rng, as_violation=as_violation, shrink=False)
        out.case((json.dumps(t), json.dumps(s), json.dumps(x)), x != t and x["t"] != "int", sample={"T": t, "S": s, "x": x, "verdicts": dict(zip(["T", "S"] + FORMS, progcheck.verdicts(got)))})
        for f, v in zip(FORMS, progcheck.verdicts(got)[2:]):
            out.count(f"{f}:{v}")
    # the names are arbitrary identifiers: the same triples with T / S renamed (underscores, digits, longer names) give the
    # verdicts of the model, which are those of T / S
    renames = [("tree_t", "tree_s"), ("_t", "_s"), ("T_1", "T_2"), ("Tree1", "Tree2"), ("__", "_0")]

    def ren(form, a, b):
        return " ".join({"T": a, "S": b}.get(tok, tok) for tok in form.split())

    for t, s, x in rng.sample(list(itertools.product(trees[:8], repeat=3)), 60 if thorough else 16):
        for a, b in renames:
            body = [{"op": "check", "l": {"t": "pytree", "l": INT, "s": a}, "x": t},
                    {"op": "check", "l": {"t": "pytree", "l": INT, "s": b}, "x": s}]
            for form in FORMS:
                body.append({"op": "check", "l": {"t": "pytree", "l": INT, "s": ren(form, a, b)}, "x": x})
            body.append({"op": "print"})
            prog = [{"op": "ctx", "body": body, "exit": "ret"}]
            got, want = progcheck.compare_program(out, drv, facts, prog, "renamed", rng=rng, as_violation=as_violation, shrink=False)
            out.case(("renamed", a, json.dumps(t), json.dumps(s), json.dumps(x)), True, sample={"names": [a, b], "T": t, "S": s, "x": x, "verdicts": progcheck.verdicts(got)})
    # a structure-named PyTree as (part of) the LEAF TYPE of another PyTree: while the outer tree is being flattened the
    # inner check is tried at inner nodes, binds its name, and fails on a leaf — the name must be unbound again, whether
    # the outer check then succeeds (through another union member) or fails, and a later first use binds it
    from gen_prog import STR, sval

    def tup(*xs):
        return {"t": "tuple", "xs": list(xs)}

    inner = {"t": "pytree", "l": INT, "s": "S"}
    outers = [("PyTree[Union[str, PyTree[int,'S']]]", {"t": "pytree", "l": {"t": "union", "ts": [STR, inner]}, "s": None}),
              ("PyTree[PyTree[int,'S']]", {"t": "pytree", "l": inner, "s": None}),
              ("PyTree[Union[PyTree[int,'S'], str]]", {"t": "pytree", "l": {"t": "union", "ts": [inner, STR]}, "s": None})]
    firsts = [tup(sval("a"), sval("b")), tup(sval("a"), ival(1)), tup(tup(ival(1), sval("x")), sval("b")), {"t": "list", "xs": [tup(ival(1), ival(2)), sval("s")]}]
    for oname, outer in outers:
        for first in firsts:
            body = [{"op": "check", "l": outer, "x": first},
                    {"op": "check", "l": inner, "x": tup(ival(1), ival(2), ival(3))},
                    {"op": "check", "l": inner, "x": tup(ival(4), ival(5))},
                    {"op": "check", "l": {"t": "pytree", "l": INT, "s": "S T"}, "x": tup(ival(4), ival(5))},
                    {"op": "print"}]
            prog = [{"op": "ctx", "body": body, "exit": "ret"}]
            got, want = progcheck.compare_program(out, drv, facts, prog, "nested-named", rng=rng, as_violation=as_violation, shrink=False)
            out.case(("nested-named", oname, json.dumps(first)), True, sample={"outer": oname, "first": first, "verdicts": progcheck.verdicts(got)})
    # leaf types whose VALUES are containers or None (tuple[int, int], Optional[int]): the structure of a value as a
    # PyTree of L stops at the leaves of type L, it is not what flattening the raw value gives
    from gen_prog import TUP_II

    def subst(tree, leaf):
        if tree["t"] == "int":
            return leaf
        if "xs" in tree:
            return dict(tree, xs=[subst(c, leaf) for c in tree["xs"]])
        if "vals" in tree:
            return dict(tree, vals=[subst(c, leaf) for c in tree["vals"]])
        return tree

    OPT = {"t": "union", "ts": [INT, {"t": "none"}]}
    small = pool(12)
    for lname, lt, leaf in (("tuple[int,int]", TUP_II, {"t": "tuple", "xs": [ival(1), ival(2)]}), ("Optional[int]", OPT, ival(3))):
        fam = [subst(t, leaf) for t in small]
        trip = list(itertools.product(fam, repeat=3))
        for t, s_, x in (trip if thorough else rng.sample(trip, 250)):
            body = [{"op": "check", "l": {"t": "pytree", "l": lt, "s": "T"}, "x": t},
                    {"op": "check", "l": {"t": "pytree", "l": lt, "s": "S"}, "x": s_}]
            for form in FORMS:
                body.append({"op": "check", "l": {"t": "pytree", "l": lt, "s": form}, "x": x})
            body.append({"op": "print"})
            prog = [{"op": "ctx", "body": body, "exit": "ret"}]
            got, want = progcheck.compare_program(out, drv, facts, prog, "container-leaves", rng=rng, as_violation=as_violation, shrink=False)
            out.case(("container-leaves", lname, json.dumps(t), json.dumps(s_), json.dumps(x)), True,
                     sample={"leaf_type": lname, "T": t, "S": s_, "x": x, "verdicts": dict(zip(["T", "S"] + FORMS, progcheck.verdicts(got)))})
    # leaf types whose check rolls the context back in the middle of the leaf loop (a Union of array
    # annotations whose first alternative fails on a matrix leaf, a structure-less PyTree of such): binding
    # and comparing the structure name must not depend on what the leaf checks do to the context
    U = {"t": "union", "ts": [gen_prog.arr_type("n"), gen_prog.arr_type("n m")]}
    leaf_types = [("Union[arr n, arr n m]", U), ("PyTree[Union[...]]", {"t": "pytree", "l": U, "s": None}),
                  ("Union[int, arr n m]", {"t": "union", "ts": [INT, gen_prog.arr_type("n m")]})]

    def with_arrays(tree, k=[0]):
        if tree["t"] == "int":
            k[0] += 1
            return gen_prog.arr_val([3, 2]) if k[0] % 3 else gen_prog.arr_val([3])
        if "xs" in tree:
            return dict(tree, xs=[with_arrays(c, k) for c in tree["xs"]])
        if "vals" in tree:
            return dict(tree, vals=[with_arrays(c, k) for c in tree["vals"]])
        return tree

    small = [t for t in trees[:10] if t["t"] != "int"]
    for lname, lt in leaf_types:
        for t, x in itertools.product(small, repeat=2):
            ta, xa = with_arrays(t), with_arrays(x)
            body = [{"op": "check", "l": {"t": "pytree", "l": lt, "s": "T"}, "x": ta}, {"op": "print"}]
            for form in ("T", "T ...", "... T", "T T"):
                body.append({"op": "check", "l": {"t": "pytree", "l": lt, "s": form}, "x": xa})
            body.append({"op": "print"})
            prog = [{"op": "ctx", "body": body, "exit": "ret"}]
            got, want = progcheck.compare_program(out, drv, facts, prog, "rollback-leaf", rng=rng, as_violation=as_violation, shrink=False)
            out.case(("rollback-leaf", lname, json.dumps(t), json.dumps(x)), True, sample={"leaf_type": lname, "T": ta, "x": xa, "verdicts": progcheck.verdicts(got)})
    # leaf types whose test FAILS at inner nodes WHILE THE TREE IS BEING FLATTENED and rolls the context back there (a
    # structure-less PyTree as the first member of a union: the root is not a `PyTree[int]` when a `str` sits in it):
    # the name is bound once flattening is over, in the context as it is THEN
    NP = {"t": "union", "ts": [{"t": "pytree", "l": INT, "s": None}, gen_prog.STR]}
    NP2 = {"t": "union", "ts": [{"t": "pytree", "l": {"t": "union", "ts": [gen_prog.arr_type("n"), gen_prog.arr_type("n m")]}, "s": None}, gen_prog.STR]}
    sv = gen_prog.sval

    def mixed(tree, k=[0]):
        if tree["t"] == "int":
            k[0] += 1
            return sv("x") if k[0] % 2 else ival(k[0])
        if "xs" in tree:
            return dict(tree, xs=[mixed(c, k) for c in tree["xs"]])
        if "vals" in tree:
            return dict(tree, vals=[mixed(c, k) for c in tree["vals"]])
        return tree

    for lname, lt in (("Union[PyTree[int], str]", NP), ("Union[PyTree[Union[arr n, arr n m]], str]", NP2)):
        for t, x in itertools.product([t_ for t_ in trees[:10] if t_["t"] != "int"], repeat=2):
            tm, xm = mixed(t), mixed(x)
            if lt is NP2:
                tm, xm = with_arrays(t), with_arrays(x)
                # put a string next to the arrays so that the inner PyTree fails at the root
                tm = {"t": "tuple", "xs": [tm, sv("x")]}
                xm = {"t": "tuple", "xs": [xm, sv("y")]}
            body = [{"op": "check", "l": {"t": "pytree", "l": lt, "s": "T"}, "x": tm}, {"op": "print"}]
            for form in ("T", "T ...", "... T", "T T"):
                body.append({"op": "check", "l": {"t": "pytree", "l": lt, "s": form}, "x": xm})
            body.append({"op": "print"})
            prog = [{"op": "ctx", "body": body, "exit": "ret"}]
            got, want = progcheck.compare_program(out, drv, facts, prog, "rollback-while-flattening", rng=rng, as_violation=as_violation, shrink=False)
            out.case(("rollback-while-flattening", lname, json.dumps(t), json.dumps(x)), True, sample={"leaf_type": lname, "T": tm, "x": xm, "verdicts": progcheck.verdicts(got)})
    # the same composite written with other separators the build-time validation lets through (runs of blanks, tabs,
    # newlines, blanks around the whole string): one meaning, whatever the spelling
    spellings = ["S  T", "S\tT", "T\t...", "...  T", "S \n T ...", " T ", "T\n", "...\tS\tT", "T   S", "S T  ..."]
    for t, s_, x in rng.sample(list(itertools.product(trees[:8], repeat=3)), 40 if not thorough else 300):
        def prog_for(forms):
            body = [{"op": "check", "l": {"t": "pytree", "l": INT, "s": "T"}, "x": t},
                    {"op": "check", "l": {"t": "pytree", "l": INT, "s": "S"}, "x": s_}]
            for form in forms:
                body.append({"op": "check", "l": {"t": "pytree", "l": INT, "s": form}, "x": x})
                body.append({"op": "print"})
            return [{"op": "ctx", "body": body, "exit": "ret"}]
        canonical = [" ".join(f.split()) for f in spellings]
        got_c, _ = impl_prog.run_program(prog_for(canonical), "typeguard", rng)
        got_s, _ = impl_prog.run_program(prog_for(spellings), "typeguard", rng)
        out.case(("spelling", json.dumps(t), json.dumps(s_), json.dumps(x)), True, sample={"T": t, "S": s_, "x": x, "verdicts": dict(zip(["T", "S"] + spellings, progcheck.verdicts(got_s)))})
        vc, vs = progcheck.verdicts(got_c), progcheck.verdicts(got_s)
        bc, bs = [o["m"] for o in got_c if o["o"] == "bindings"], [o["m"] for o in got_s if o["o"] == "bindings"]
        if vc != vs or bc != bs:
            k = next((i_ for i_, (a_, b_) in enumerate(zip(vc, vs)) if a_ != b_), None)
            what = (f"PyTree[int, {spellings[k - 2]!r}] answers {vs[k]} but the same structure written {canonical[k - 2]!r} answers {vc[k]}" if k is not None and k >= 2
                    else f"bindings differ between the two spellings: {bs} vs {bc}")
            out.violation("spelling", what + " (whitespace only separates the names)", {"program": prog_for(spellings), "canonical_program": prog_for(canonical), "spelling": True})
    # a structure-named check that RAISES in the middle of its leaves (an unbound symbolic axis, a user class whose
    # `__instancecheck__` raises): the error is handled, and structure names keep working in the same thread afterwards
    raising = [("arr q+1", gen_prog.arr_type("q+1"), gen_prog.arr_val([3])),
               ("user class raising", {"t": "user", "accept": ["A"], "faults": {"B": "EXC"}}, {"t": "opaque", "tag": "B"}),
               ("user class raising BaseException", {"t": "user", "accept": ["A"], "faults": {"B": "BASEEXC"}}, {"t": "opaque", "tag": "B"})]
    for rname, rlt, rleaf in raising:
        for t, x in itertools.product(trees[1:5], repeat=2):
            bad_tree = {"t": "tuple", "xs": [rleaf, rleaf]}
            body = [{"op": "check", "l": {"t": "pytree", "l": rlt, "s": "R"}, "x": bad_tree},
                    {"op": "check", "l": {"t": "pytree", "l": INT, "s": "T"}, "x": t}, {"op": "print"}]
            for form in ("T", "T ...", "... T", "T T"):
                body.append({"op": "check", "l": {"t": "pytree", "l": INT, "s": form}, "x": x})
            body.append({"op": "print"})
            prog = [{"op": "ctx", "body": body, "exit": "ret"}]
            got, want = progcheck.compare_program(out, drv, facts, prog, "after-raising-check", rng=rng, as_violation=as_violation, shrink=False)
            out.case(("after-raising-check", rname, json.dumps(t), json.dumps(x)), True, sample={"raising_leaf_type": rname, "T": t, "x": x, "verdicts": progcheck.verdicts(got)})
            impl_prog.residual_state(reset=True)
    # unbound names inside composites, and None at top level
    for form in ["S T", "T S", "T ...", "... T", "U", "T U", "... U"]:
        for bind_t in (True, False):
            body = ([{"op": "check", "l": {"t": "pytree", "l": INT, "s": "T"}, "x": trees[1]}] if bind_t else []) + [
                {"op": "print"}, {"op": "check", "l": {"t": "pytree", "l": INT, "s": form}, "x": trees[1]}, {"op": "print"}]
            prog = [{"op": "ctx", "body": body, "exit": "ret"}]
            got, want = progcheck.compare_program(out, drv, facts, prog, "unbound", rng=rng, as_violation=as_violation)
            out.case(("unbound", form, bind_t), True)
            b = [o["m"] for o in got if o["o"] == "bindings"]
            if progcheck.verdicts(got)[-1] == "ANN" and b[-1] != b[-2]:
                out.violation("unbound-binds", f"a composite over an unbound name changed the bindings: {b[-2]} -> {b[-1]}", {"program": prog})
    # validation when the annotation is built
    pieces = ["T", "S", "...", "1x", "a.b"]
    strings = [""]
    for k in range(1, 5):
        for combo in itertools.product(pieces, repeat=k):
            strings.append(" ".join(combo))
    if not thorough:
        strings = strings[:160] + rng.sample(strings[160:], 150)
    variants = []
    for s in strings:
        variants.append(s)
        if rng.chance(1, 3):
            variants.append("  " + s.replace(" ", rng.choice(["  ", "\t", " \n "])) + rng.choice(["", " ", "\t"]))
    # names outside ASCII: the rule is Python's notion of an identifier (the model is ASCII; here the statement is the oracle)
    exotic = ["é", "cafe\u0301", "a\u00b7b", "T\u00b2", "\u00bd", "x\u2460", "\u0394x", "T \u0394x ...", "... cafe\u0301", "T\u00b2 ...", "\u540d\u524d", "x\u0660", "\u0660x",
              "T \u00bd", "\uff34", "a\u200db"]
    for s in variants + ["  ", "\t", "T\x0bS", "T,S", "T-S", "_", "_T", "T1"] + exotic:
        try:
            PyTree[int, s]
            got = True
        except ValueError:
            got = False
        except BaseException as e:  # noqa: BLE001
            got = "OTHER:" + type(e).__name__
        out.case(("build", s), len(s.split()) > 1, sample={"structure_string": s, "built": got})
        if not s.isascii():
            ps = s.split()
            want = bool(ps) and all(p_.isidentifier() or (p_ == "..." and (k_ == 0 or k_ == len(ps) - 1) and len(ps) > 1) for k_, p_ in enumerate(ps)) \
                and not (len(ps) > 2 and ps[0] == "..." and ps[-1] == "...")
            if got != want:
                out.violation(f"validate:unicode:{'accept' if want else 'reject'}", f"PyTree[int, {s!r}] {'was built' if got is True else 'raised ' + str(got)} but its pieces "
                              f"{'are' if want else 'are not'} all identifiers (str.isidentifier) / a leading or trailing '...'", {"structure_string": s})
            continue
        want = drv.ask({"cmd": "validstruct", "s": s})
        if got != want:
            out.violation(f"validate:{'accept' if want else 'reject'}", f"PyTree[int, {s!r}] {'was built' if got is True else 'raised ' + str(got)} but must {'be built' if want else 'raise ValueError'}", {"structure_string": s})


def replay(rep, out, drv, facts):
    if "fresh_thread" in rep:
        fresh_thread_cases(out)
        return
    if rep.get("spelling"):
        rng = Rng(0, "replay")
        a, _ = impl_prog.run_program(rep["program"], "typeguard", rng)
        b, _ = impl_prog.run_program(rep["canonical_program"], "typeguard", rng)
        if progcheck.verdicts(a) != progcheck.verdicts(b):
            out.violation("spelling", f"verdicts {progcheck.verdicts(a)} vs {progcheck.verdicts(b)} for the two spellings", rep)
        out.case("replay", True, sample=rep)
        return
    if "program" in rep:
        progcheck.compare_program(out, drv, facts, rep["program"], "replay", as_violation=as_violation)
    out.case("replay", True, sample=rep)
