/-
Model of `_JaxtypingFinder.should_instrument`, `install_import_hook` / `uninstall` and of the
first-import rule of Python's import system as far as the hook depends on it
(jaxtyping/_import_hook.py). Dotted names are lists of characters.
-/
namespace JV

abbrev MName := List Char

/-- `module_name == module or module_name.startswith(module + ".")` for some hooked name -/
def shouldInstrument (hooked : List MName) (m : MName) : Bool :=
  hooked.any fun h => m == h || (h ++ ['.']).isPrefixOf m

/-- components of a dotted name -/
def splitDots : MName → List MName
  | [] => [[]]
  | c :: cs =>
    match splitDots cs with
    | [] => [[c]]   -- unreachable
    | p :: ps => if c == '.' then [] :: p :: ps else (c :: p) :: ps

/-- an installed hook: its id, the names it was installed for, its typechecker key -/
structure Hook where
  id : Nat
  names : List MName
  checker : String
  deriving DecidableEq, Repr

/-- how a loaded module was loaded -/
inductive LoadKind
  | plain                      -- by the ordinary path finder
  | instrumented (checker : String)
  deriving DecidableEq, Repr

structure ImportState where
  metaPath : List Hook := []               -- head = front of sys.meta_path (most recent install)
  loaded : List (MName × LoadKind) := []   -- sys.modules
  nextId : Nat := 0
  deriving Repr

inductive ImportOp
  | install (names : List MName) (checker : String)
  | uninstall (id : Nat)
  | importMod (m : MName)
  deriving Repr

/-- the first finder from the front of `sys.meta_path` that claims the module -/
def firstMatch : List Hook → MName → Option Hook
  | [], _ => none
  | h :: hs, m => if shouldInstrument h.names m then some h else firstMatch hs m

/-- one operation (a module already in `sys.modules` is never loaded again) -/
def importStep (s : ImportState) : ImportOp → ImportState
  | .install names checker =>
    { s with metaPath := { id := s.nextId, names := names, checker := checker } :: s.metaPath,
             nextId := s.nextId + 1 }
  | .uninstall id => { s with metaPath := s.metaPath.filter (fun h => h.id != id) }
  | .importMod m =>
    match s.loaded.lookup m with
    | some _ => s
    | none =>
      let kind := match firstMatch s.metaPath m with
        | some h => LoadKind.instrumented h.checker
        | none => LoadKind.plain
      { s with loaded := (m, kind) :: s.loaded }

def importRun (s : ImportState) (ops : List ImportOp) : ImportState := ops.foldl importStep s

/-- the lookup key of a typechecker string (`md5` modelled as an injective tag), `"0"` for None -/
def checkerKey : Option String → String
  | none => "0"
  | some s => "md5:" ++ s

end JV
