"""User-defined dtype categories and array classes, importable by name (so that annotations over
them can be pickled and loaded in another process). Used by the C15 / C20 checks."""
from common import REPO  # noqa: F401  (puts REPO first on sys.path)

from jaxtyping import AbstractDtype


class F32orI8(AbstractDtype):
    dtypes = ["float32", "int8"]


class OnlyBool(AbstractDtype):
    dtypes = "bool"


class HalfAndInts(AbstractDtype):
    dtypes = ("float16", "bfloat16", "int16", "int32", "uint16")


class Float(AbstractDtype):
    """a project's own category that happens to be NAMED like an exported one (fewer dtypes than jaxtyping.Float)"""
    dtypes = ["float32", "float64"]


class Shaped(AbstractDtype):
    """named like jaxtyping.Shaped, but not the any-dtype category"""
    dtypes = ["int8", "uint8"]


class Duck:
    """Duck-typed array: only `shape` and `dtype`."""

    def __init__(self, shape, dtype="float32"):
        self.shape = tuple(shape)
        self.dtype = dtype

    def __repr__(self):
        return f"Duck({self.shape},{self.dtype})"


class Duck2(Duck):
    """a subclass: instances are also Ducks"""


class Other:
    """unrelated array class"""

    def __init__(self, shape, dtype="float32"):
        self.shape = tuple(shape)
        self.dtype = dtype

    def __repr__(self):
        return f"Other({self.shape},{self.dtype})"


USER_CATS = {"F32orI8": F32orI8, "OnlyBool": OnlyBool, "HalfAndInts": HalfAndInts, "user.Float": Float, "user.Shaped": Shaped}
CLASSES = {"Duck": Duck, "Duck2": Duck2, "Other": Other}
