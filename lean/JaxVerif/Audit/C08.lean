import JaxVerif.Properties.C08

#print axioms JV.C08_memofree_check
#print axioms JV.C08_stateless
#print axioms JV.C08_nested
#print axioms JV.C08_bare
#print axioms JV.C08_arrays
#print axioms JV.C08_reject_binds_nothing
#print axioms JV.C08_generated_good
#print axioms JV.C08_source_instancecheck
#print axioms JV.C08_source_checkL
