/-
A small language for `_JaxtypingLoader` (jaxtyping/_import_hook.py): `source_to_code`, `get_code` and (when the class
overrides it) `exec_module`. The translator (harness/translate_loader.py) turns the current source into
`Generated/LoaderCode.lean`; `Properties/C18.lean` proves on every run that the translated methods compile nothing
that has not been through the transformer, compile in isolation from the hook's own `__future__` flags, look the
bytecode up under the hook's tag in every kind of run (writing bytecode or not), and leave the interpreter's own
`cache_from_source` in force while the module body (and so every import nested in it) executes, i.e. that they are
`tagFor .getCode` of Model/Cache.lean. Anything the translator does not recognise is `.unknown`, on which the
interpreter crashes, so the theorems fail rather than pass silently. Core Lean only.
-/
import JaxVerif.Model.Cache

namespace JV

inductive LCond
  | writes                      -- `not sys.dont_write_bytecode`
  | not (c : LCond)
  | unknown
  deriving Repr

inductive LStmt
  | skip
  | seq (a b : LStmt)
  | ite (c : LCond) (t e : LStmt)
  | decode                      -- `source = decode_source(data)`
  | parse (iso : Bool)          -- `tree = compile(source, path, "exec", ast.PyCF_ONLY_AST, dont_inherit=iso, ...)`
  | transform                   -- `tree = JaxtypingTransformer(typechecker=self._typechecker).visit(tree)`
  | fixLocations                -- `ast.fix_missing_locations(tree)`
  | compileTree (iso : Bool)    -- `code = compile(tree, path, "exec", dont_inherit=iso, ...)`
  | retCode                     -- `return code`
  | retSuperSourceToCode        -- `return super().source_to_code(data, path)`: the module as it was read
  | withPatch (body : LStmt)    -- `with patch("importlib._bootstrap_external.cache_from_source", ft.partial(_optimized_cache_from_source, self._typechecker.get_hash())):`
  | superGetCode                -- `code = super().get_code(fullname)`
  | retGot                      -- `return code` (of `get_code`)
  | superExecModule             -- `super().exec_module(module)`
  | unknown
  deriving Repr

/-- what a code object returned by `source_to_code` is -/
structure CodeKind where
  instrumented : Bool
  /-- both `compile` calls ignore the `__future__` flags of the file that calls them -/
  isolated : Bool
  deriving DecidableEq, Repr

/-- the tree in the local `tree` -/
structure TreeSt where
  isolated : Bool
  transformed : Bool
  located : Bool
  deriving DecidableEq, Repr

structure LSt where
  hasSource : Bool
  tree : Option TreeSt
  code : Option CodeKind
  /-- the key of the patched `cache_from_source` in force; `none` = the interpreter's own -/
  active : Option String
  /-- the tag under which `SourceLoader.get_code` looked for / wrote this module's bytecode -/
  got : Option Tag
  /-- `exec_module` ran the module body with this patch state in force -/
  execActive : Option (Option String)
  deriving DecidableEq, Repr

inductive LRes
  | norm (s : LSt)
  | code (k : CodeKind)
  | tag (t : Tag)
  | crash
  deriving DecidableEq, Repr

def tagOfActive : Option String → Tag
  | none => .default
  | some k => .jaxtyping k

def LCond.eval (writes : Bool) : LCond → Option Bool
  | .writes => some writes
  | .not c => (c.eval writes).map (!·)
  | .unknown => none

/-- `key` = the typechecker hash of this loader, `writes` = the run writes bytecode, `gc` = this class's `get_code` -/
def LStmt.run (key : String) (writes : Bool) (gc : LSt → LRes) : LStmt → LSt → LRes
  | .skip, s => .norm s
  | .seq a b, s => (match a.run key writes gc s with | .norm s1 => b.run key writes gc s1 | r => r)
  | .ite c t e, s =>
    (match c.eval writes with
     | none => .crash
     | some true => t.run key writes gc s
     | some false => e.run key writes gc s)
  | .decode, s => .norm { s with hasSource := true }
  | .parse iso, s => if s.hasSource then .norm { s with tree := some ⟨iso, false, true⟩ } else .crash
  | .transform, s =>
    (match s.tree with
     | some t => .norm { s with tree := some { t with transformed := true, located := false } }   -- new nodes carry no location
     | none => .crash)
  | .fixLocations, s =>
    (match s.tree with
     | some t => .norm { s with tree := some { t with located := true } }
     | none => .crash)
  | .compileTree iso, s =>
    (match s.tree with
     | some t => if t.located then .norm { s with code := some ⟨t.transformed, t.isolated && iso⟩ } else .crash   -- `compile` rejects nodes without `lineno`
     | none => .crash)
  | .retCode, s => (match s.code with | some k => .code k | none => .crash)
  | .retSuperSourceToCode, _ => .code ⟨false, true⟩
  | .withPatch body, s =>
    (match body.run key writes gc { s with active := some key } with
     | .norm s1 => .norm { s1 with active := s.active }       -- `patch.__exit__` puts back what it found
     | r => r)
  | .superGetCode, s => .norm { s with got := some (tagOfActive s.active) }
  | .retGot, s => (match s.got with | some t => .tag t | none => .crash)
  | .superExecModule, s =>
    (match gc s with
     | .tag t => .norm { s with got := some t, execActive := some s.active }
     | _ => .crash)
  | .unknown, _ => .crash

def LSt.fresh (active : Option String) : LSt := ⟨false, none, none, active, none, none⟩

end JV
