/-
Helper lemmas for C12: the two transient flags (flatten mode, `?`-leaf label) are, after any
check, what they were before or cleared; at rest they stay at rest through every program.
Core Lean only.
-/
import JaxVerif.Lemmas.CallStep

namespace JV

/-- the transient flags of `b` are those of `a`, or cleared -/
def FlagsLe (a b : CState) : Prop :=
  (b.flatten = a.flatten ∨ b.flatten = false) ∧ (b.tp = a.tp ∨ b.tp = none)

theorem FlagsLe.refl (a : CState) : FlagsLe a a := ⟨Or.inl rfl, Or.inl rfl⟩

theorem FlagsLe.trans {a b c : CState} (h1 : FlagsLe a b) (h2 : FlagsLe b c) : FlagsLe a c := by
  obtain ⟨f1, t1⟩ := h1
  obtain ⟨f2, t2⟩ := h2
  refine ⟨?_, ?_⟩
  · rcases f2 with f2 | f2
    · rw [f2]; exact f1
    · exact Or.inr f2
  · rcases t2 with t2 | t2
    · rw [t2]; exact t1
    · exact Or.inr t2

/-- the invariant a leaf check has to satisfy -/
def LeafOK (f : Obj → CState → CState × Verdict) : Prop := ∀ x st, FlagsLe st (f x st).1

theorem wrapNode_fst (k : Kind) (p : CState × FlatListRes) : (wrapNode k p).1 = p.1 := by
  rcases p with ⟨st, _ | _⟩ <;> rfl

mutual
theorem flat_le (f : Obj → CState → CState × Verdict) (hf : LeafOK f) (u : Bool) :
    ∀ (x : Obj) (st : CState), FlagsLe st (flat f u x st).1
  | x, st => by
    have h0 : FlagsLe st (if u then f x st else (st, Verdict.F)).1 := by
      cases u
      · exact FlagsLe.refl st
      · exact hf x st
    rw [flat]
    generalize (if u then f x st else (st, Verdict.F)) = r at h0
    obtain ⟨st', v⟩ := r
    cases v with
    | T => exact h0
    | ANN => exact h0
    | EXC e => exact h0
    | F =>
      cases x with
      | tuple xs => simp only [wrapNode_fst]; exact h0.trans (flatList_le f hf u xs st')
      | list xs => simp only [wrapNode_fst]; exact h0.trans (flatList_le f hf u xs st')
      | dict ks vs => simp only [wrapNode_fst]; exact h0.trans (flatList_le f hf u vs st')
      | ntuple tag xs => simp only [wrapNode_fst]; exact h0.trans (flatList_le f hf u xs st')
      | custom tag fault xs =>
        cases fault with
        | some e => exact h0
        | none => simp only [wrapNode_fst]; exact h0.trans (flatList_le f hf u xs st')
      | none => exact h0
      | int n => exact h0
      | str s => exact h0
      | «opaque» t => exact h0
      | arr c a => exact h0
theorem flatList_le (f : Obj → CState → CState × Verdict) (hf : LeafOK f) (u : Bool) :
    ∀ (xs : List Obj) (st : CState), FlagsLe st (flatList f u xs st).1
  | [], st => by rw [flatList]; exact FlagsLe.refl st
  | x :: xs, st => by
    have h1 := flat_le f hf u x st
    rw [flatList]
    generalize flat f u x st = r at h1
    obtain ⟨st1, _ | _⟩ := r
    · dsimp only
      have h2 := flatList_le f hf u xs st1
      generalize flatList f u xs st1 = r2 at h2
      obtain ⟨st2, _ | _⟩ := r2
      · exact h1.trans h2
      · exact h1.trans h2
    · exact h1
end

/-! ### the leaf loop -/

theorem LeafOK_const : LeafOK (fun _ s => (s, Verdict.T)) := fun _ st => FlagsLe.refl st

/-- the loop never switches flatten mode on -/
theorem leafLoop_flatten (sk : Skel) (f : Obj → CState → CState × Verdict) (hf : LeafOK f)
    (S : Option String) : ∀ (xs : List Obj) (i : Nat) (st : CState),
    (leafLoop sk f S xs i st).1.flatten = st.flatten ∨ (leafLoop sk f S xs i st).1.flatten = false
  | [], i, st => by rw [leafLoop]; exact Or.inl rfl
  | x :: xs, i, st => by
    cases S with
    | none =>
      rw [leafLoop]
      have h1 := (hf x st).1
      generalize f x st = r at h1
      obtain ⟨st2, v⟩ := r
      cases v <;> try exact h1
      dsimp only
      have h2 := leafLoop_flatten sk f hf none xs (i + 1)
        (if (sk.treepathGuarded && (none : Option String).isNone) = true then st2
          else { st2 with tp := none })
      have h3 : (if (sk.treepathGuarded && (none : Option String).isNone) = true then st2
          else { st2 with tp := none }).flatten = st2.flatten := by split <;> rfl
      rw [h3] at h2
      rcases h2 with h2 | h2
      · rw [h2]; exact h1
      · exact Or.inr h2
    | some s =>
      rw [leafLoop]
      cases htp : st.tp.isSome with
      | true => simp only [if_true]; exact Or.inl trivial
      | false =>
        simp only [Bool.false_eq_true, if_false]
        have h1 := (hf x { st with tp := some (i, s) }).1
        generalize f x { st with tp := some (i, s) } = r at h1
        obtain ⟨st2, v⟩ := r
        cases v <;> try exact h1
        dsimp only
        have h2 := leafLoop_flatten sk f hf (some s) xs (i + 1)
          (if (sk.treepathGuarded && (some s : Option String).isNone) = true then st2
            else { st2 with tp := none })
        have h3 : (if (sk.treepathGuarded && (some s : Option String).isNone) = true then st2
            else { st2 with tp := none }).flatten = st2.flatten := by split <;> rfl
        rw [h3] at h2
        rcases h2 with h2 | h2
        · rw [h2]; exact h1
        · exact Or.inr h2

/-- a loop that sets no label leaves the label as it was, or cleared -/
theorem leafLoop_tp_none (sk : Skel) (f : Obj → CState → CState × Verdict) (hf : LeafOK f) :
    ∀ (xs : List Obj) (i : Nat) (st : CState),
    (leafLoop sk f none xs i st).1.tp = st.tp ∨ (leafLoop sk f none xs i st).1.tp = none
  | [], i, st => by rw [leafLoop]; exact Or.inl rfl
  | x :: xs, i, st => by
    rw [leafLoop]
    have h1 := (hf x st).2
    generalize f x st = r at h1
    obtain ⟨st2, v⟩ := r
    cases v <;> try exact h1
    dsimp only
    have h2 := leafLoop_tp_none sk f hf xs (i + 1)
      (if (sk.treepathGuarded && (none : Option String).isNone) = true then st2
        else { st2 with tp := none })
    have h3 : (if (sk.treepathGuarded && (none : Option String).isNone) = true then st2
        else { st2 with tp := none }).tp = st2.tp ∨
        (if (sk.treepathGuarded && (none : Option String).isNone) = true then st2
        else { st2 with tp := none }).tp = none := by
      split
      · exact Or.inl rfl
      · exact Or.inr rfl
    rcases h2 with h2 | h2
    · rw [h2]
      rcases h3 with h3 | h3
      · rw [h3]; exact h1
      · exact Or.inr h3
    · exact Or.inr h2

/-! ### `_check` and `__instancecheck__` of a PyTree -/

theorem pytreeCore_le (sk : Skel) (hs : sk.Good) (f : Obj → CState → CState × Verdict)
    (hf : LeafOK f) (leafAny : Bool) (S : Option String) (x : Obj) (st : CState) :
    FlagsLe st (pytreeCore sk f leafAny S x st).1 := by
  obtain ⟨hfin, htin⟩ := hs
  unfold pytreeCore
  simp only [hfin, htin, if_true]
  have hflat := flat_le f hf (!leafAny) x { st with flatten := true }
  generalize flat f (!leafAny) x { st with flatten := true } = r at hflat
  have hrel : ∀ m : Memo, FlagsLe st
      ⟨m, r.1.tp, if sk.flattenRestores = true then st.flatten else false, r.1.noCtx⟩ := by
    intro m
    refine ⟨?_, hflat.2⟩
    dsimp only
    split
    · exact Or.inl rfl
    · exact Or.inr rfl
  obtain ⟨st1, ⟨leaves, d⟩ | v⟩ := r
  · dsimp only at hrel ⊢
    split
    · exact hrel _
    · exact hrel _
    · exact hrel _
    · rename_i pm _
      have hcheck : LeafOK (if leafAny = true then fun _ s => (s, Verdict.T) else f) := by
        split
        · exact LeafOK_const
        · exact hf
      have hfl := leafLoop_flatten sk _ hcheck S leaves 0
        (⟨{ st1.memo with pytree := pm }, st1.tp,
          if sk.flattenRestores = true then st.flatten else false, st1.noCtx⟩ : CState)
      have htp : S = none → _ := fun hS => hS ▸ leafLoop_tp_none sk _ hcheck leaves 0
        (⟨{ st1.memo with pytree := pm }, st1.tp,
          if sk.flattenRestores = true then st.flatten else false, st1.noCtx⟩ : CState)
      generalize leafLoop sk _ S leaves 0 _ = L at hfl htp ⊢
      obtain ⟨st4, v⟩ := L
      dsimp only at hfl htp ⊢
      have hr := hrel st1.memo
      have key : FlagsLe st (if (sk.treepathGuarded && S.isNone) = true then st4
          else { st4 with tp := none }) := by
        refine ⟨?_, ?_⟩
        · have h3 : (if (sk.treepathGuarded && S.isNone) = true then st4
              else { st4 with tp := none }).flatten = st4.flatten := by split <;> rfl
          rw [h3]
          rcases hfl with h | h
          · rw [h]; exact hr.1
          · exact Or.inr h
        · split
          · rename_i hg
            have hS : S = none := by
              cases S with
              | none => rfl
              | some s => simp at hg
            rcases htp hS with h | h
            · rw [h]; exact hr.2
            · exact Or.inr h
          · exact Or.inr rfl
      cases v <;> exact key
  · exact hrel _

theorem FlagsLe.congr {a b a' b' : CState} (h : FlagsLe a b) (ha1 : a'.flatten = a.flatten)
    (ha2 : a'.tp = a.tp) (hb1 : b'.flatten = b.flatten) (hb2 : b'.tp = b.tp) : FlagsLe a' b' := by
  unfold FlagsLe
  rw [ha1, ha2, hb1, hb2]
  exact h

theorem pytreeInstancecheck_le (sk : Skel) (hs : sk.Good) (f : Obj → CState → CState × Verdict)
    (hf : LeafOK f) (leafAny : Bool) (S : Option String) (x : Obj) (st : CState) :
    FlagsLe st (pytreeInstancecheck sk f leafAny S x st).1 := by
  unfold pytreeInstancecheck
  split
  · exact FlagsLe.refl st
  · have h := pytreeCore_le sk hs f hf leafAny S x (if st.noCtx = true then { st with memo := {} } else st)
    have h1 : (if st.noCtx = true then { st with memo := {} } else st).flatten = st.flatten := by
      split <;> rfl
    have h2 : (if st.noCtx = true then { st with memo := {} } else st).tp = st.tp := by
      split <;> rfl
    dsimp only
    generalize pytreeCore sk f leafAny S x (if st.noCtx = true then { st with memo := {} } else st)
      = r at h
    obtain ⟨st1, v⟩ := r
    cases v with
    | T =>
      dsimp only
      split
      · exact h.congr h1.symm h2.symm rfl rfl
      · exact h.congr h1.symm h2.symm rfl rfl
    | F => exact h.congr h1.symm h2.symm rfl rfl
    | ANN => exact h.congr h1.symm h2.symm rfl rfl
    | EXC e =>
      dsimp only
      split
      · exact h.congr h1.symm h2.symm rfl rfl
      · exact h.congr h1.symm h2.symm rfl rfl

/-! ### the leaf-type checks -/

mutual
theorem checkL_le (sk : Skel) (hs : sk.Good) : ∀ (l : LType) (x : Obj) (st : CState),
    FlagsLe st (checkL sk l x st).1
  | .any, x, st => by unfold checkL; exact FlagsLe.refl st
  | .int, x, st => by unfold checkL; exact FlagsLe.refl st
  | .str, x, st => by unfold checkL; exact FlagsLe.refl st
  | .noneT, x, st => by unfold checkL; exact FlagsLe.refl st
  | .barePytree, x, st => by unfold checkL; exact FlagsLe.refl st
  | .user acc faults, x, st => by
    unfold checkL
    split
    · split <;> exact FlagsLe.refl st
    · exact FlagsLe.refl st
  | .arr cls a, x, st => by
    unfold checkL
    split
    · exact FlagsLe.refl st
    · exact FlagsLe.refl st
  | .tuple ts, x, st => by
    unfold checkL
    split
    · split
      · exact FlagsLe.refl st
      · exact checkLs_le sk hs ts _ st
    · split
      · exact FlagsLe.refl st
      · exact checkLs_le sk hs ts _ st
    · exact FlagsLe.refl st
  | .union ts, x, st => by
    unfold checkL
    exact checkLU_le sk hs ts x st
  | .pytree l s, x, st => by
    unfold checkL
    exact pytreeInstancecheck_le sk hs _ (fun y s' => checkL_le sk hs l y s') _ s x st
theorem checkLs_le (sk : Skel) (hs : sk.Good) : ∀ (ts : List LType) (xs : List Obj) (st : CState),
    FlagsLe st (checkLs sk ts xs st).1
  | [], xs, st => by rw [checkLs]; exact FlagsLe.refl st
  | _ :: _, [], st => by rw [checkLs]; exact FlagsLe.refl st
  | t :: ts, x :: xs, st => by
    rw [checkLs]
    have h1 := checkL_le sk hs t x st
    generalize checkL sk t x st = r at h1
    obtain ⟨st1, v⟩ := r
    cases v <;> try exact h1
    exact h1.trans (checkLs_le sk hs ts xs st1)
theorem checkLU_le (sk : Skel) (hs : sk.Good) : ∀ (ts : List LType) (x : Obj) (st : CState),
    FlagsLe st (checkLU sk ts x st).1
  | [], x, st => by rw [checkLU]; exact FlagsLe.refl st
  | t :: ts, x, st => by
    rw [checkLU]
    have h1 := checkL_le sk hs t x st
    generalize checkL sk t x st = r at h1
    obtain ⟨st1, v⟩ := r
    cases v <;> try exact h1
    exact h1.trans (checkLU_le sk hs ts x st1)
end

theorem checkL_flags (sk : Skel) (hs : sk.Good) (l : LType) (x : Obj) (st : CState) :
    ((checkL sk l x st).1.flatten = st.flatten ∨ (checkL sk l x st).1.flatten = false) ∧
    ((checkL sk l x st).1.tp = st.tp ∨ (checkL sk l x st).1.tp = none) :=
  checkL_le sk hs l x st

/-! ### thread states -/

/-- at rest: flatten mode off, no `?`-leaf label -/
def Rest (st : TState) : Prop := st.flatten = false ∧ st.tp = none

theorem onTop_flags (st : TState) (f : CState → CState × Verdict) :
    ∃ c0 : CState, c0.flatten = st.flatten ∧ c0.tp = st.tp ∧
      (onTop st f).1.flatten = (f c0).1.flatten ∧ (onTop st f).1.tp = (f c0).1.tp := by
  unfold onTop
  split
  · exact ⟨_, rfl, rfl, rfl, rfl⟩
  · exact ⟨_, rfl, rfl, rfl, rfl⟩

theorem onTop_rest (st : TState) (f : CState → CState × Verdict) (hf : ∀ c, FlagsLe c (f c).1)
    (h : Rest st) : Rest (onTop st f).1 := by
  obtain ⟨c0, h1, h2, h3, h4⟩ := onTop_flags st f
  obtain ⟨hfl, htp⟩ := hf c0
  unfold Rest
  rw [h3, h4]
  rw [h1, h.1] at hfl
  rw [h2, h.2] at htp
  exact ⟨hfl.elim id id, htp.elim id id⟩

theorem checkParams_rest (sk : Skel) (hs : sk.Good) : ∀ (ps : List Param) (st : TState),
    Rest st → Rest (checkParams sk ps st).1
  | [], st, h => by rw [checkParams]; exact h
  | p :: ps, st, h => by
    rw [checkParams]
    have h1 := onTop_rest st (checkL sk p.ty p.val) (checkL_le sk hs p.ty p.val) h
    generalize onTop st (checkL sk p.ty p.val) = r at h1
    obtain ⟨st1, v⟩ := r
    cases v <;> try exact h1
    exact checkParams_rest sk hs ps st1 h1

theorem problemArg_rest (sk : Skel) (hs : sk.Good) : ∀ (ps : List Param) (st : TState),
    Rest st → Rest (problemArg sk ps st).1
  | [], st, h => by rw [problemArg]; exact h
  | p :: ps, st, h => by
    rw [problemArg]
    have h1 := onTop_rest st (checkL sk p.ty p.val) (checkL_le sk hs p.ty p.val) h
    generalize onTop st (checkL sk p.ty p.val) = r at h1
    obtain ⟨st1, v⟩ := r
    cases v with
    | T => exact problemArg_rest sk hs ps st1 h1
    | F => exact h1
    | ANN => exact h1
    | EXC e => cases e <;> exact h1

theorem onTop_check_rest (sk : Skel) (hs : sk.Good) (l : LType) (x : Obj) (st : TState)
    (h : Rest st) : Rest (onTop st (checkL sk l x)).1 :=
  onTop_rest st (checkL sk l x) (checkL_le sk hs l x) h

theorem pushFrame_rest (m : Memo) (st : TState) (h : Rest st) : Rest (pushFrame m st) := h

theorem popStack_rest (st : TState) (h : Rest st) : Rest (popStack st) := h

theorem popAfter_rest (b : Bool) (o : CallOutcome) (st : TState) (h : Rest st) :
    Rest (popAfter b o st) := by
  unfold popAfter
  split <;> exact h

theorem newRetFail_rest (w : WrapSkel) (pre : List Obs) (v : Verdict) (st : TState) (h : Rest st) :
    Rest (newRetFail w pre v st).1 := by
  unfold newRetFail
  split <;> exact popAfter_rest _ _ _ h

theorem newParamFail_rest (sk : Skel) (hs : sk.Good) (w : WrapSkel) (ps : List Param) (st : TState)
    (h : Rest st) : Rest (newParamFail sk w ps st).1 := by
  unfold newParamFail
  split <;> exact popAfter_rest _ _ _ (problemArg_rest sk hs ps st h)

/-- one backward step of the proof that a composite of the primitive steps keeps `Rest` -/
macro "rest_step" hB:term : tactic => `(tactic| with_reducible first
  | assumption
  | apply popAfter_rest
  | apply popStack_rest
  | apply pushFrame_rest
  | apply newRetFail_rest
  | apply newParamFail_rest
  | apply checkParams_rest
  | apply problemArg_rest
  | apply onTop_check_rest
  | apply $hB)

theorem callStep_rest (sk : Skel) (hs : sk.Good) (w : WrapSkel) (k : CallKind) (ps : List Param)
    (ret : Option (LType × Obj)) (bindOk noTc : Bool) (B : TState → TState × List Obs)
    (hB : ∀ st, Rest st → Rest (B st).1) (e : Exit) (st : TState) (h : Rest st) :
    Rest (callStep sk w k ps ret bindOk noTc B e st).1 := by
  unfold callStep
  repeat' split
  all_goals repeat rest_step hB

theorem ctxStep_rest (w : WrapSkel) (B : TState → TState × List Obs)
    (hB : ∀ st, Rest st → Rest (B st).1) (e : Exit) (st : TState) (h : Rest st) :
    Rest (ctxStep w B e st).1 := by
  unfold ctxStep
  dsimp only
  split
  all_goals repeat rest_step hB

mutual
theorem runProg_rest (sk : Skel) (w : WrapSkel) (hs : sk.Good) : ∀ (p : Prog) (st : TState),
    Rest st → Rest (runProg sk w p st).1
  | .check l x, st, h => by rw [runProg]; exact onTop_check_rest sk hs l x st h
  | .print, st, h => by rw [runProg]; exact h
  | .setDisable b, st, h => by rw [runProg]; exact h
  | .ctx body e, st, h => by
    rw [runProg_ctx_eq]
    exact ctxStep_rest w _ (runProgs_rest' sk w hs body) e st h
  | .call k ps ret bindOk noTc body e, st, h => by
    rw [runProg_call_eq]
    exact callStep_rest sk hs w k ps ret bindOk noTc _ (runProgs_rest' sk w hs body) e st h
theorem runProgs_rest' (sk : Skel) (w : WrapSkel) (hs : sk.Good) : ∀ (ps : List Prog) (st : TState),
    Rest st → Rest (runProgs sk w ps st).1
  | [], st, h => by rw [runProgs]; exact h
  | p :: ps, st, h => by
    rw [runProgs]
    exact runProgs_rest' sk w hs ps _ (runProg_rest sk w hs p st h)
end

theorem runProgs_rest (sk : Skel) (w : WrapSkel) (hs : sk.Good) (ps : List Prog) (st : TState)
    (h0 : st.flatten = false ∧ st.tp = none) :
    (runProgs sk w ps st).1.flatten = false ∧ (runProgs sk w ps st).1.tp = none :=
  runProgs_rest' sk w hs ps st h0

theorem onTop_pure (sk : Skel) (l : LType) (x : Obj) (st₁ st₂ : TState)
    (hrest : st₁.flatten = false ∧ st₁.tp = none ∧ st₂.flatten = false ∧ st₂.tp = none)
    (htop : st₁.stack.head? = st₂.stack.head?) :
    (onTop st₁ (checkL sk l x)).2 = (onTop st₂ (checkL sk l x)).2 ∧
    (onTop st₁ (checkL sk l x)).1.stack.head? = (onTop st₂ (checkL sk l x)).1.stack.head? := by
  obtain ⟨stack1, tp1, fl1, d1⟩ := st₁
  obtain ⟨stack2, tp2, fl2, d2⟩ := st₂
  obtain ⟨h1, h2, h3, h4⟩ := hrest
  dsimp only at h1 h2 h3 h4 htop
  subst h1 h2 h3 h4
  cases stack1 with
  | nil =>
    cases stack2 with
    | nil => exact ⟨rfl, rfl⟩
    | cons m2 r2 => simp at htop
  | cons m1 r1 =>
    cases stack2 with
    | nil => simp at htop
    | cons m2 r2 =>
      simp only [List.head?_cons, Option.some.injEq] at htop
      subst htop
      exact ⟨rfl, rfl⟩

end JV
