"""C15 — nested, union, TypeVar and scalar annotations obey the documented laws."""
import json
import typing

import makeimpl
import usercats
from common import Rng
from makeimpl import EXPORTED, build, cat_spec, cores, describe, vector

LEVEL = "proof"
THEOREMS = [
    "C15_nest", "C15_nest_deep", "C15_closed", "C15_nest_dtypes", "C15_nest_error", "C15_union", "C15_union_error",
    "C15_typevar", "C15_scalar", "C15_generated_good", "C15_aliases",
]
RULE = (
    "nesting: every ordered pair of the 34 exported + 3 user-defined categories x pairs of dim strings "
    "(with / without multi-axis specifiers, empty, whitespace, fixed, broadcastable, anonymous) x array "
    "type {class, Any}: what was built (array type, dtypes, axes, multi-axis index, stored string) against "
    "the model, and on a sample both sides of the law D2[D1[A,s1],s2] = (D1&D2)[A,'s2 s1'] evaluated on the "
    "real code over a probe set of 281 values (3 classes x 10 dtypes x 9 shapes + scalars); three-level "
    "nesting; unions (typing.Union and X|Y) of classes / scalar types / annotations, TypeVars (bound, bound "
    "to a union, constrained, free), the seven scalar types x categories x dim strings: built alternatives "
    "against the model and the law evaluated member-wise; Scalar / ScalarLike / PRNGKeyArray against their "
    "documented definitions on JAX values; non-trivial = dtype lists partially overlap, a multi-axis "
    "specifier is involved, or a member of a union drops out; distinct by the full specification"
)
TRUSTED = [
    "Lean 4 kernel",
    "harness/extract.py: recognition of the scalar ladder, the nesting assignments and the alias definitions",
    "typing.get_args / typing.Union flattening; typeguard's reading of a Union as 'some member accepts'",
]

A = {"k": "cls", "name": "Duck"}
O = {"k": "cls", "name": "Other"}
ANY = {"k": "any"}
USER = ["F32orI8", "OnlyBool", "HalfAndInts"]
CATS = EXPORTED + USER
DIM_PAIRS_QUICK = [("a", "b"), ("*v a", "b"), ("*v", "... c")]
DIM_PAIRS = DIM_PAIRS_QUICK + [
    ("", "a"), ("a", ""), ("", ""), ("  a   b ", " c"), ("a", "*w"), ("... 3", "#a _"), ("_ 3", "2 *v"),
    ("#a b", "a"), ("a,b", "c"), ("a", "b#"), ("*v", "*w"), ("x=3 *v", "d=4"),
]
SCALAR_NAMES = ["bool", "int", "float", "complex", "np.bool_", "np.generic", "np.number"]
SCALAR_DIMS = ["", "...", "*v", " ", "a", "*v a", "... ...", "_", "1", "*v *w", "#*v", "a,b"]
PREFIX = {"bool": "bool", "int": "int", "float": "float", "complex": "complex", "np.bool_": "bool", "np.generic": "", "np.number": ""}


def spec(cat, aty, dims):
    return {"cat": cat_spec(cat), "aty": aty, "dims": dims}


def made(cat, aty, dims):
    return {"k": "made", **spec(cat, aty, dims)}


def inter(d2, d1):
    """the documented intersection, computed independently: None = any; [] = empty"""
    if d2 is None:
        return d1
    if d1 is None:
        return d2
    return [x for x in d2 if x in d1]


def compare_model(out, drv, specs, tag):
    """real description vs model, batched; returns the list of real descriptions"""
    reals = [describe(build(s)) for s in specs]
    ans = []
    for i in range(0, len(specs), 400):
        ans.extend(drv.ask({"cmd": "batch", "reqs": [{"cmd": "getitem", **s} for s in specs[i:i + 400]]}))
    for s, r, m in zip(specs, reals, ans):
        if isinstance(m, dict) and "skip" in m:
            out.count("model_skip")
            continue
        if r.get("r", "").startswith("INNER-"):
            continue
        if r != m:
            out.model_diff(f"getitem:{tag}", f"the annotation built by the implementation is {json.dumps(r)[:300]}, the model builds {json.dumps(m)[:300]}", {"spec": s})
    return reals


def nest_cases(rng, thorough):
    pairs = DIM_PAIRS if thorough else DIM_PAIRS[:9]
    for d1 in CATS:
        for d2 in CATS:
            for s1, s2 in pairs:
                yield d1, d2, s1, s2, rng.choice([A, ANY]) if thorough else A


def check_nest_law(out, d1, d2, s1, s2, aty):
    """evaluate both sides of the nesting law on the real code"""
    inner = build(spec(d1, aty, s1))
    if isinstance(inner, str):
        return
    lhs = build(spec(d2, made(d1, aty, s1), s2))
    c1, c2 = cat_spec(d1)["dtypes"], cat_spec(d2)["dtypes"]
    it = inter(c2, c1)
    replay = {"outer": d2, "inner": d1, "s1": s1, "s2": s2, "aty": aty}
    if it == []:
        if lhs != "VAL":
            out.violation("nest:disjoint-dtypes-accepted", f"{d2}[{d1}[A,{s1!r}],{s2!r}] was built although the categories share no dtype", replay)
        return
    flat_cat = makeimpl.cat_class(f"I_{d2}_{d1}", it)
    try:
        rhs = flat_cat[makeimpl.build_aty(aty), s2 + " " + s1]
    except ValueError:
        rhs = "VAL"
    lv, rv = vector(lhs), vector(rhs)
    if lv != rv:
        k = "nest:error-mismatch" if "VAL" in (lv, rv) else "nest:accepts-differently"
        what = f"{d2}[{d1}[A,{s1!r}],{s2!r}] " + ("is " + lv if isinstance(lhs, str) else "accepts a different set of probe values than") + f" ({d1}&{d2})[A,{(s2 + ' ' + s1)!r}]" + (" which is " + rv if isinstance(rhs, str) else "")
        if not isinstance(lhs, str) and not isinstance(rhs, str):
            i = next(i for i, (a, b) in enumerate(zip(lv, rv)) if a != b)
            what += f"; first differing probe: {makeimpl.probes()[i]!r} nested={lv[i]} flat={rv[i]}"
        out.violation(k, what, replay)


def check_nest3_law(out, d1, d2, d3, s1, s2, s3):
    """three levels: D3[D2[D1[A,s1],s2],s3] against (D1&D2&D3)[A, 's3 s2 s1'], evaluated on the real code"""
    lhs = build(spec(d3, made(d2, made(d1, A, s1), s2), s3))
    if isinstance(lhs, str) and lhs.startswith("INNER-"):
        return
    c1, c2, c3 = cat_spec(d1)["dtypes"], cat_spec(d2)["dtypes"], cat_spec(d3)["dtypes"]
    i12 = inter(c2, c1)
    it = None if i12 == [] else inter(c3, i12)
    replay = {"nest3": [d1, d2, d3, s1, s2, s3]}
    if i12 == [] or it == []:
        if lhs != "VAL" and i12 != []:
            out.violation("nest3:disjoint-dtypes-accepted", f"{d3}[{d2}[{d1}[A,{s1!r}],{s2!r}],{s3!r}] was built although the three categories share no dtype", replay)
        return
    flat_cat = makeimpl.cat_class(f"I_{d3}_{d2}_{d1}", it)
    try:
        rhs = flat_cat[makeimpl.build_aty(A), s3 + " " + s2 + " " + s1]
    except ValueError:
        rhs = "VAL"
    lv, rv = vector(lhs), vector(rhs)
    if lv != rv:
        what = f"{d3}[{d2}[{d1}[A,{s1!r}],{s2!r}],{s3!r}] and ({d1}&{d2}&{d3})[A,{(s3 + ' ' + s2 + ' ' + s1)!r}] differ: "
        if isinstance(lhs, str) or isinstance(rhs, str):
            what += f"nested is {lv if isinstance(lhs, str) else 'built'}, flat is {rv if isinstance(rhs, str) else 'built'}"
        else:
            i = next(i for i, (a, b) in enumerate(zip(lv, rv)) if a != b)
            what += f"probe {makeimpl.probes()[i]!r} nested={lv[i]} flat={rv[i]}"
        out.violation("nest3:accepts-differently" if not (isinstance(lhs, str) or isinstance(rhs, str)) else "nest3:error-mismatch", what, replay)


def union_specs(cat, dims):
    nested = made("Float", A, "x")
    return [
        ("union-classes", {"k": "union", "as": [A, O]}),
        ("union-class-scalars", {"k": "union", "as": [A, {"k": "scalar", "s": "int"}, {"k": "scalar", "s": "float"}]}),
        ("union-scalars", {"k": "union", "as": [{"k": "scalar", "s": s} for s in ("bool", "int", "float", "complex")]}),
        ("union-np-scalars", {"k": "union", "as": [{"k": "scalar", "s": s} for s in ("np.bool_", "np.number", "np.generic")] + [O]}),
        ("union-with-nested", {"k": "union", "as": [nested, O]}),
        # members that print alike (same array class, same axes) and differ only in the category they were built with
        ("union-nested-cats", {"k": "union", "as": [made("Float", A, "x"), made("Int", A, "x")]}),
        ("union-nested-cats3", {"k": "union", "as": [made("Bool", A, "x"), made("Float", A, "x"), made("UInt8", A, "x"), made("Float", O, "x")]}),
        ("tvconstr-nested-cats", {"k": "tvconstr", "as": [made("Complex", A, "x"), made("Int", A, "x")]}),
        # one member compatible with the outer category, one disjoint from it (for most outer categories)
        ("union-nested-disjoint", {"k": "union", "as": [made("Float", A, "x"), made("Bool", A, "x"), made("Key", O, "x")]}),
        ("union-any", {"k": "union", "as": [ANY, {"k": "scalar", "s": "int"}]}),
        ("tvbound", {"k": "tvbound", "a": A}),
        ("tvbound-nested", {"k": "tvbound", "a": nested}),
        ("tvboundunion", {"k": "tvboundunion", "as": [A, {"k": "scalar", "s": "float"}]}),
        ("tvconstr", {"k": "tvconstr", "as": [A, O]}),
        ("tvconstr-scalars", {"k": "tvconstr", "as": [{"k": "scalar", "s": "int"}, {"k": "scalar", "s": "complex"}, O]}),
        ("tvfree", {"k": "tvfree"}),
    ]


def members_of(aty):
    k = aty["k"]
    if k in ("union", "tvboundunion", "tvconstr"):
        return aty["as"]
    if k == "tvbound":
        return [aty["a"]]
    if k == "tvfree":
        return [ANY]
    return [aty]


def check_union_law(out, cat, tag, aty, dims):
    lhs = build(spec(cat, aty, dims))
    members = [build(spec(cat, a, dims)) for a in members_of(aty)]
    replay = {"cat": cat, "aty": aty, "dims": dims}
    if isinstance(lhs, str) and lhs.startswith("INNER-"):
        return
    ok_members = [m for m in members if not isinstance(m, str)]
    # a member that is an error OF ITS OWN (a nested annotation with no dtype in common, two multi-axis specifiers, ...)
    # makes the right-hand side an error; only scalar types that merely "do not exist" for this category / shape drop out
    own_errors = [a for a, m in zip(members_of(aty), members) if m == "VAL" and a.get("k") != "scalar"]
    if own_errors and not isinstance(lhs, str):
        out.violation(f"union:{tag}:member-error-dropped", f"{cat}[{tag}, {dims!r}] builds although the member {json.dumps(own_errors[0])[:160]} is a ValueError when written "
                      f"as {cat}[member, {dims!r}]: Union[D[A, s], D[B, s]] is an error, D[Union[A, B], s] must be one too", replay)
        return
    if isinstance(lhs, str):
        if lhs != "VAL":
            out.violation(f"union:{tag}:raises-{lhs}", f"building {cat}[{tag}, {dims!r}] raised {lhs} (only ValueError is documented)", replay)
        elif ok_members and all(not isinstance(m, str) or m == "VAL" for m in members):
            # every member is either fine or merely "does not exist": the union must exist, unless a member
            # is an error of its own (the model decides which it was)
            pass
        return
    lv = vector(lhs)
    mvs = [vector(m) for m in ok_members]
    rv = "".join("1" if any(mv[i] == "1" for mv in mvs) else "0" for i in range(len(lv)))
    if lv != rv:
        i = next(i for i, (a, b) in enumerate(zip(lv, rv)) if a != b)
        out.violation(f"union:{tag}:accepts-differently", f"{cat}[{tag}, {dims!r}] and the union of the member annotations differ on probe {makeimpl.probes()[i]!r}: {lv[i]} vs {rv[i]}", replay)


def check_scalar_law(out, cat, s, dims):
    """survives iff the shape admits rank 0 and the category holds a dtype with the scalar's prefix"""
    got = build(spec(cat, {"k": "scalar", "s": s}, dims))
    shaped = build(spec("Shaped", A, dims))
    replay = {"cat": cat, "scalar": s, "dims": dims}
    if isinstance(shaped, str):
        want = "VAL"
    else:
        rank0 = makeimpl.impl.check_once(usercats.Duck((), "float32"), shaped)
        dt = cat_spec(cat)["dtypes"]
        holds = dt is None or any(d.startswith(PREFIX[s]) for d in dt)
        want = "SCALAR" if (rank0 == "T" and holds) else "VAL"
    g = "SCALAR" if got is makeimpl.SCALARS[s] else got if isinstance(got, str) else "OTHER"
    if g != want:
        out.violation(f"scalar:{s}:{want}->{g}", f"{cat}[{s}, {dims!r}] gives {g} but must give {want} (rank-0 admitted and category contains a '{PREFIX[s]}*' dtype decide)", replay)


def check_aliases(out):
    import jax
    import jax.numpy as jnp

    import jaxtyping as jt

    defs = {
        "Scalar": jt.Shaped[jax.Array, ""],
        "ScalarLike": jt.Shaped[jax.typing.ArrayLike, ""],
        "PRNGKeyArray": typing.Union[jt.Key[jax.Array, ""], jt.UInt32[jax.Array, "2"]],
    }
    vals = [jnp.zeros((), jnp.float32), jnp.zeros((2,), jnp.uint32), jnp.zeros((2,), jnp.int32), jnp.zeros((3,), jnp.uint32), jnp.zeros((1,)),
            jax.random.key(0), jax.random.PRNGKey(0), jax.random.split(jax.random.key(0), 2), True, 1, 2.5, 1j,
            jnp.float32(1).item(), __import__("numpy").float32(1), __import__("numpy").zeros(()), __import__("numpy").zeros((1,)), "s", None]
    for name, want in defs.items():
        got = getattr(jt, name)
        dg, dw = cores(describe(got)), cores(describe(want))
        gv = "".join("1" if makeimpl.accepts(got, v) else "0" for v in vals)
        wv = "".join("1" if makeimpl.accepts(want, v) else "0" for v in vals)
        out.case(("alias", name), True, sample={"alias": name, "vector": gv})
        if gv != wv:
            i = next(i for i, (a, b) in enumerate(zip(gv, wv)) if a != b)
            out.violation(f"alias:{name}", f"jaxtyping.{name} and its documented definition differ on {vals[i]!r}: {gv[i]} vs {wv[i]}", {"alias": name})
        elif dg != dw:
            out.model_diff(f"alias:{name}", f"jaxtyping.{name} is built as {dg}, the documented definition as {dw}", {"alias": name})


def run(tier, seed, out, drv, facts):
    rng = Rng(seed, "C15")
    thorough = tier == "thorough"
    # ---- nesting
    cases = list(nest_cases(rng, thorough))
    specs = [spec(d2, made(d1, aty, s1), s2) for d1, d2, s1, s2, aty in cases]
    reals = compare_model(out, drv, specs, "nest")
    n_law = 25000 if thorough else 1500
    idx = set(rng.sample(range(len(cases)), min(n_law, len(cases))))
    for i, ((d1, d2, s1, s2, aty), r) in enumerate(zip(cases, reals)):
        c1, c2 = cat_spec(d1)["dtypes"], cat_spec(d2)["dtypes"]
        partial = c1 is not None and c2 is not None and 0 < len(inter(c2, c1)) < max(len(c1), len(c2))
        out.case(("nest", d1, d2, s1, s2, aty["k"]), partial or "*" in s1 + s2 or "." in s1 + s2,
                 sample={"outer": d2, "inner": d1, "s1": s1, "s2": s2, "built": r.get("r")})
        out.count("nest_" + r.get("r", "?"))
        if i in idx or partial and rng.chance(1, 3):
            check_nest_law(out, d1, d2, s1, s2, aty)
    # three levels
    deep, deep_meta = [], []
    wide = ["Shaped", "Num", "Real", "Inexact", "Integer"]
    for k in range(8000 if thorough else 300):
        # the middle level is often wider than what lies beneath it: then the effective dtypes of the
        # middle annotation differ from those of the category it was written with
        d1, d2, d3 = rng.choice(CATS), (rng.choice(wide) if k % 2 else rng.choice(CATS)), rng.choice(CATS)
        s1, s2, s3 = rng.choice(["a", "*v", "", "3 b"]), rng.choice(["b", "", "... q", " c "]), rng.choice(["c", "", "*w", "#z"])
        deep.append(spec(d3, made(d2, made(d1, A, s1), s2), s3))
        deep_meta.append((d1, d2, d3, s1, s2, s3))
    deep_meta = list(deep_meta)
    for (d1, d2, d3, s1, s2, s3), s, r in zip(deep_meta, deep, compare_model(out, drv, deep, "nest3")):
        out.case(("nest3", json.dumps(s, sort_keys=True)), True, sample={"three_levels": s["dims"], "built": r.get("r")})
        check_nest3_law(out, d1, d2, d3, s1, s2, s3)
    # ---- unions / TypeVars
    ucats = CATS if thorough else ["Float", "Int", "Bool", "Shaped", "Complex", "Key", "Num", "F32orI8", "OnlyBool", "UInt8"]
    udims = ["", "...", "a", "*v", " a b "] if thorough else ["", "a", "..."]
    uspecs, umeta = [], []
    for cat in ucats:
        for dims in udims:
            for tag, aty in union_specs(cat, dims):
                uspecs.append(spec(cat, aty, dims))
                umeta.append((cat, tag, aty, dims))
    ureals = compare_model(out, drv, uspecs, "union")
    for (cat, tag, aty, dims), r in zip(umeta, ureals):
        dropped = r.get("r") == "ok" and len(r["alts"]) < len(members_of(aty))
        out.case(("union", cat, tag, dims), dropped or tag.startswith("tv"), sample={"cat": cat, "aty": tag, "dims": dims, "built": [a.get("k") for a in r.get("alts", [])] or r.get("r")})
        out.count("union_" + r.get("r", "?"))
        check_union_law(out, cat, tag, aty, dims)
    # X | Y
    for cat in ucats[:6]:
        import jaxtyping as jt
        c = makeimpl.cat_class(cat)
        try:
            a = c[usercats.Duck | usercats.Other, "a"]
            b = c[typing.Union[usercats.Duck, usercats.Other], "a"]
            if vector(a) != vector(b):
                out.violation("union:pipe", f"{cat}[Duck | Other, 'a'] and {cat}[Union[Duck, Other], 'a'] accept different probe values", {"cat": cat})
        except ValueError:
            pass
        out.case(("pipe", cat), True)
    # TypeVars made by typing_extensions (PEP 696: they carry `__default__`; on this interpreter they are ordinary
    # typing.TypeVar instances): a default does not restrict anything
    check_pep696_typevars(out, ucats[:6])
    any_partial_duck_cases(out, ucats[:6])
    same_name_category_cases(out)
    nested_after_transparent(out)
    # ---- scalars
    sspecs, smeta = [], []
    for cat in CATS:
        for s in SCALAR_NAMES:
            for dims in (SCALAR_DIMS if thorough else SCALAR_DIMS[:8]):
                sspecs.append(spec(cat, {"k": "scalar", "s": s}, dims))
                smeta.append((cat, s, dims))
    sreals = compare_model(out, drv, sspecs, "scalar")
    for (cat, s, dims), r in zip(smeta, sreals):
        out.case(("scalar", cat, s, dims), True, sample={"cat": cat, "scalar": s, "dims": dims, "built": r.get("r")})
        out.count("scalar_" + r.get("r", "?"))
        check_scalar_law(out, cat, s, dims)
    # ---- aliases
    check_aliases(out)


def nested_after_transparent(out):
    """an annotation used as `-> Iterator[X]` of an old-style decorated generator is made transparent by the library (known
    finding F2, about X itself). Annotations that EXTEND X — created before or after — are other annotation objects: they
    still accept exactly what the flat equivalent accepts"""
    import typing

    import jaxtyping as jt
    import typeguard

    Duck = usercats.Duck
    for k, (outer, inner) in enumerate((("Float", "Float"), ("Shaped", "Float"), ("Float", "Shaped"))):
        Inner = getattr(jt, inner)[Duck, f"h{k} w{k}"]
        before = getattr(jt, outer)[Inner, f"b{k}"]

        @jt.jaxtyped
        @typeguard.typechecked
        def frames(n: int) -> typing.Iterator[Inner]:
            yield None

        after = getattr(jt, outer)[Inner, f"b{k}"]
        cat = outer if outer != "Shaped" else inner
        flat = getattr(jt, cat)[Duck, f"b{k} h{k} w{k}"]
        fv = vector(flat)
        for name, ann in (("created before the generator", before), ("created after the generator", after)):
            v = vector(ann)
            out.case(("nested-after-transparent", outer, inner, name), True, sample={"outer": outer, "inner": inner, "when": name, "vector": v[:40]})
            if v != fv:
                out.violation(f"nested:after-transparent:{outer}[{inner}]", f"{outer}[{inner}[Duck, 'h w'], 'b'] ({name} that uses the inner annotation as its return annotation) gives {v[:60]} "
                              f"on the probe values, the flat equivalent {cat}[Duck, 'b h w'] gives {fv[:60]}", {"nested_after_transparent": [outer, inner]})


class _ShapeOnly:
    shape = (3,)


class _DtypeOnly:
    dtype = "float32"


def any_partial_duck_cases(out, cats):
    """`Any` (and what an unconstrained TypeVar stands for) as the array type: a value is array-like when it has BOTH
    `.shape` and `.dtype`; a value with one of them only (a memoryview, a numpy dtype object, user classes) is no array:
    the answer is False for every category and dim string, never an exception"""
    import numpy as np

    values = [("memoryview", memoryview(b"abc")), ("np.dtype", np.dtype("float32")), ("shape-only object", _ShapeOnly()),
              ("dtype-only object", _DtypeOnly()), ("np.float32 type", np.float32)]
    T = typing.TypeVar("T")
    for cat in cats:
        c = makeimpl.cat_class(cat)
        for aname, aty in (("Any", typing.Any), ("T", T)):
            for dims in ("3", "", "...", "a"):
                try:
                    ann = c[aty, dims]
                except Exception:  # noqa: BLE001
                    continue
                for vname, v in values:
                    has = (hasattr(v, "shape"), hasattr(v, "dtype"))
                    if all(has):
                        continue
                    r = makeimpl.verdict_char(ann, v)
                    out.case(("any-partial-duck", cat, aname, dims, vname), True, sample={"cat": cat, "array_type": aname, "dims": dims, "value": vname, "verdict": r})
                    if r != "0":
                        out.violation(f"any:partial-duck:{vname}", f"isinstance(<{vname}>, {cat}[{aname}, {dims!r}]) gives {r!r} ('1' accepted, 'E' raised); the value has "
                                      f"shape={has[0]}, dtype={has[1]}, so it is not array-like and the answer is False", {"any_partial": vname, "cat": cat, "dims": dims})
                        return


def same_name_category_cases(out):
    """categories are told apart by WHAT THEY ARE, not by what they are called: a project's own `Float` / `Int` (other
    dtype lists, same `__name__`) nested over the library's annotation of that name narrows like any other category, and an
    empty intersection is a ValueError"""
    import jaxtyping as jt

    Duck = usercats.Duck

    def make(name, dtypes):
        return type(name, (jt.AbstractDtype,), {"dtypes": dtypes})

    cases = [("Float", ["float32", "float64"], jt.Float), ("Float", ["float16"], jt.Float), ("Int", ["int32"], jt.Int), ("Shaped", ["float32", "int8"], jt.Float),
             ("Float", ["int32"], jt.Float), ("Num", ["float32"], make("Num", ["float32", "int32"]))]
    for name, dtypes, inner_cat in cases:
        Local = make(name, dtypes)
        inner = inner_cat[Duck, "a"]
        flat_inner = makeimpl.vector(inner_cat[Duck, "b a"])
        try:
            nested = Local[inner, "b"]
            nv = makeimpl.vector(nested)
        except ValueError:
            nv = "ValueError"
        fv = makeimpl.vector(Local[Duck, "b a"])
        # the flat equivalent: accepted by both categories
        want = "".join("1" if x == "1" and y == "1" else ("0" if "E" not in (x, y) and "A" not in (x, y) else "E") for x, y in zip(fv, flat_inner))
        empty = "1" not in want
        out.case(("same-name-category", name, tuple(dtypes), inner_cat.__name__), True, sample={"outer": f"{name}{dtypes}", "inner": inner_cat.__name__, "nested": nv[:40], "flat": want[:40]})
        if empty and nv != "ValueError":
            out.violation("same-name-category:empty", f"a category called {name} with dtypes {dtypes} nested over {inner_cat.__name__}[Duck, 'a'] shares no dtype with it: building must "
                          f"raise ValueError, but an annotation was built (accepts {nv.count('1')} of the probe values)", {"same_name_category": [name, dtypes]})
        elif not empty and nv != want:
            out.violation("same-name-category", f"a category called {name} with dtypes {dtypes} nested over {inner_cat.__name__}[Duck, 'a'] gives {nv[:60]} on the probe values; "
                          f"the flat equivalent (both categories over 'b a') gives {want[:60]}", {"same_name_category": [name, dtypes]})


def check_pep696_typevars(out, cats):
    try:
        import typing_extensions as te
    except ImportError:
        out.count("no_typing_extensions")
        return
    import numpy as np

    Duck, Other = usercats.Duck, usercats.Other
    tvs = [
        ("te.TypeVar('T')", lambda: te.TypeVar("T"), typing.Any),
        ("te.TypeVar('T', default=np.ndarray)", lambda: te.TypeVar("T", default=np.ndarray), typing.Any),
        ("te.TypeVar('T', default=Duck)", lambda: te.TypeVar("T", default=Duck), typing.Any),
        ("te.TypeVar('T', bound=Duck, default=Duck)", lambda: te.TypeVar("T", bound=Duck, default=Duck), Duck),
        ("te.TypeVar('T', Duck, Other, default=Other)", lambda: te.TypeVar("T", Duck, Other, default=Other), typing.Union[Duck, Other]),
        ("typing.TypeVar('T')", lambda: typing.TypeVar("T"), typing.Any),
    ]
    for cat in cats:
        c = makeimpl.cat_class(cat)
        for name, mk, stands_for in tvs:
            for dims in ("a", ""):
                def built(aty):
                    try:
                        return c[aty, dims]
                    except Exception as e:  # noqa: BLE001
                        return "error:" + type(e).__name__
                try:
                    tv = mk()
                except TypeError:
                    continue
                lhs, rhs = built(tv), built(stands_for)
                lv, rv = vector(lhs), vector(rhs)
                out.case(("pep696", cat, name, dims), True, sample={"cat": cat, "typevar": name, "dims": dims, "vector": lv[:40]})
                if lv != rv:
                    out.violation(f"typevar:pep696:{name.split('(')[0]}", f"{cat}[{name}, {dims!r}] gives {lv[:60]} on the probe values but what the TypeVar stands for "
                                  f"({stands_for}) gives {rv[:60]}", {"pep696": name, "cat": cat, "dims": dims})


def replay(rep, out, drv, facts):
    if "nest3" in rep:
        check_nest3_law(out, *rep["nest3"])
    elif "outer" in rep:
        check_nest_law(out, rep["inner"], rep["outer"], rep["s1"], rep["s2"], rep["aty"])
    elif "scalar" in rep:
        check_scalar_law(out, rep["cat"], rep["scalar"], rep["dims"])
    elif "aty" in rep:
        check_union_law(out, rep["cat"], "replay", rep["aty"], rep["dims"])
    elif "alias" in rep:
        check_aliases(out)
    elif "nested_after_transparent" in rep:
        nested_after_transparent(out)
    elif "same_name_category" in rep:
        same_name_category_cases(out)
    elif "any_partial" in rep:
        any_partial_duck_cases(out, [rep["cat"]])
    elif "pep696" in rep:
        check_pep696_typevars(out, [rep["cat"]])
    elif "spec" in rep:
        compare_model(out, drv, [rep["spec"]], "replay")
    out.case("replay", True, sample=rep)
