/-
Model of the dim-string parser: the loop of `_make_array_cached`
(jaxtyping/_array_types.py) over ASCII strings, as `List Char`.
Core Lean only.
-/
import JaxVerif.Model.Core

namespace JV

/-- characters `str.split()` treats as separators (ASCII part of `str.isspace`) -/
def isWs (c : Char) : Bool :=
  c == ' ' || (9 ≤ c.toNat && c.toNat ≤ 13) || (28 ≤ c.toNat && c.toNat ≤ 31)

/-- `str.split()` : maximal runs of non-whitespace -/
def splitWsAux : List Char → List Char → List (List Char)
  | [], cur => if cur.isEmpty then [] else [cur.reverse]
  | c :: cs, cur =>
    if isWs c then
      (if cur.isEmpty then splitWsAux cs [] else cur.reverse :: splitWsAux cs [])
    else splitWsAux cs (c :: cur)

def splitWs (s : List Char) : List (List Char) := splitWsAux s []

def isAlpha (c : Char) : Bool := ('a' ≤ c && c ≤ 'z') || ('A' ≤ c && c ≤ 'Z')
def isDigit (c : Char) : Bool := '0' ≤ c && c ≤ '9'

/-- `str.isidentifier()` on ASCII -/
def isIdentifier : List Char → Bool
  | [] => false
  | c :: cs => (isAlpha c || c == '_') && cs.all (fun d => isAlpha d || isDigit d || d == '_')

/-- body of an `int()` literal: digits with single underscores between digits -/
def intBodyAux : Bool → List Char → Bool
  | prev, [] => prev
  | prev, c :: cs =>
    if isDigit c then intBodyAux true cs
    else if c == '_' && prev then
      (match cs with
       | d :: _ => isDigit d && intBodyAux false cs
       | [] => false)
    else false

def intBodyOk (cs : List Char) : Bool := intBodyAux false cs

def digitsVal (cs : List Char) : Nat :=
  cs.foldl (fun acc c => if isDigit c then acc * 10 + (c.toNat - '0'.toNat) else acc) 0

/-- `int(elem)` for ASCII strings without surrounding whitespace; `none` = ValueError -/
def parseIntLit (cs : List Char) : Option Int :=
  match cs with
  | '-' :: body => if intBodyOk body then some (-(digitsVal body : Int)) else none
  | '+' :: body => if intBodyOk body then some (digitsVal body : Int) else none
  | body => if intBodyOk body then some (digitsVal body : Int) else none

/-- a parsed axis as `_make_array_cached` stores it (symbolic text is kept verbatim) -/
inductive PDim
  | anon
  | anonVar
  | named (x : List Char) (b : Bool) (tp : Bool)
  | namedVar (x : List Char) (b : Bool) (tp : Bool)
  | fixed (k : Int) (b : Bool)
  | sym (src : List Char) (b : Bool)
  deriving DecidableEq, Repr

structure Mods where
  broadcastable : Bool := false
  variadic : Bool := false
  anonymous : Bool := false
  treepath : Bool := false
  deriving DecidableEq, Repr

def countEq (cs : List Char) : Nat := (cs.filter (· == '=')).length

/-- text after the first `=` -/
def afterEq : List Char → List Char
  | [] => []
  | c :: cs => if c == '=' then cs else afterEq cs

/-- the `while True` modifier-stripping loop; `none` = ValueError (repeated modifier) -/
def stripMods : Nat → List Char → Mods → Option (List Char × Mods)
  | 0, elem, m => some (elem, m)
  | fuel + 1, elem, m =>
    match elem with
    | [] => some ([], m)
    | c :: rest =>
      if c == '#' then
        if m.broadcastable then none else stripMods fuel rest { m with broadcastable := true }
      else if c == '*' then
        if m.variadic then none else stripMods fuel rest { m with variadic := true }
      else if c == '_' then
        if m.anonymous then none else stripMods fuel rest { m with anonymous := true }
      else if c == '?' then
        if m.treepath then none else stripMods fuel rest { m with treepath := true }
      else if countEq elem == 1 then stripMods fuel (afterEq elem) m
      else some (elem, m)

inductive BaseKind
  | named | fixed (k : Int) | symbolic
  deriving DecidableEq, Repr

def classify (elem : List Char) : BaseKind :=
  if elem.isEmpty || isIdentifier elem then .named
  else match parseIntLit elem with
    | some k => .fixed k
    | none => .symbolic

def hasSub (pat : List Char) : List Char → Bool
  | [] => pat.isEmpty
  | c :: cs => pat.isPrefixOf (c :: cs) || hasSub pat cs

/-- one whitespace-separated token; `none` = ValueError. Returns the axis and whether it is
    a multi-axis specifier. -/
def parseTok (elem : List Char) : Option (PDim × Bool) :=
  if elem.contains ',' && !elem.contains '(' then none
  else if elem.getLast? == some '#' then none
  else if hasSub ['.', '.', '.'] elem then
    if elem != ['.', '.', '.'] then none else some (.anonVar, true)
  else
    match stripMods (elem.length + 1) elem {} with
    | none => none
    | some (base, m) =>
      match classify base with
      | .fixed k =>
        if m.variadic || m.anonymous || m.treepath then none
        else some (.fixed k m.broadcastable, false)
      | .named =>
        if m.anonymous then
          if m.broadcastable then none
          else if m.variadic then some (.anonVar, true) else some (.anon, false)
        else if m.variadic then some (.namedVar base m.broadcastable m.treepath, true)
        else some (.named base m.broadcastable m.treepath, false)
      | .symbolic =>
        if m.anonymous || m.variadic || m.treepath then none
        else some (.sym base m.broadcastable, false)

/-- the `for index, elem in enumerate(dim_str.split())` loop -/
def parseToks : List (List Char) → Nat → Option Nat → Option (List PDim × Option Nat)
  | [], _, iv => some ([], iv)
  | t :: ts, idx, iv =>
    match parseTok t with
    | none => none
    | some (d, isVar) =>
      if isVar && iv.isSome then none
      else
        match parseToks ts (idx + 1) (if isVar then some idx else iv) with
        | none => none
        | some (ds, iv') => some (d :: ds, iv')

/-- `dims, index_variadic` of a dim string; `none` = ValueError -/
def parseSpec (s : List Char) : Option (List PDim × Option Nat) :=
  parseToks (splitWs s) 0 none

/-! ### symbolic expressions: tokenizer and parser for the modelled fragment -/

inductive Tok
  | int (n : Nat) | id (x : List Char) | hole (x : List Char)
  | plus | minus | star | fdiv | lp | rp
  deriving DecidableEq, Repr

def spanP (p : Char → Bool) : List Char → List Char × List Char
  | [] => ([], [])
  | c :: cs => if p c then let (a, b) := spanP p cs; (c :: a, b) else ([], c :: cs)

theorem spanP_snd_length (p : Char → Bool) (l : List Char) : (spanP p l).2.length ≤ l.length := by
  induction l with
  | nil => simp [spanP]
  | cons c cs ih =>
    simp only [spanP]; split
    · simp; omega
    · simp

def tokenize : Nat → List Char → Option (List Tok)
  | 0, [] => some []
  | 0, _ => none
  | _ + 1, [] => some []
  | fuel + 1, c :: cs =>
    if c == '+' then (tokenize fuel cs).map (Tok.plus :: ·)
    else if c == '-' then (tokenize fuel cs).map (Tok.minus :: ·)
    else if c == '*' then (tokenize fuel cs).map (Tok.star :: ·)
    else if c == '(' then (tokenize fuel cs).map (Tok.lp :: ·)
    else if c == ')' then (tokenize fuel cs).map (Tok.rp :: ·)
    else if c == '/' then
      match cs with
      | '/' :: cs' => (tokenize fuel cs').map (Tok.fdiv :: ·)
      | _ => none
    else if c == '{' then
      let (name, rest) := spanP (fun d => isAlpha d || isDigit d || d == '_') cs
      match rest with
      | '}' :: rest' => if isIdentifier name then (tokenize fuel rest').map (Tok.hole name :: ·) else none
      | _ => none
    else if isDigit c then
      let (ds, rest) := spanP isDigit (c :: cs)
      -- Python rejects leading zeros in nonzero literals (`012`): leave those unmodelled
      if ds.length > 1 && ds.head? == some '0' then none
      else match rest with
        | d :: _ => if isAlpha d || d == '_' then none else (tokenize fuel rest).map (Tok.int (digitsVal ds) :: ·)
        | [] => some [Tok.int (digitsVal ds)]
    else if isAlpha c || c == '_' then
      let (nm, rest) := spanP (fun d => isAlpha d || isDigit d || d == '_') (c :: cs)
      (tokenize fuel rest).map (Tok.id nm :: ·)
    else none

mutual
def pExpr : Nat → List Tok → Option (Expr × List Tok)
  | 0, _ => none
  | f + 1, ts => match pTerm f ts with
    | none => none
    | some (a, rest) => pExprTail f a rest
def pExprTail : Nat → Expr → List Tok → Option (Expr × List Tok)
  | 0, _, _ => none
  | f + 1, a, Tok.plus :: ts => match pTerm f ts with
    | none => none
    | some (b, rest) => pExprTail f (.add a b) rest
  | f + 1, a, Tok.minus :: ts => match pTerm f ts with
    | none => none
    | some (b, rest) => pExprTail f (.sub a b) rest
  | _ + 1, a, ts => some (a, ts)
def pTerm : Nat → List Tok → Option (Expr × List Tok)
  | 0, _ => none
  | f + 1, ts => match pFactor f ts with
    | none => none
    | some (a, rest) => pTermTail f a rest
def pTermTail : Nat → Expr → List Tok → Option (Expr × List Tok)
  | 0, _, _ => none
  | f + 1, a, Tok.star :: ts => match pFactor f ts with
    | none => none
    | some (b, rest) => pTermTail f (.mul a b) rest
  | f + 1, a, Tok.fdiv :: ts => match pFactor f ts with
    | none => none
    | some (b, rest) => pTermTail f (.fdiv a b) rest
  | _ + 1, a, ts => some (a, ts)
def pFactor : Nat → List Tok → Option (Expr × List Tok)
  | 0, _ => none
  | f + 1, Tok.minus :: ts => match pFactor f ts with
    | none => none
    | some (a, rest) => some (.neg a, rest)
  | f + 1, Tok.plus :: ts => pFactor f ts
  | _ + 1, Tok.int n :: ts => some (.lit n, ts)
  | _ + 1, Tok.id x :: ts => some (.var (String.ofList x), ts)
  | _ + 1, Tok.hole x :: ts => some (.hole (String.ofList x), ts)
  | f + 1, Tok.lp :: ts => match pExpr f ts with
    | some (a, Tok.rp :: rest) => some (a, rest)
    | _ => none
  | _ + 1, _ => none
end

/-- names that resolve to Python builtins inside `eval`: a symbolic axis mentioning one is
    outside the modelled fragment -/
def pyBuiltins : List String :=
  ["min", "max", "abs", "len", "int", "sum", "pow", "round", "bool", "float", "id", "all",
   "any", "bin", "chr", "dir", "hex", "map", "oct", "ord", "set", "str", "zip", "dict", "hash",
   "iter", "list", "next", "open", "repr", "type", "vars", "bytes", "divmod", "input", "print",
   "range", "slice", "tuple", "filter", "format", "object", "sorted", "super", "compile", "complex",
   "delattr", "getattr", "globals", "hasattr", "locals", "setattr", "eval", "exec", "exit", "quit",
   "help", "copyright", "credits", "license", "True", "False", "None", "and", "or", "not", "if",
   "else", "in", "is", "lambda", "for", "callable", "ascii", "anext", "aiter", "enumerate",
   "frozenset", "isinstance", "issubclass", "memoryview", "bytearray", "property", "reversed",
   "classmethod", "staticmethod", "breakpoint", "Ellipsis", "NotImplemented"]

def Expr.mentionsBuiltin : Expr → Bool
  | .lit _ => false
  | .var x => pyBuiltins.contains x
  | .hole _ => false
  | .neg a => a.mentionsBuiltin
  | .add a b | .sub a b | .mul a b | .fdiv a b => a.mentionsBuiltin || b.mentionsBuiltin

/-- parse the text of a symbolic axis; `none` = outside the modelled fragment -/
def parseExpr (src : List Char) : Option Expr :=
  match tokenize (src.length + 1) src with
  | none => none
  | some ts =>
    match pExpr (4 * ts.length + 8) ts with
    | some (e, []) => if e.mentionsBuiltin then none else some e
    | _ => none

/-! ### from parser output to the checker's `Shape` -/

def PDim.toDim : PDim → Option (Option Dim)   -- outer none = unmodelled; inner none = variadic
  | .anon => some (some .anon)
  | .named x b tp => some (some (.named (String.ofList x) b tp))
  | .fixed k b => some (some (.fixed k b))
  | .sym src b => (parseExpr src).map (fun e => some (.sym e b))
  | .anonVar => some none
  | .namedVar _ _ _ => some none

def PDim.toVDim : PDim → Option VDim
  | .anonVar => some .anonVar
  | .namedVar x b tp => some (.namedVar (String.ofList x) b tp)
  | _ => none

def dimsOf : List PDim → Option (List Dim)
  | [] => some []
  | p :: ps => match p.toDim, dimsOf ps with
    | some (some d), some ds => some (d :: ds)
    | _, _ => none

/-- split `dims` around `index_variadic`; `none` = a symbolic axis outside the fragment -/
def toShape (dims : List PDim) (iv : Option Nat) : Option Shape :=
  match iv with
  | none => (dimsOf dims).map (fun ds => { pre := ds, var := none })
  | some i =>
    match dimsOf (dims.take i), (dims.drop i).head?.bind PDim.toVDim, dimsOf (dims.drop (i + 1)) with
    | some pre, some v, some suf => some { pre := pre, var := some (v, suf) }
    | _, _, _ => none

end JV
