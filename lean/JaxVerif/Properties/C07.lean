/-
C07 — on well-typed calls a decorated function is indistinguishable from the original.
(The wrapper's control flow and its name generation; attribute/descriptor preservation is
functools.wraps / descriptor unwrapping and is checked on the implementation only.)
-/
import JaxVerif.Model.Gensym
import JaxVerif.Spec.Calls
import JaxVerif.Generated.Skeleton
import JaxVerif.Lemmas.Wrapper
import JaxVerif.Lemmas.Sig
import JaxVerif.Source.Wrappers

namespace JV

/-- `_gensym` terminates and its result is fresh, for every finite set of names -/
theorem C07_gensym_fresh (names : List String) (pre : String) : gensym names pre ∉ names :=
  gensym_fresh names pre

/-- and it is the prefix followed by a decimal index -/
theorem C07_gensym_form (names : List String) (pre : String) : ∃ i : Nat, gensym names pre = pre ++ toString i :=
  gensym_form names pre

/-- **the generated scope is well formed**: every identifier the wrapper invents (annotation names,
    default names, the extra `ret` parameter) is distinct from every other invented identifier, from
    every parameter name and from the function's own name — whatever the parameters are called
    (`T0`, `default0`, `ret0`, the function's name, …) -/
theorem C07_scope_wellformed (fnName : String) (paramNames : List String) (output : Bool)
    (hnd : paramNames.Nodup) :
    let (ps, scope) := generatedNames fnName paramNames output
    ps.Nodup ∧ scope.Nodup ∧ (∀ x ∈ scope.drop 1, x ∉ ps) :=
  generatedNames_wellformed fnName paramNames output hnd

/-- **the synthesised checking function binds arguments exactly as the original does**: the
    parameter list `_make_fn_with_signature` renders (positional-only group and `/`, positional-or-
    keyword group, `*name` or a bare `*` when keyword-only parameters follow, keyword-only group with
    the fresh output parameter appended, `**name`), read back the way Python reads a parameter list,
    is the original signature — every parameter with its own name, kind and default-presence, in
    order — plus that one keyword-only parameter. So a call binds to the one iff it binds to the
    other, to the same parameters. -/
theorem C07_same_signature (c : CSig) (h : c.WF) (extra : List SParam) (he : ∀ p ∈ extra, p.kind = .kwOnly) :
    parsePieces (renderSig c.toList extra) = c.pos ++ c.pok ++ c.vp ++ (c.key ++ extra) ++ c.vk :=
  parse_render c h extra he

/-- **exactly once / not at all**: on a new-style call that binds, the body starts exactly once
    when the parameter pass accepts (whatever happens afterwards) and not at all when it rejects -/
theorem C07_once (sk : Skel) (w : WrapSkel) (hw : w.disableTestFirst = true) (ps : List Param)
    (ret : Option (LType × Obj)) (e : Exit) (st : TState) (hd : st.disable = false) :
    let st1 : TState := { st with stack := { args := argsOf ps } :: st.stack }
    let obs := (runProg sk w (.call .newStyle ps ret true false [] e) st).2
    ((checkParams sk ps st1).2.1 = .T → obs.count .bodyStart = 1) ∧
    ((checkParams sk ps st1).2.1 ≠ .T → obs.count .bodyStart = 0) :=
  body_runs_once sk w hw ps ret e st hd

/-- a call that does not bind to the signature raises the ordinary TypeError before any context
    is opened and before the body -/
theorem C07_bind_error (sk : Skel) (w : WrapSkel) (hw : w.newBindBeforePush = true) (k : CallKind)
    (hw' : w.oldBindBeforePush = true)
    (ps : List Param) (ret : Option (LType × Obj)) (noTc : Bool) (body : List Prog) (e : Exit) (st : TState) :
    runProg sk w (.call k ps ret false noTc body e) st = (st, [Obs.outcome .bindError]) :=
  bind_error_first sk w hw k hw' ps ret noTc body e st

/-- the body's own result or exception is what the caller gets when all checks pass -/
theorem C07_result_passthrough (sk : Skel) (w : WrapSkel) (hw : w.disableTestFirst = true) (ps : List Param)
    (e : Exit) (st : TState) (hd : st.disable = false)
    (h : (checkParams sk ps { st with stack := { args := argsOf ps } :: st.stack }).2.1 = .T)
    (he : e ≠ .ret) :
    (runProg sk w (.call .newStyle ps none true false [] e) st).2 = [Obs.bodyStart, Obs.outcome (exitOutcome e)] :=
  exceptional_exit_passthrough sk w hw ps e st hd h he

/-- the source read today calls the wrapped function at exactly one place of `wrapped_fn_impl` -/
theorem C07_generated_good :
    Generated.implFnCalls = 1 ∧ Generated.implFnCallArgs = ["*args, **kwargs"] := by decide

/-! non-vacuity: parameters named like the generated identifiers -/
example : parsePieces (renderSig [⟨"a", .posOnly, false⟩, ⟨"b", .posOrKw, true⟩, ⟨"k", .kwOnly, false⟩, ⟨"kw", .varKw, false⟩] [⟨"ret0", .kwOnly, false⟩]) =
    [⟨"a", .posOnly, false⟩, ⟨"b", .posOrKw, true⟩, ⟨"k", .kwOnly, false⟩, ⟨"ret0", .kwOnly, false⟩, ⟨"kw", .varKw, false⟩] := by decide
example : renderSig [⟨"b", .posOrKw, false⟩] [⟨"ret0", .kwOnly, false⟩] = [.param ⟨"b", .posOrKw, false⟩, .star, .param ⟨"ret0", .kwOnly, false⟩] := by decide
example : (generatedNames "T0" ["T0", "default0", "ret0", "T1"] true).1 = ["T0", "default0", "ret0", "T1", "ret1"] := by decide
example : gensym ["T0", "T1", "x"] "T" = "T2" := by decide

/-- **the wrapper as written today is the model's**: `wrapped_fn` and `wrapped_fn_impl`, translated from the current
    source on this run, compute for every program term exactly what `runProg` computes for a new-style call — so
    `C07_once`, `C07_bind_error` and `C07_result_passthrough` are statements about the code the source contains
    (the interpreter crashes if the result of the body is dropped, if `fn` is called before it is bound, or if a
    name is read before it is assigned). -/
theorem C07_source_wrapper (sk : Skel) (ps : List Param) (ret : Option (LType × Obj)) (bindOk noTc rs nw : Bool)
    (body : List Prog) (e : Exit) (st : TState) :
    runWrapper ⟨sk, ps, ret, bindOk, noTc, runProgs sk goodWrap body, e, rs, nw, none, .plain, Generated.newImplCode⟩
        Generated.newWrapperCode st
      = some (runProg sk goodWrap (.call .newStyle ps ret bindOk noTc body e) st) :=
  source_runProg_call ..

end JV
