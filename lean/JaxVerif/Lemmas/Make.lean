/-
Lemmas about the model of annotation building and pickling (C15 / C20).
-/
import JaxVerif.Model.Make
import JaxVerif.Spec.Parse
import JaxVerif.Lemmas.Parse

namespace JV

/-! ### dtype intersection -/

theorem inter_accepts (o i r : DtypeSpec) (h : DtypeSpec.inter o i = some r) (d : String) :
    r.accepts d = (o.accepts d && i.accepts d) := by
  cases o with
  | any => simp [DtypeSpec.inter] at h; subst h; simp [DtypeSpec.accepts]
  | names l =>
    cases i with
    | any => simp [DtypeSpec.inter] at h; subst h; simp [DtypeSpec.accepts]
    | names l' =>
      simp only [DtypeSpec.inter] at h
      split at h
      · cases h
      · simp only [Option.some.injEq] at h
        subst h
        simp only [DtypeSpec.accepts, List.contains_eq_mem, List.mem_filter, Bool.decide_and, decide_eq_true_eq]

/-- nesting is an error exactly when both parts list their dtypes and the lists share nothing -/
theorem inter_none_iff (o i : DtypeSpec) :
    DtypeSpec.inter o i = none ↔
      ∃ l l', o = .names l ∧ i = .names l' ∧ ∀ d, ¬ (d ∈ l ∧ d ∈ l') := by
  cases o with
  | any => simp [DtypeSpec.inter]
  | names l =>
    cases i with
    | any => simp [DtypeSpec.inter]
    | names l' =>
      constructor
      · intro h
        refine ⟨l, l', rfl, rfl, fun d hd => ?_⟩
        simp only [DtypeSpec.inter] at h
        split at h
        · next he =>
          have hm : d ∈ l.filter (fun x => l'.contains x) := by
            simp [List.mem_filter, hd.1, hd.2]
          rw [List.isEmpty_iff.mp he] at hm
          cases hm
        · cases h
      · rintro ⟨l₀, l₁, h0, h1, h⟩
        cases h0; cases h1
        have : (l.filter (fun x => l'.contains x)) = [] := by
          rw [List.filter_eq_nil_iff]
          intro a ha
          simp only [List.contains_eq_mem, decide_eq_true_eq]
          exact fun h2 => h a ⟨ha, h2⟩
        simp only [DtypeSpec.inter, this, List.isEmpty_nil, if_true]

/-- in particular nothing is accepted by both -/
theorem inter_none_disjoint (o i : DtypeSpec) (h : DtypeSpec.inter o i = none) (d : String) :
    (o.accepts d && i.accepts d) = false := by
  obtain ⟨l, l', rfl, rfl, hd⟩ := (inter_none_iff o i).mp h
  simp only [DtypeSpec.accepts, List.contains_eq_mem, Bool.and_eq_false_imp, decide_eq_true_eq,
    decide_eq_false_iff_not]
  exact fun h1 h2 => hd d ⟨h1, h2⟩

theorem inter_any_only (o i : DtypeSpec) (h : DtypeSpec.inter o i = some .any) : o = .any := by
  cases o with
  | any => rfl
  | names l =>
    cases i with
    | any => simp [DtypeSpec.inter] at h
    | names l' =>
      simp only [DtypeSpec.inter] at h
      split at h <;> simp at h

/-! ### parsing: two multi-axis specifiers, whitespace stripping -/

/-- a token list that yields a multi-axis index cannot be replayed after another one -/
theorem parseToks_started_some (ts : List (List Char)) (idx : Nat) (ds : List PDim) (i : Nat)
    (h : parseToks ts idx none = some (ds, some i)) :
    ∀ idx' j, parseToks ts idx' (some j) = none := by
  induction ts generalizing idx ds with
  | nil => simp [parseToks] at h
  | cons t ts ih =>
    intro idx' j
    simp only [parseToks] at h ⊢
    cases hp : parseTok t with
    | none => simp [hp] at h
    | some p =>
      obtain ⟨d, isVar⟩ := p
      simp only [hp] at h ⊢
      cases isVar with
      | true => simp
      | false =>
        simp only [Bool.false_and, Bool.false_eq_true, if_false] at h ⊢
        cases hr : parseToks ts (idx + 1) none with
        | none => simp [hr] at h
        | some q =>
          obtain ⟨ds', iv'⟩ := q
          simp only [hr, Option.some.injEq, Prod.mk.injEq] at h
          obtain ⟨_, h2⟩ := h
          subst h2
          rw [ih _ _ hr]

theorem parseSpec_concat_none_left (s₁ s₂ : List Char) (h₂ : parseSpec s₂ = none) :
    parseSpec (s₂ ++ ' ' :: s₁) = none := by
  have h₂' : parseToks (splitWs s₂) 0 none = none := h₂
  show parseToks (splitWs (s₂ ++ ' ' :: s₁)) 0 none = none
  rw [splitWs_space, parseToks_append, h₂']

theorem parseSpec_concat_two_variadics (s₁ s₂ : List Char) (d₁ d₂ : List PDim) (i j : Nat)
    (h₁ : parseSpec s₁ = some (d₁, some i)) (h₂ : parseSpec s₂ = some (d₂, some j)) :
    parseSpec (s₂ ++ ' ' :: s₁) = none := by
  have h₁' : parseToks (splitWs s₁) 0 none = some (d₁, some i) := h₁
  have h₂' : parseToks (splitWs s₂) 0 none = some (d₂, some j) := h₂
  show parseToks (splitWs (s₂ ++ ' ' :: s₁)) 0 none = none
  rw [splitWs_space, parseToks_append, h₂']
  simp only [parseToks_started_some _ _ _ _ h₁']

theorem stripLeft_allWs_append (w s : List Char) (hw : AllWs w) : stripLeft (w ++ s) = stripLeft s := by
  induction w with
  | nil => rfl
  | cons c cs ih =>
    have hc : isWs c = true := hw c (by simp)
    simp only [List.cons_append, stripLeft, hc, if_true]
    exact ih (fun d hd => hw d (by simp [hd]))

/-- `stripLeft` removes a run of whitespace from the front -/
theorem stripLeft_spec (s : List Char) : ∃ w, AllWs w ∧ s = w ++ stripLeft s := by
  induction s with
  | nil => exact ⟨[], (fun _ h => by cases h), rfl⟩
  | cons c cs ih =>
    by_cases hc : isWs c = true
    · obtain ⟨w, hw, he⟩ := ih
      refine ⟨c :: w, ?_, ?_⟩
      · intro d hd
        rcases List.mem_cons.mp hd with rfl | hd
        · exact hc
        · exact hw d hd
      · simp only [stripLeft, hc, if_true, List.cons_append]
        rw [← he]
    · refine ⟨[], (fun _ h => by cases h), ?_⟩
      simp [stripLeft, hc]

theorem splitWsAux_append_ws (s w cur : List Char) (hw : AllWs w) :
    splitWsAux (s ++ w) cur = splitWsAux s cur := by
  induction s generalizing cur with
  | nil =>
    simp only [List.nil_append]
    by_cases hc : cur = []
    · subst hc
      have := splitWsAux_ws w [] hw
      simp only [List.append_nil] at this
      rw [this]
    · rw [splitWsAux_trailing w cur hw hc]
      simp [splitWsAux, hc]
  | cons c cs ih =>
    simp only [List.cons_append, splitWsAux]
    split
    · split
      · exact ih []
      · rw [ih []]
    · exact ih (c :: cur)

/-- `dim_str.strip()` never changes how the string splits into axes -/
theorem splitWs_strip (s : List Char) : splitWs (stripWs s) = splitWs s := by
  obtain ⟨w₁, hw₁, e₁⟩ := stripLeft_spec s
  obtain ⟨w₂, hw₂, e₂⟩ := stripLeft_spec (stripLeft s).reverse
  have hmid : stripLeft s = (stripLeft (stripLeft s).reverse).reverse ++ w₂.reverse := by
    have := congrArg List.reverse e₂
    simpa using this
  have hw₂r : AllWs w₂.reverse := fun c hc => hw₂ c (by simpa using hc)
  unfold stripWs splitWs
  conv => rhs; rw [e₁, splitWsAux_ws w₁ _ hw₁, hmid]
  rw [splitWsAux_append_ws _ _ _ hw₂r]

theorem parseSpec_strip (s : List Char) : parseSpec (stripWs s) = parseSpec s := by
  unfold parseSpec
  rw [splitWs_strip]

def concatIv (iv₁ iv₂ : Option Nat) (n : Nat) : Option Nat :=
  match iv₂ with
  | some i => some i
  | none => iv₁.map (· + n)

theorem parseSpec_concat' (s₁ s₂ : List Char) (d₁ d₂ : List PDim) (iv₁ iv₂ : Option Nat)
    (h₁ : parseSpec s₁ = some (d₁, iv₁)) (h₂ : parseSpec s₂ = some (d₂, iv₂))
    (hv : iv₁ = none ∨ iv₂ = none) :
    parseSpec (s₂ ++ ' ' :: s₁) = some (d₂ ++ d₁, concatIv iv₁ iv₂ d₂.length) := by
  cases iv₂ with
  | none => exact parseSpec_concat s₁ s₂ d₁ d₂ iv₁ none h₁ h₂ hv
  | some i => exact parseSpec_concat s₁ s₂ d₁ d₂ iv₁ (some i) h₁ h₂ hv

/-! ### the invariant of made annotations -/

/-- what every annotation `_make_array` produces satisfies: its stored string re-parses to its
    stored axes, and it accepts any dtype only if its category does -/
structure Made.WF (m : Made) : Prop where
  parse : parseSpec m.dimStr = some (m.dims, m.iv)
  dt : m.dtypes = .any → m.cat.dtypes = .any

theorem makeArray_wf (cat : Category) (a : Atom) (s : List Char) (m : Made)
    (ha : ∀ inner, a = .made inner → inner.WF) (h : makeArray cat a s = .made m) : m.WF ∧ m.cat = cat := by
  unfold makeArray at h
  cases hs : parseSpec s with
  | none => simp [hs] at h
  | some p =>
    obtain ⟨dims, iv⟩ := p
    simp only [hs] at h
    cases a with
    | scalar sc => dsimp only at h; split at h <;> cases h
    | cls c => cases h; exact ⟨⟨hs, fun h => h⟩, rfl⟩
    | any => cases h; exact ⟨⟨hs, fun h => h⟩, rfl⟩
    | made inner =>
      have hw := ha inner rfl
      dsimp only at h
      cases hi : DtypeSpec.inter cat.dtypes inner.dtypes with
      | none => simp [hi] at h
      | some dt =>
        simp only [hi] at h
        have hdt : dt = .any → cat.dtypes = .any := fun e => inter_any_only _ _ (by rw [hi, e])
        have hp := hw.parse
        cases hiv : inner.iv with
        | none =>
          simp only [hiv] at h
          cases h
          refine ⟨⟨?_, hdt⟩, rfl⟩
          rw [hiv] at hp
          rw [parseSpec_concat' inner.dimStr s inner.dims dims none iv hp hs (Or.inl rfl)]
          cases iv <;> rfl
        | some i =>
          cases iv with
          | some j => simp [hiv] at h
          | none =>
            simp only [hiv] at h
            cases h
            refine ⟨⟨?_, hdt⟩, rfl⟩
            rw [hiv] at hp
            rw [parseSpec_concat' inner.dimStr s inner.dims dims (some i) none hp hs (Or.inr rfl)]
            rfl

/-! ### nesting -/

inductive CoreOut
  | made (c : Core)
  | scalar (s : ScalarTy)
  | notMade
  | valueError
  deriving DecidableEq, Repr

def MakeOut.toCore : MakeOut → CoreOut
  | .made m => .made m.core
  | .scalar s => .scalar s
  | .notMade => .notMade
  | .valueError => .valueError

/-- the array type of a made annotation as something `_make_array` can be handed -/
def atomOf (arrayType : String) : Atom := if arrayType = "" then .any else .cls arrayType

theorem makeArray_atomOf (cat : Category) (t : String) (s : List Char) :
    makeArray cat (atomOf t) s =
      match parseSpec s with
      | none => .valueError
      | some (dims, iv) => .made { cat := cat, arrayType := t, dimStr := s, dtypes := cat.dtypes, dims := dims, iv := iv } := by
  unfold atomOf makeArray
  cases parseSpec s with
  | none => rfl
  | some p =>
    obtain ⟨dims, iv⟩ := p
    by_cases ht : t = ""
    · subst ht; rfl
    · simp only [ht, if_false]

/-- **the nesting law**: wrapping a made annotation `m₁` in category `D₂` with string `s₂` is, for
    the check, the flat annotation over `m₁`'s array type with the intersected dtypes and the
    string `s₂ ++ " " ++ m₁.dim_str` — including when either side is an error -/
theorem nest_law (D₂ : Category) (m₁ : Made) (hw : m₁.WF) (s₂ : List Char) :
    (makeArray D₂ (.made m₁) s₂).toCore =
      match DtypeSpec.inter D₂.dtypes m₁.dtypes with
      | none => .valueError
      | some dt => (makeArray ⟨D₂.name, dt⟩ (atomOf m₁.arrayType) (s₂ ++ ' ' :: m₁.dimStr)).toCore := by
  simp only [makeArray_atomOf]
  unfold makeArray
  have hp := hw.parse
  cases hs : parseSpec s₂ with
  | none =>
    dsimp only
    cases DtypeSpec.inter D₂.dtypes m₁.dtypes with
    | none => rfl
    | some dt => simp only [parseSpec_concat_none_left _ _ hs]
  | some p =>
    obtain ⟨dims, iv⟩ := p
    dsimp only
    cases hi : DtypeSpec.inter D₂.dtypes m₁.dtypes with
    | none => rfl
    | some dt =>
      dsimp only
      cases hiv : m₁.iv with
      | none =>
        rw [hiv] at hp
        rw [parseSpec_concat' m₁.dimStr s₂ m₁.dims dims none iv hp hs (Or.inl rfl)]
        cases iv <;> rfl
      | some i =>
        rw [hiv] at hp
        cases iv with
        | some j =>
          rw [parseSpec_concat_two_variadics _ _ _ _ _ _ hp hs]
        | none =>
          rw [parseSpec_concat' m₁.dimStr s₂ m₁.dims dims (some i) none hp hs (Or.inr rfl)]
          rfl

/-- nesting is an error exactly when the outer string is, the dtypes do not overlap, or both
    parts have a multi-axis specifier -/
theorem nest_error_iff (D₂ : Category) (m₁ : Made) (s₂ : List Char) :
    makeArray D₂ (.made m₁) s₂ = .valueError ↔
      parseSpec s₂ = none ∨ DtypeSpec.inter D₂.dtypes m₁.dtypes = none ∨
      (∃ dims j, parseSpec s₂ = some (dims, some j) ∧ m₁.iv.isSome = true) := by
  unfold makeArray
  cases hs : parseSpec s₂ with
  | none => simp
  | some p =>
    obtain ⟨dims, iv⟩ := p
    dsimp only
    cases hi : DtypeSpec.inter D₂.dtypes m₁.dtypes with
    | none => simp
    | some dt =>
      dsimp only
      cases hiv : m₁.iv with
      | none => cases iv <;> simp
      | some i => cases iv <;> simp

/-! ### unions, TypeVars -/

theorem alt?_of_isError (o : MakeOut) (h : o.isError = true) : o.alt? = none := by
  cases o <;> simp_all [MakeOut.isError, MakeOut.alt?]

theorem getitemAtoms_single (cat : Category) (a : Atom) (s : List Char) (alt : Alt) :
    getitemAtoms cat [a] s = .alts [alt] ↔ (makeArray cat a s).alt? = some alt := by
  unfold getitemAtoms
  simp only [List.map_cons, List.map_nil, List.any_cons, List.any_nil, Bool.or_false,
    List.filterMap_cons, List.filterMap_nil]
  cases makeArray cat a s <;> simp [MakeOut.isError, MakeOut.alt?]

theorem getitemAtoms_single_cases (cat : Category) (a : Atom) (s : List Char) :
    getitemAtoms cat [a] s =
      match (makeArray cat a s).alt? with
      | some alt => .alts [alt]
      | none => .valueError := by
  unfold getitemAtoms
  simp only [List.map_cons, List.map_nil, List.any_cons, List.any_nil, Bool.or_false,
    List.filterMap_cons, List.filterMap_nil]
  cases makeArray cat a s <;> simp [MakeOut.isError, MakeOut.alt?]

/-- **the union law, alternatives**: the members of `D[Union[a₁, …], s]` are exactly the
    annotations `D[aᵢ, s]` that exist -/
theorem getitemAtoms_alts (cat : Category) (as : List Atom) (s : List Char) (l : List Alt)
    (h : getitemAtoms cat as s = .alts l) (alt : Alt) :
    alt ∈ l ↔ ∃ a ∈ as, getitemAtoms cat [a] s = .alts [alt] := by
  unfold getitemAtoms at h
  simp only at h
  split at h
  · cases h
  · cases hfm : List.filterMap MakeOut.alt? (List.map (fun a => makeArray cat a s) as) with
    | nil => rw [hfm] at h; cases h
    | cons x xs =>
      rw [hfm] at h
      cases h
      rw [← hfm]
      simp only [List.mem_filterMap, List.mem_map, getitemAtoms_single]
      constructor
      · rintro ⟨o, ⟨a, ha, rfl⟩, ho⟩
        exact ⟨a, ha, ho⟩
      · rintro ⟨a, ha, ho⟩
        exact ⟨_, ⟨a, ha, rfl⟩, ho⟩

/-- the union is an error exactly when some member is an error of its own (bad string, failed
    nesting) or no member exists -/
theorem getitemAtoms_error_iff (cat : Category) (as : List Atom) (s : List Char) :
    getitemAtoms cat as s = .valueError ↔
      (∃ a ∈ as, makeArray cat a s = .valueError) ∨ (∀ a ∈ as, (makeArray cat a s).alt? = none) := by
  unfold getitemAtoms
  simp only
  split
  · next he =>
    simp only [true_iff]
    left
    simp only [List.any_map, List.any_eq_true, Function.comp] at he
    obtain ⟨a, ha, hea⟩ := he
    refine ⟨a, ha, ?_⟩
    cases hm : makeArray cat a s <;> simp_all [MakeOut.isError]
  · next he =>
    have hne : ∀ a ∈ as, makeArray cat a s ≠ .valueError := by
      intro a ha hv
      apply he
      simp only [List.any_map, List.any_eq_true, Function.comp]
      exact ⟨a, ha, by rw [hv]; rfl⟩
    split
    · next hl =>
      simp only [true_iff]
      right
      intro a ha
      have := List.filterMap_eq_nil_iff.mp hl (makeArray cat a s) (List.mem_map.mpr ⟨a, ha, rfl⟩)
      exact this
    · next l hl =>
      constructor
      · intro h; cases h
      · rintro (⟨a, ha, hv⟩ | hall)
        · exact absurd hv (hne a ha)
        · exfalso
          apply hl
          rw [List.filterMap_eq_nil_iff]
          intro o ho
          obtain ⟨a, ha, rfl⟩ := List.mem_map.mp ho
          exact hall a ha

/-! ### acceptance, generically in how a made annotation / a scalar type is checked -/

section accept
variable {V : Type} (chk : Core → V → Bool) (sc : ScalarTy → V → Bool)

def Alt.accepts : Alt → V → Bool
  | .made m, v => chk m.core v
  | .scalar s, v => sc s v

/-- typeguard on `Union[...]`: some alternative accepts; an error is no annotation at all -/
def GetOut.accepts : GetOut → V → Bool
  | .valueError, _ => false
  | .alts l, v => l.any (fun a => Alt.accepts chk sc a v)

theorem union_accepts (cat : Category) (as : List Atom) (s : List Char) (l : List Alt)
    (h : getitemAtoms cat as s = .alts l) (v : V) :
    GetOut.accepts chk sc (getitemAtoms cat as s) v =
      as.any (fun a => GetOut.accepts chk sc (getitemAtoms cat [a] s) v) := by
  rw [h]
  simp only [GetOut.accepts]
  rw [Bool.eq_iff_iff]
  simp only [List.any_eq_true]
  constructor
  · rintro ⟨alt, hal, hv⟩
    obtain ⟨a, ha, hs⟩ := (getitemAtoms_alts cat as s l h alt).mp hal
    refine ⟨a, ha, ?_⟩
    rw [hs]
    simp [GetOut.accepts, hv]
  · rintro ⟨a, ha, hv⟩
    rw [getitemAtoms_single_cases] at hv
    cases hm : (makeArray cat a s).alt? with
    | none => simp [hm, GetOut.accepts] at hv
    | some alt =>
      simp only [hm, GetOut.accepts, List.any_cons, List.any_nil, Bool.or_false] at hv
      exact ⟨alt, (getitemAtoms_alts cat as s l h alt).mpr ⟨a, ha, (getitemAtoms_single cat a s alt).mpr hm⟩, hv⟩

end accept

/-! ### scalars -/

theorem scalar_survives (cat : Category) (sc : ScalarTy) (str : List Char) :
    getitem cat (.atom (.scalar sc)) str =
      match parseSpec str with
      | none => .valueError
      | some (dims, _) => if checkScalar sc.pre cat.dtypes dims then .alts [.scalar sc] else .valueError := by
  unfold getitem
  simp only
  rw [getitemAtoms_single_cases]
  unfold makeArray
  rw [parseSpec_strip]
  cases parseSpec str with
  | none => rfl
  | some p =>
    obtain ⟨dims, iv⟩ := p
    dsimp only
    by_cases hc : checkScalar sc.pre cat.dtypes dims = true <;> simp [hc, MakeOut.alt?]

/-! ### pickling -/

theorem rebuild_reduce (m : Made) (hw : m.WF) :
    ∃ m', rebuild (reduce true m) = .alts [.made m'] ∧ m'.core = m.core ∧ m'.WF ∧ m'.cat = m.cat := by
  have hmk : getitem m.cat (.atom (atomOf m.arrayType)) m.dimStr =
      .alts [.made { cat := m.cat, arrayType := m.arrayType, dimStr := stripWs m.dimStr,
                     dtypes := m.cat.dtypes, dims := m.dims, iv := m.iv }] := by
    unfold getitem
    simp only
    rw [getitemAtoms_single_cases, makeArray_atomOf, parseSpec_strip, hw.parse]
    rfl
  have hp : parseSpec (stripWs m.dimStr) = some (m.dims, m.iv) := by rw [parseSpec_strip, hw.parse]
  unfold rebuild reduce
  simp only [if_true]
  have ha : (if m.arrayType = "" then Atom.any else Atom.cls m.arrayType) = atomOf m.arrayType := rfl
  rw [ha, hmk]
  cases hd : m.dtypes with
  | any =>
    refine ⟨_, rfl, ?_, ⟨hp, fun _ => hw.dt hd⟩, rfl⟩
    simp [Made.core, hd, hw.dt hd]
  | names l =>
    by_cases he : DtypeSpec.names l = m.cat.dtypes
    · simp only [he, if_true]
      refine ⟨_, rfl, ?_, ⟨hp, fun h => h⟩, rfl⟩
      simp [Made.core, hd, he]
    · simp only [he, if_false]
      refine ⟨_, rfl, ?_, ⟨hp, fun h => by cases h⟩, rfl⟩
      simp [Made.core, hd]

/-! ### at most one multi-axis specifier; shapes that admit rank 0 -/

theorem parseTok_isVar (t : List Char) (d : PDim) (v : Bool) (h : parseTok t = some (d, v)) :
    v = d.isVariadic := by
  unfold parseTok at h
  split at h
  · cases h
  · split at h
    · cases h
    · split at h
      · split at h
        · cases h
        · cases h; rfl
      · split at h
        · cases h
        · next base m hsm =>
          split at h
          · split at h <;> cases h; rfl
          · split at h
            · split at h
              · cases h
              · split at h <;> cases h <;> rfl
            · split at h <;> cases h <;> rfl
          · split at h <;> cases h; rfl

def b2n (b : Bool) : Nat := if b then 1 else 0

theorem parseToks_count (ts : List (List Char)) (idx : Nat) (iv0 : Option Nat) (ds : List PDim)
    (iv : Option Nat) (h : parseToks ts idx iv0 = some (ds, iv)) :
    (ds.filter PDim.isVariadic).length + b2n iv0.isSome = b2n iv.isSome := by
  induction ts generalizing idx iv0 ds with
  | nil => simp [parseToks] at h; rw [h.1, h.2]; simp
  | cons t ts ih =>
    simp only [parseToks] at h
    cases hp : parseTok t with
    | none => simp [hp] at h
    | some p =>
      obtain ⟨d, isVar⟩ := p
      simp only [hp] at h
      have hv := parseTok_isVar t d isVar hp
      split at h
      · cases h
      · next hcond =>
        cases hr : parseToks ts (idx + 1) (if isVar = true then some idx else iv0) with
        | none => simp [hr] at h
        | some q =>
          obtain ⟨ds', iv'⟩ := q
          simp only [hr, Option.some.injEq, Prod.mk.injEq] at h
          obtain ⟨h1, h2⟩ := h
          subst h1; subst h2
          have := ih _ _ _ hr
          cases hvv : isVar with
          | true =>
            rw [hvv] at hv this hcond
            simp only [Bool.true_and, Bool.not_eq_true] at hcond
            simp only [if_true, Option.isSome_some] at this
            simp only [List.filter_cons, ← hv, if_true, List.length_cons]
            cases hi : iv0.isSome with
            | true => rw [hi] at hcond; cases hcond
            | false => simp only [b2n] at this ⊢; simp at this ⊢; omega
          | false =>
            rw [hvv] at hv this
            simp only [Bool.false_eq_true, if_false] at this
            simp only [List.filter_cons, ← hv, Bool.false_eq_true, if_false]
            exact this

/-- the rank test of `_check_shape` -/
def rankOk (dims : List PDim) (iv : Option Nat) (r : Nat) : Bool :=
  match iv with
  | none => r == dims.length
  | some _ => dims.length - 1 ≤ r

/-- **shapes that admit rank 0**: for a parsed specification, every axis is a multi-axis
    specifier exactly when a rank-0 value passes the rank test -/
theorem all_variadic_iff_rank0 (s : List Char) (dims : List PDim) (iv : Option Nat)
    (h : parseSpec s = some (dims, iv)) :
    dims.all PDim.isVariadic = true ↔ rankOk dims iv 0 = true := by
  have hc := parseToks_count _ _ _ _ _ h
  simp only [Option.isSome_none, b2n, Bool.false_eq_true, if_false, Nat.add_zero] at hc
  constructor
  · intro hall
    have hf : dims.filter PDim.isVariadic = dims := List.filter_eq_self.mpr (by simpa using hall)
    rw [hf] at hc
    cases iv with
    | none => simp at hc; simp [rankOk, hc]
    | some i => simp at hc; simp [rankOk, hc]
  · intro hr
    cases iv with
    | none =>
      simp [rankOk] at hr
      have : dims = [] := List.eq_nil_of_length_eq_zero hr.symm
      simp [this]
    | some i =>
      simp [rankOk] at hr hc
      match dims, hr, hc with
      | [], _, hc => simp at hc
      | [d], _, hc =>
        by_cases hd : d.isVariadic = true
        · simp [hd]
        · simp [List.filter_cons, hd] at hc
      | _ :: _ :: _, hr, _ => simp at hr

/-! ### pickling by value -/

theorem mapM_byValueDim_true : ∀ dims : List PDim, dims.mapM (byValueDim true) = some dims
  | [] => rfl
  | d :: ds => by
    rw [List.mapM_cons, mapM_byValueDim_true ds]
    cases d <;> rfl

theorem byValue_true (m : Made) : byValue true m = some m := by
  unfold byValue
  rw [mapM_byValueDim_true]
  cases h : m.dtypes <;> simp [byValueDtypes, ← h]

theorem mapM_byValueDim_false : ∀ dims : List PDim,
    dims.mapM (byValueDim false) = none ↔ ∃ d ∈ dims, d = .anon ∨ d = .anonVar
  | [] => by simp
  | d :: ds => by
    rw [List.mapM_cons]
    have ih := mapM_byValueDim_false ds
    cases d with
    | anon => simp [byValueDim]
    | anonVar => simp [byValueDim]
    | named x b tp | namedVar x b tp | fixed k b | sym src b =>
      simp only [byValueDim, Option.bind_eq_bind, Option.bind_some, List.mem_cons, exists_eq_or_imp,
        reduceCtorEq, or_self, false_or]
      cases hm : ds.mapM (byValueDim false) with
      | none => simp [← ih, hm]
      | some r => simp [← ih, hm]

theorem byValue_false_none_iff (m : Made) :
    byValue false m = none ↔ m.dtypes = .any ∨ ∃ d ∈ m.dims, d = .anon ∨ d = .anonVar := by
  unfold byValue
  rw [← mapM_byValueDim_false]
  cases hd : m.dims.mapM (byValueDim false) with
  | none => simp
  | some ds =>
    cases ht : m.dtypes with
    | any => simp [byValueDtypes]
    | names l => simp [byValueDtypes]

end JV
