/-
C05 — bindings live exactly as long as one jaxtyped call or context block.
-/
import JaxVerif.Spec.Calls
import JaxVerif.Generated.Skeleton
import JaxVerif.Lemmas.Stack
import JaxVerif.Source.Wrappers
import JaxVerif.Source.Storage

namespace JV

/-- **balanced**: whatever a program does — nested and recursive calls of every flavour, context
    blocks, manual checks, exits by return, Exception, BaseException, calls that do not bind —
    afterwards the stack has the same depth and every frame below the top is exactly what it was. -/
theorem C05_balanced (sk : Skel) (w : WrapSkel) (hw : w.Good) (ps : List Prog) (st : TState) :
    (runProgs sk w ps st).1.stack.length = st.stack.length ∧
    (runProgs sk w ps st).1.stack.drop 1 = st.stack.drop 1 :=
  runProgs_balanced sk w hw ps st

/-- a context block leaves the caller's stack exactly as it was, contents of the top frame
    included, however it is left -/
theorem C05_ctx_exact (sk : Skel) (w : WrapSkel) (hw : w.Good) (body : List Prog) (e : Exit)
    (st : TState) : (runProg sk w (.ctx body e) st).1.stack = st.stack :=
  runProg_ctx_exact sk w hw body e st

/-- a decorated call that opens a context (i.e. is not running as the bare function because checks
    are disabled) leaves the caller's stack exactly as it was, however it ends -/
theorem C05_call_exact (sk : Skel) (w : WrapSkel) (hw : w.Good) (k : CallKind) (ps : List Param)
    (ret : Option (LType × Obj)) (bindOk noTc : Bool) (body : List Prog) (e : Exit) (st : TState)
    (hen : k = .newStyle → w.disableTestFirst = true → st.disable = false ∧ noTc = false) :
    (runProg sk w (.call k ps ret bindOk noTc body e) st).1.stack = st.stack :=
  runProg_call_exact sk w hw k ps ret bindOk noTc body e st hen

/-- outside every context a check remembers nothing -/
theorem C05_toplevel_stateless (sk : Skel) (w : WrapSkel) (l : LType) (x : Obj) (st : TState)
    (h : st.stack = []) : (runProg sk w (.check l x) st).1.stack = [] :=
  runProg_check_toplevel sk w l x st h

/-- **the callee is fresh**: what happens inside a call or a context block (every verdict, every
    `print_bindings()`, every nested outcome) does not depend on the bindings of the callers -/
theorem C05_callee_fresh (sk : Skel) (w : WrapSkel) (hw : w.Good) (p : Prog) (st₁ st₂ : TState)
    (hp : (∃ body e, p = .ctx body e) ∨
          (∃ k ps ret bindOk body e, p = .call k ps ret bindOk false body e ∧ st₁.disable = false))
    (hf : st₁.tp = st₂.tp ∧ st₁.flatten = st₂.flatten ∧ st₁.disable = st₂.disable) :
    (runProg sk w p st₁).2 = (runProg sk w p st₂).2 :=
  runProg_callee_fresh sk w hw p st₁ st₂ hp hf

/-- the skeleton read from the current source is good -/
theorem C05_generated_good :
    Generated.newPopInFinally = some true ∧ Generated.oldPopInFinally = some true ∧
    Generated.ctxExitPopsAlways = some true ∧ Generated.newBindBeforePush = some true ∧
    Generated.oldBindBeforePush = some true := by decide

/-- each fact matters: without the `finally` a BaseException leaves a frame behind; a context
    block that pops only on normal exit leaks too; binding after the push leaks on a bad call -/
theorem C05_facts_matter :
    let sk : Skel := ⟨.baseException, .baseException, true, true, true, true⟩
    let good : WrapSkel := ⟨true, true, true, true, true, true, true, true⟩
    ((runProg sk { good with newPopInFinally := false } (.call .newStyle [] none true false [] .raiseBase) {}).1.stack.length = 1) ∧
    ((runProg sk { good with oldPopInFinally := false } (.call .noChecker [] none true false [] .raiseExc) {}).1.stack.length = 1) ∧
    ((runProg sk { good with ctxExitPopsAlways := false } (.ctx [] .raiseExc) {}).1.stack.length = 1) ∧
    ((runProg sk { good with newBindBeforePush := false } (.call .newStyle [] none false false [] .ret) {}).1.stack.length = 1) := by
  decide

/-- **the code that pushes and pops, as written today**: the bodies of the new-style wrapper (with its helper frame),
    of the old-style / `typechecker=None` wrapper and of `_JaxtypingContext.__enter__` / `__exit__`, translated from
    the current source on this run, ARE the `call` / `ctx` steps of the model with every structural fact true — for
    every argument list (binding or not), every body, every verdict of the typechecker, every exit. `C05_balanced`,
    `C05_call_exact` and `C05_ctx_exact` are therefore statements about the code the source contains. -/
theorem C05_source_wrappers (sk : Skel) (ps : List Param) (ret : Option (LType × Obj)) (bindOk noTc rs nw : Bool)
    (B : TState → TState × List Obs) (e : Exit) (st : TState) :
    runWrapper ⟨sk, ps, ret, bindOk, noTc, B, e, rs, nw, none, .plain, Generated.newImplCode⟩ Generated.newWrapperCode st
      = some (callStep sk goodWrap .newStyle ps ret bindOk noTc B e st) ∧
    runWrapper ⟨sk, ps, ret, bindOk, noTc, B, e, rs, nw, none, .typechecked, .unknown⟩ Generated.oldWrapperCode st
      = some (callStep sk goodWrap .oldStyle ps ret bindOk noTc B e st) ∧
    runWrapper ⟨sk, ps, ret, bindOk, noTc, B, e, rs, nw, none, .plain, .unknown⟩ Generated.oldWrapperCode st
      = some (callStep sk goodWrap .noChecker ps ret bindOk noTc B e st) ∧
    runCtx Generated.ctxEnterCode Generated.ctxExitCode none B e st = some (ctxStep goodWrap B e st) :=
  ⟨source_new_wrapper .., source_old_wrapper .., source_nochecker_wrapper .., source_context ..⟩

/-- **popped whatever the message code does**: the statements that only build message text call user code
    (`__repr__`, the `__setattr__` behind `add_note`); whether or not the first of them raises, and whatever it
    raises, the thread state each wrapper leaves behind is the model's — the frame pushed for the call is gone. -/
theorem C05_source_pop_whatever (mf : Option Exc) (k : FnKind) (sk : Skel) (ps : List Param) (ret : Option (LType × Obj))
    (bindOk noTc rs nw : Bool) (B : TState → TState × List Obs) (e : Exit) (st : TState) :
    (runWrapper ⟨sk, ps, ret, bindOk, noTc, B, e, rs, nw, mf, .plain, Generated.newImplCode⟩ Generated.newWrapperCode st).map Prod.fst
      = some (callStep sk goodWrap .newStyle ps ret bindOk noTc B e st).1 ∧
    (runWrapper ⟨sk, ps, ret, bindOk, noTc, B, e, rs, nw, mf, k, .unknown⟩ Generated.oldWrapperCode st).map Prod.fst
      = some (callStep sk goodWrap (match k with | .plain => .noChecker | .typechecked => .oldStyle) ps ret bindOk noTc B e st).1 ∧
    (runCtx Generated.ctxEnterCode Generated.ctxExitCode mf B e st).map Prod.fst = some (ctxStep goodWrap B e st).1 :=
  ⟨source_new_wrapper_faults .., source_old_wrapper_faults .., source_context_faults ..⟩

/-- `get_shape_memo` / `set_shape_memo` / `push_shape_memo` / `pop_shape_memo` of jaxtyping/_storage.py, translated from
    the source read today (harness/translate_storage.py), are the stack operations the theorems above are about, for every
    content of the thread's cell: a push adds exactly one frame, a pop removes exactly the top one, reading and writing
    never change the depth (Source/Storage.lean) -/
theorem C05_source_storage (ctx : SCtx) (st : TState) (cell : Option (List Memo)) (h : st.stack = cell.getD []) :
    (∃ src, runStorageFn Generated.storageFuns ctx Generated.getShapeMemoCode cell = some (cell, .frame src) ∧
            resolve ctx (topMemo st) src = topMemo st) ∧
    ((runStorageFn Generated.storageFuns ctx Generated.setShapeMemoCode cell).map (fun r => r.1.getD [])
        = some (match st.stack with | [] => [] | _ :: r => ctx.M :: r)) ∧
    ((runStorageFn Generated.storageFuns ctx Generated.pushShapeMemoCode cell).map (fun r => r.1.getD [])
        = some ({ args := ctx.A } :: st.stack)) ∧
    (st.stack ≠ [] → (runStorageFn Generated.storageFuns ctx Generated.popShapeMemoCode cell).map (fun r => r.1.getD [])
        = some (popStack st).stack) :=
  source_storage_model ctx st cell h

/-- REFINEMENT, from the source read today: every history of `get_shape_memo` / `set_shape_memo` / `push_shape_memo` /
    `pop_shape_memo` calls that the abstract stack machine accepts (no pop without a frame — which `C05_balanced` proves
    of every program) runs on the translated functions without an error and leaves the thread's cell holding exactly the
    abstract stack, from any starting cell (by induction over the history, Source/Storage.lean) -/
theorem C05_source_storage_history (ops : List StackOp) (c : Option (List Memo)) (s' : List Memo)
    (h : runStackSpec ops (c.getD []) = some s') :
    (runStackImpl ops c).map (·.getD []) = some s' :=
  source_storage_history ops c s' h

/-- the hypothesis is satisfiable by a non-trivial history: a thread that never used the library pushes twice, writes,
    reads, pops once -/
example : runStackSpec [.push [], .push [], .set {}, .get, .pop] ((none : Option (List Memo)).getD []) = some [{ args := [] }] := by
  simp [runStackSpec, StackOp.spec]

end JV
