import JaxVerif.Properties.C05

#print axioms JV.C05_balanced
#print axioms JV.C05_ctx_exact
#print axioms JV.C05_call_exact
#print axioms JV.C05_toplevel_stateless
#print axioms JV.C05_callee_fresh
#print axioms JV.C05_generated_good
#print axioms JV.C05_facts_matter
#print axioms JV.C05_source_wrappers
#print axioms JV.C05_source_pop_whatever
#print axioms JV.C05_source_storage
#print axioms JV.C05_source_storage_history
