/-
C13 — type-check errors are raised iff violated and describe the failure truthfully.
-/
import JaxVerif.Spec.Calls
import JaxVerif.Generated.Skeleton
import JaxVerif.Lemmas.Errors
import JaxVerif.Source.Wrappers

namespace JV

/-- the outcome reported by a program statement (its last observation) -/
def lastObs (r : TState × List Obs) : Option Obs := r.2.getLast?

/-- **raised iff violated, at the right stage**: for a new-style call whose parameters and return
    value carry array annotations, the outcome is decided by the one sequential walk
    parameters, parameters again, return value — which `C02_seq_iff` shows to be satisfiability:
    accepted ⇒ the call returns; rejected ⇒ a TypeCheckError for the parameters or for the return
    value; an unbound symbolic name ⇒ AnnotationError, never a TypeCheckError. -/
theorem C13_iff (sk : Skel) (w : WrapSkel) (hw : w.disableTestFirst = true ∧ w.annErrFirst = true)
    (ps : List Param) (r : Param) (st : TState) (hd : st.disable = false) (hf : st.flatten = false)
    (hps : ∀ p ∈ ps ++ [r], ∃ cls a, p.ty = .arr cls a) :
    let l := (ps ++ ps ++ [r]).map Param.asArr
    let v := (checkSeq sk.arrayCatch st.tp l { args := argsOf ps }).1
    let o := lastObs (runProg sk w (.call .newStyle ps (some (r.ty, r.val)) true false [] .ret) st)
    (v = .T → o = some (.outcome .returned)) ∧
    (v = .F → o = some (.outcome .tceReturn) ∨ ∃ b, o = some (.outcome (.tceParams b))) ∧
    (v = .ANN → o = some (.outcome .ann)) :=
  call_outcome_iff sk w hw ps r st hd hf hps

/-- the stage is truthful: the error is a parameter error exactly when the parameter pass itself
    (before the body ran) was rejected -/
theorem C13_stage (sk : Skel) (w : WrapSkel) (hw : w.disableTestFirst = true ∧ w.annErrFirst = true)
    (ps : List Param) (ret : Option (LType × Obj)) (body : List Prog) (st : TState)
    (hd : st.disable = false) :
    let st1 : TState := { st with stack := { args := argsOf ps } :: st.stack }
    let r := runProg sk w (.call .newStyle ps ret true false body .ret) st
    ((∃ b, lastObs r = some (.outcome (.tceParams b))) →
        (checkParams sk ps st1).2.1 ≠ .T ∧ Obs.bodyStart ∉ r.2) ∧
    (lastObs r = some (.outcome .tceReturn) → (checkParams sk ps st1).2.1 = .T) :=
  call_stage sk w hw ps ret body st hd

/-- **blame**: when the parameter pass over array-annotated parameters stops with False at some
    parameter, the one-at-a-time re-check blames exactly that parameter — the first, in signature
    order, that violates its annotation under the bindings of the parameters before it — and the
    re-checks of the accepted parameters change nothing (idempotence, C04). -/
theorem C13_blame (sk : Skel) (ps : List Param) (m : Memo) (rest : List Memo) (tpv : TreePath) (dis : Bool)
    (hps : ∀ p ∈ ps, ∃ cls a, p.ty = .arr cls a)
    (st2 : TState) (nm : String)
    (h : checkParams sk ps { stack := m :: rest, tp := tpv, flatten := false, disable := dis } = (st2, .F, some nm)) :
    problemArg sk ps st2 = (st2, .inl (some nm)) :=
  problemArg_blames_first sk ps m rest tpv dis hps st2 nm h

/-- **bindings listed**: a sequential walk that stops with False leaves exactly the bindings of
    the accepted checks before it — none missing, none from the check that failed -/
theorem C13_bindings (c : Catch) (tp : TreePath) (l : List (Ann × ArrObj)) (m m' : Memo)
    (h : checkSeq c tp l m = (.F, m')) :
    ∃ l1 p l2, l = l1 ++ p :: l2 ∧ checkSeq c tp l1 m = (.T, m') ∧
      (instancecheck c false tp p.1 p.2 m').1 = .F ∧ (instancecheck c false tp p.1 p.2 m').2 = m' :=
  checkSeq_fail_memo c tp l m m' h

/-- misuse surfaces as AnnotationError: with the `except AnnotationError: raise` clause first, an
    AnnotationError met in the parameter pass is the outcome of the call -/
theorem C13_annotation_error (sk : Skel) (w : WrapSkel) (hw : w.disableTestFirst = true ∧ w.annErrFirst = true)
    (ps : List Param) (ret : Option (LType × Obj)) (body : List Prog) (e : Exit) (st : TState)
    (hd : st.disable = false)
    (h : (checkParams sk ps { st with stack := { args := argsOf ps } :: st.stack }).2.1 = .ANN) :
    lastObs (runProg sk w (.call .newStyle ps ret true false body e) st) = some (.outcome .ann) :=
  call_ann sk w hw ps ret body e st hd h

/-- the source read today: AnnotationError handler first; message built from the current bindings -/
theorem C13_generated_good :
    Generated.annErrFirst = some true ∧ Generated.messageCurrent = some true := by decide

/-- **the handlers as written today are the model's**: the two `try … except AnnotationError: raise … except Exception`
    blocks of `wrapped_fn_impl`, the blame step and the two `raise TypeCheckError(msg)` (whose text must end with the
    CURRENT bindings, else the interpreter crashes), translated from the current source on this run, compute exactly
    the model's step — for every verdict of either typechecker pass, every outcome of the re-check, both values of
    the remove-stack switch. `C13_iff`, `C13_stage` and `C13_annotation_error` are therefore statements about the
    code the source contains. -/
theorem C13_source_wrapper (sk : Skel) (ps : List Param) (ret : Option (LType × Obj)) (bindOk noTc rs nw : Bool)
    (body : List Prog) (e : Exit) (st : TState) :
    runWrapper ⟨sk, ps, ret, bindOk, noTc, runProgs sk goodWrap body, e, rs, nw, none, .plain, Generated.newImplCode⟩
        Generated.newWrapperCode st
      = some (runProg sk goodWrap (.call .newStyle ps ret bindOk noTc body e) st) :=
  source_runProg_call ..

/-- **who is blamed, as written today**: the `for keep_name … else` loop of `_get_problem_arg`, translated from the current
    source on this run, computes `problemArg` of the model for every parameter list and every thread state — so
    `C13_blame` ("the first parameter violating its annotation given the earlier ones, no binding changed") is a
    statement about the code the source contains. (Building the one-parameter checker is a primitive of the translation.) -/
theorem C13_source_blame (sk : Skel) (ps : List Param) (st : TState) :
    runBlame sk Generated.problemArgBody Generated.problemArgElse ps st = some (problemArg sk ps st) :=
  source_problem_arg sk ps st

end JV
