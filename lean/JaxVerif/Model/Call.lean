/-
Executable model of the context stack (jaxtyping/_storage.py) and of the `jaxtyped` wrappers
(jaxtyping/_decorator.py): new-style `jaxtyped(typechecker=tc)`, old-style
`jaxtyped(tc(fn))`, `typechecker=None`, and `jaxtyped("context")`.
Core Lean only.
-/
import JaxVerif.Model.PyTree

namespace JV

/-- structural facts about the wrappers, read from the current source by the translator -/
structure WrapSkel where
  /-- `pop_shape_memo()` sits in a `finally` covering everything after the push (new-style) -/
  newPopInFinally : Bool
  /-- the same for the old-style / typechecker=None wrapper -/
  oldPopInFinally : Bool
  /-- `_JaxtypingContext.__exit__` pops whatever the exception state -/
  ctxExitPopsAlways : Bool
  /-- `signature.bind` happens before `push_shape_memo` (new-style) -/
  newBindBeforePush : Bool
  oldBindBeforePush : Bool
  /-- the disable / no_type_check test comes before bind and push -/
  disableTestFirst : Bool
  /-- in both typecheck paths `except AnnotationError: raise` precedes `except Exception` -/
  annErrFirst : Bool
  /-- the message lists the bindings current at detection time (not a stale captured tuple) -/
  messageCurrent : Bool
  deriving Repr, DecidableEq

structure TState where
  stack : List Memo := []      -- head = top
  tp : TreePath := none
  flatten : Bool := false
  disable : Bool := false
  deriving Repr

/-- run a check against the top of the stack; with an empty stack `get_shape_memo` hands out
    throw-away dicts and `set_shape_memo` is a no-op -/
def onTop (st : TState) (f : CState → CState × Verdict) : TState × Verdict :=
  match st.stack with
  | [] =>
    let (c, v) := f { memo := {}, tp := st.tp, flatten := st.flatten, noCtx := true }
    ({ st with tp := c.tp, flatten := c.flatten }, v)
  | m :: rest =>
    let (c, v) := f { memo := m, tp := st.tp, flatten := st.flatten }
    ({ st with stack := c.memo :: rest, tp := c.tp, flatten := c.flatten }, v)

inductive CallKind
  | newStyle      -- jaxtyped(typechecker=tc)
  | oldStyle      -- jaxtyped(tc(fn))
  | noChecker     -- jaxtyped(typechecker=None)
  deriving DecidableEq, Repr

inductive Exit
  | ret | raiseExc | raiseBase
  deriving DecidableEq, Repr

inductive CallOutcome
  | returned
  | tceParams (blame : Option String)     -- TypeCheckError, parameter stage
  | tceReturn                             -- TypeCheckError, return stage
  | checkerError                          -- old-style: the typechecker's own error
  | ann                                   -- AnnotationError
  | exc (e : Exc)                         -- the body's / user code's exception
  | bindError                             -- ordinary TypeError from signature.bind
  deriving DecidableEq, Repr

inductive Obs
  | verdict (v : Verdict)
  | bindings (m : Option Memo)            -- none = no context: prints nothing
  | bodyStart
  | outcome (o : CallOutcome)
  | tceBindings (m : Memo)                -- the bindings listed by a TypeCheckError
  deriving Repr

structure Param where
  name : String
  ty : LType
  val : Obj
  deriving Repr

inductive Prog
  | check (l : LType) (x : Obj)
  | print
  | call (k : CallKind) (params : List Param) (ret : Option (LType × Obj)) (bindOk : Bool)
      (noTypeCheck : Bool) (body : List Prog) (exit : Exit)
  | ctx (body : List Prog) (exit : Exit)
  | setDisable (b : Bool)
  deriving Repr

def argsOf (ps : List Param) : Args :=
  ps.filterMap fun p =>
    match p.val with
    | .int n => some (p.name, ArgVal.int n)
    | .opaque "raises:exception" => some (p.name, ArgVal.raises .exception)
    | .opaque "raises:base" => some (p.name, ArgVal.raises .baseException)
    | _ => none

/-- the typechecker's pass over a list of annotated parameters, in order, in the current
    context; stops at the first that fails or raises -/
def checkParams (sk : Skel) : List Param → TState → TState × Verdict × Option String
  | [], st => (st, .T, none)
  | p :: ps, st =>
    match onTop st (checkL sk p.ty p.val) with
    | (st1, .T) => checkParams sk ps st1
    | (st1, v) => (st1, v, some p.name)

/-- `_get_problem_arg`: re-check one parameter at a time in the same context; the first that
    fails (TypeError *or any other Exception*) is blamed. `inl e` = a BaseException escaped. -/
def problemArg (sk : Skel) : List Param → TState → TState × (Option String ⊕ Exc)
  | [], st => (st, .inl none)
  | p :: ps, st =>
    match onTop st (checkL sk p.ty p.val) with
    | (st1, .T) => problemArg sk ps st1
    | (st1, .EXC .baseException) => (st1, .inr .baseException)
    | (st1, _) => (st1, .inl (some p.name))

def popStack (st : TState) : TState := { st with stack := st.stack.drop 1 }

def topMemo (st : TState) : Memo := st.stack.headD {}

def exitOutcome : Exit → CallOutcome
  | .ret => .returned
  | .raiseExc => .exc .exception
  | .raiseBase => .exc .baseException

def isExceptional : CallOutcome → Bool
  | .returned => false
  | _ => true

/-- does the `pop` happen for this outcome, given whether it sits in a `finally` -/
def popAfter (inFinally : Bool) (o : CallOutcome) (st : TState) : TState :=
  if inFinally || !isExceptional o then popStack st else st

mutual
def runProg (sk : Skel) (w : WrapSkel) : Prog → TState → TState × List Obs
  | .check l x, st =>
    let (st1, v) := onTop st (checkL sk l x)
    (st1, [.verdict v])
  | .print, st =>
    (st, [.bindings (st.stack.head?)])
  | .setDisable b, st => ({ st with disable := b }, [])
  | .ctx body exit, st =>
    let st1 := { st with stack := ({} : Memo) :: st.stack }
    let (st2, obs) := runProgs sk w body st1
    let o := exitOutcome exit
    let st3 := if w.ctxExitPopsAlways || !isExceptional o then popStack st2 else st2
    (st3, obs ++ [.outcome o])
  | .call k params ret bindOk noTc body exit, st =>
    match k with
    | .noChecker =>
      -- old-style wrapper without a typechecker inside: bind, push, body, pop
      if !bindOk then
        if w.oldBindBeforePush then (st, [.outcome .bindError])
        else ({ st with stack := ({} : Memo) :: st.stack }, [.outcome .bindError])
      else
        let st1 := { st with stack := { args := argsOf params } :: st.stack }
        let (st2, obs) := runProgs sk w body st1
        let o := exitOutcome exit
        (popAfter w.oldPopInFinally o st2, [.bodyStart] ++ obs ++ [.outcome o])
    | .oldStyle =>
      if !bindOk then
        if w.oldBindBeforePush then (st, [.outcome .bindError])
        else ({ st with stack := ({} : Memo) :: st.stack }, [.outcome .bindError])
      else
        let st1 := { st with stack := { args := argsOf params } :: st.stack }
        -- the typechecker's wrapper runs inside the pushed context
        match checkParams sk params st1 with
        | (st2, .T, _) =>
          let (st3, obs) := runProgs sk w body st2
          match exit with
          | .ret =>
            let (st4, v) := match ret with
              | none => (st3, Verdict.T)
              | some (l, x) => onTop st3 (checkL sk l x)
            let o : CallOutcome := match v with
              | .T => .returned | .F => .checkerError | .ANN => .ann | .EXC e => .exc e
            (popAfter w.oldPopInFinally o st4, [.bodyStart] ++ obs ++ [.outcome o])
          | e =>
            let o := exitOutcome e
            (popAfter w.oldPopInFinally o st3, [.bodyStart] ++ obs ++ [.outcome o])
        | (st2, v, _) =>
          let o : CallOutcome := match v with
            | .F => .checkerError | .ANN => .ann | .EXC e => .exc e | .T => .returned
          (popAfter w.oldPopInFinally o st2, [.outcome o])
    | .newStyle =>
      let bare : TState × List Obs :=
        -- behaves like the undecorated function
        if !bindOk then (st, [.outcome .bindError])
        else
          let (st2, obs) := runProgs sk w body st
          (st2, [.bodyStart] ++ obs ++ [.outcome (exitOutcome exit)])
      if w.disableTestFirst && (st.disable || noTc) then bare
      else if !bindOk then
        if w.newBindBeforePush then (st, [.outcome .bindError])
        else ({ st with stack := ({} : Memo) :: st.stack }, [.outcome .bindError])
      else
        let st1 := { st with stack := { args := argsOf params } :: st.stack }
        if !w.disableTestFirst && (st.disable || noTc) then
          -- the test comes too late: a context was pushed around the bare call
          let (st2, obs) := runProgs sk w body st1
          let o := exitOutcome exit
          (popAfter w.newPopInFinally o st2, [.bodyStart] ++ obs ++ [.outcome o])
        else
        match checkParams sk params st1 with
        | (st2, .T, _) =>
          let (st3, obs) := runProgs sk w body st2
          match exit with
          | .ret =>
            match ret with
            | none => (popAfter w.newPopInFinally .returned st3, [.bodyStart] ++ obs ++ [.outcome .returned])
            | some (l, x) =>
              -- full pass: parameters again, then the return value, same context
              match checkParams sk params st3 with
              | (st4, .T, _) =>
                match onTop st4 (checkL sk l x) with
                | (st5, .T) =>
                  (popAfter w.newPopInFinally .returned st5, [.bodyStart] ++ obs ++ [.outcome .returned])
                | (st5, .ANN) =>
                  let o := if w.annErrFirst then CallOutcome.ann else .tceReturn
                  (popAfter w.newPopInFinally o st5, [.bodyStart] ++ obs ++ [.outcome o])
                | (st5, .EXC .baseException) =>
                  (popAfter w.newPopInFinally (.exc .baseException) st5,
                    [.bodyStart] ++ obs ++ [.outcome (.exc .baseException)])
                | (st5, _) =>
                  (popAfter w.newPopInFinally .tceReturn st5,
                    [.bodyStart] ++ obs ++ [.tceBindings (topMemo st5), .outcome .tceReturn])
              | (st4, .ANN, _) =>
                let o := if w.annErrFirst then CallOutcome.ann else .tceReturn
                (popAfter w.newPopInFinally o st4, [.bodyStart] ++ obs ++ [.outcome o])
              | (st4, .EXC .baseException, _) =>
                (popAfter w.newPopInFinally (.exc .baseException) st4,
                  [.bodyStart] ++ obs ++ [.outcome (.exc .baseException)])
              | (st4, _, _) =>
                (popAfter w.newPopInFinally .tceReturn st4,
                  [.bodyStart] ++ obs ++ [.tceBindings (topMemo st4), .outcome .tceReturn])
          | e =>
            let o := exitOutcome e
            (popAfter w.newPopInFinally o st3, [.bodyStart] ++ obs ++ [.outcome o])
        | (st2, .ANN, _) =>
          if w.annErrFirst then (popAfter w.newPopInFinally .ann st2, [.outcome .ann])
          else
            match problemArg sk params st2 with
            | (st3, .inl b) => (popAfter w.newPopInFinally (.tceParams b) st3,
                [.tceBindings (topMemo st3), .outcome (.tceParams b)])
            | (st3, .inr e) => (popAfter w.newPopInFinally (.exc e) st3, [.outcome (.exc e)])
        | (st2, .EXC .baseException, _) =>
          (popAfter w.newPopInFinally (.exc .baseException) st2, [.outcome (.exc .baseException)])
        | (st2, _, _) =>
          match problemArg sk params st2 with
          | (st3, .inl b) => (popAfter w.newPopInFinally (.tceParams b) st3,
              [.tceBindings (topMemo st3), .outcome (.tceParams b)])
          | (st3, .inr e) => (popAfter w.newPopInFinally (.exc e) st3, [.outcome (.exc e)])
def runProgs (sk : Skel) (w : WrapSkel) : List Prog → TState → TState × List Obs
  | [], st => (st, [])
  | p :: ps, st =>
    let (st1, o1) := runProg sk w p st
    let (st2, o2) := runProgs sk w ps st1
    (st2, o1 ++ o2)
end

end JV
