/-
Model of the parameter list `_make_fn_with_signature` (jaxtyping/_decorator.py) renders for the
synthesised checking functions, and of how Python reads a parameter list back. Core Lean only.
-/
namespace JV

inductive PKind
  | posOnly | posOrKw | varPos | kwOnly | varKw
  deriving DecidableEq, Repr

structure SParam where
  name : String
  kind : PKind
  hasDefault : Bool
  deriving DecidableEq, Repr

/-- the comma-separated pieces of a `def` parameter list -/
inductive Piece
  | param (p : SParam)        -- `name: T = default`
  | slash                     -- `/`
  | star                      -- bare `*`
  | starParam (p : SParam)    -- `*name: T`
  | dstarParam (p : SParam)   -- `**name: T`
  deriving DecidableEq, Repr

def ofKind (k : PKind) (sig : List SParam) : List SParam := sig.filter (fun p => p.kind == k)

/-- `argstr_pieces` of `_make_fn_with_signature`: the parameters are grouped by kind
    (`pos`, `pos_or_key`, `varpos`, `key` — to which the fresh keyword-only output parameter is
    appended — `varkey`) and emitted in the one order Python accepts -/
def renderSig (sig : List SParam) (extraKw : List SParam) : List Piece :=
  let pos := ofKind .posOnly sig
  let key := ofKind .kwOnly sig ++ extraKw
  (if pos.isEmpty then [] else pos.map .param ++ [.slash]) ++
  (ofKind .posOrKw sig).map .param ++
  (match ofKind .varPos sig with
   | [p] => [.starParam p]
   | _ => if key.isEmpty then [] else [.star]) ++
  key.map .param ++
  (match ofKind .varKw sig with
   | [p] => [.dstarParam p]
   | _ => [])

/-- Python's reading of the pieces after any `/`: positional-or-keyword until a `*` / `*name`,
    keyword-only after it -/
def readRest : Bool → List Piece → List SParam
  | _, [] => []
  | s, .param p :: r => { p with kind := if s then .kwOnly else .posOrKw } :: readRest s r
  | _, .star :: r => readRest true r
  | _, .starParam p :: r => { p with kind := .varPos } :: readRest true r
  | s, .dstarParam p :: r => { p with kind := .varKw } :: readRest s r
  | s, .slash :: r => readRest s r

/-- the pieces before the first `/` (if there is one) and the rest -/
def splitSlash : List Piece → Option (List Piece × List Piece)
  | [] => none
  | .slash :: r => some ([], r)
  | x :: r => (splitSlash r).map fun (a, b) => (x :: a, b)

def asPosOnly : List Piece → List SParam
  | [] => []
  | .param p :: r => { p with kind := .posOnly } :: asPosOnly r
  | _ :: r => asPosOnly r

/-- the signature Python gives the synthesised `def` -/
def parsePieces (ps : List Piece) : List SParam :=
  match splitSlash ps with
  | some (before, after) => asPosOnly before ++ readRest false after
  | none => readRest false ps

end JV
