/-
Non-interference of threads when every storage cell is thread-local (C06).
-/
import JaxVerif.Model.Threads

namespace JV

variable {Obs : Type}

theorem view_allLocal (k : Kinds) (hk : k.allLocal = true) (w : World) (t : Nat) :
    w.view k t = w.locals t := by
  simp only [Kinds.allLocal, Bool.and_eq_true] at hk
  obtain ⟨⟨h1, h2⟩, h3⟩ := hk
  simp [World.view, h1, h2, h3]

theorem write_allLocal_self (k : Kinds) (hk : k.allLocal = true) (w : World) (t : Nat) (c : Cells) :
    (w.write k t c).locals t = c := by
  simp only [Kinds.allLocal, Bool.and_eq_true] at hk
  obtain ⟨⟨h1, h2⟩, h3⟩ := hk
  simp [World.write, h1, h2, h3]

theorem write_other (k : Kinds) (w : World) (t u : Nat) (c : Cells) (h : u ≠ t) :
    (w.write k t c).locals u = w.locals u := by
  simp [World.write, h]

/-- **frame**: a step of another thread changes nothing thread `t` can observe -/
theorem stepRun_other (k : Kinds) (progs : Nat → List (Step Obs)) (r : Run Obs) (t u : Nat)
    (h : t ≠ u) : (stepRun k progs r u).viewOf t = r.viewOf t := by
  unfold stepRun
  cases (progs u)[r.pc u]? with
  | none => rfl
  | some f =>
    simp only [Run.viewOf]
    rw [write_other k r.w u t _ h]
    simp [h]

/-- **determinism**: a step of `t` itself depends only on what `t` can observe -/
theorem stepRun_self (k : Kinds) (hk : k.allLocal = true) (progs : Nat → List (Step Obs))
    (r r' : Run Obs) (t : Nat) (h : r.viewOf t = r'.viewOf t) :
    (stepRun k progs r t).viewOf t = (stepRun k progs r' t).viewOf t := by
  simp only [Run.viewOf, Prod.mk.injEq] at h
  obtain ⟨h1, h2, h3⟩ := h
  unfold stepRun
  rw [h2]
  cases (progs t)[r'.pc t]? with
  | none => simp [Run.viewOf, h1, h2, h3]
  | some f =>
    simp only [Run.viewOf, view_allLocal k hk, write_allLocal_self k hk, h1, h2, h3, if_true]

/-- **non-interference**: what thread `t` observes of a run under ANY schedule is what it
    observes when all steps of the other threads are erased from the schedule -/
theorem runSched_project (k : Kinds) (hk : k.allLocal = true) (progs : Nat → List (Step Obs)) (t : Nat) :
    ∀ (sched : List Nat) (r r' : Run Obs), r.viewOf t = r'.viewOf t →
      (runSched k progs r sched).viewOf t = (runSched k progs r' (sched.filter (· == t))).viewOf t
  | [], r, r', h => h
  | u :: rest, r, r', h => by
    by_cases hu : u = t
    · subst hu
      have hf : (u :: rest).filter (· == u) = u :: rest.filter (· == u) := by simp
      rw [hf]
      simp only [runSched, List.foldl_cons]
      exact runSched_project k hk progs u rest _ _ (stepRun_self k hk progs r r' u h)
    · have hf : (u :: rest).filter (· == t) = rest.filter (· == t) := by
        simp [hu]
      rw [hf]
      simp only [runSched, List.foldl_cons]
      refine runSched_project k hk progs t rest _ _ ?_
      rw [stepRun_other k progs r t u (fun e => hu e.symm)]
      exact h

/-- running only `t`: `n` steps of `t` from its own cells, no world needed -/
def soloRun (prog : List (Step Obs)) : Nat → Cells × Nat × List Obs → Cells × Nat × List Obs
  | 0, s => s
  | n + 1, (c, pc, tr) =>
    match prog[pc]? with
    | none => soloRun prog n (c, pc, tr)
    | some f => let (c', o) := f c; soloRun prog n (c', pc + 1, tr ++ o)

theorem runSched_replicate (k : Kinds) (hk : k.allLocal = true) (progs : Nat → List (Step Obs)) (t : Nat) :
    ∀ (n : Nat) (r : Run Obs),
      (runSched k progs r (List.replicate n t)).viewOf t = soloRun (progs t) n (r.viewOf t)
  | 0, r => rfl
  | n + 1, r => by
    simp only [List.replicate_succ, runSched, List.foldl_cons]
    have ih := runSched_replicate k hk progs t n (stepRun k progs r t)
    simp only [runSched] at ih
    rw [ih]
    unfold stepRun
    simp only [Run.viewOf]
    cases hp : (progs t)[r.pc t]? with
    | none => simp [soloRun, hp]
    | some f =>
      simp only [soloRun, hp, view_allLocal k hk, write_allLocal_self k hk, if_true]

theorem filter_eq_replicate (t : Nat) (sched : List Nat) :
    sched.filter (· == t) = List.replicate (sched.count t) t := by
  induction sched with
  | nil => rfl
  | cons u rest ih =>
    by_cases hu : u = t
    · subst hu; simp [ih, List.replicate_succ]
    · have : (u == t) = false := by simpa using hu
      simp [List.filter_cons, this, ih, List.count_cons, hu]

end JV
