/-
C02 — a checked call is accepted iff one consistent axis assignment exists.
-/
import JaxVerif.Spec.Calls
import JaxVerif.Lemmas.Calls

namespace JV

/-- **the verdict is satisfiability**: unless a check raises, a sequence of array checks in one
    context is accepted exactly when ONE total assignment of sizes to names and shapes to `*names`,
    consistent with what the context already binds, matches every value. -/
theorem C02_seq_iff (c : Catch) (tp : TreePath) (l : List (Ann × ArrObj)) (m : Memo)
    (ht : ∀ p ∈ l, p.1.transparent = false)
    (hr : (checkSeq c tp l m).1 = .T ∨ (checkSeq c tp l m).1 = .F) :
    (checkSeq c tp l m).1 = .T ↔
      ∃ α, Extends α m.single m.variadic ∧ ∀ p ∈ l, GoodUnder tp m.args α p :=
  checkSeq_iff c tp l m ht hr

/-- order independence: any permutation of the parameters (declaration order, positional vs
    keyword passing, the typechecker's traversal order) gives the same verdict, provided neither
    order meets an unbound symbolic name or raising user code -/
theorem C02_perm (c : Catch) (tp : TreePath) (l₁ l₂ : List (Ann × ArrObj)) (m : Memo)
    (hp : l₁.Perm l₂)
    (ht : ∀ p ∈ l₁, p.1.transparent = false)
    (h₁ : (checkSeq c tp l₁ m).1 = .T ∨ (checkSeq c tp l₁ m).1 = .F)
    (h₂ : (checkSeq c tp l₂ m).1 = .T ∨ (checkSeq c tp l₂ m).1 = .F) :
    (checkSeq c tp l₁ m).1 = (checkSeq c tp l₂ m).1 :=
  checkSeq_perm c tp l₁ l₂ m hp ht h₁ h₂

/-- checking the parameters twice (parameter pass, then full pass with the return value, same
    context) decides the same thing as checking parameters and return value once -/
theorem C02_recheck (c : Catch) (tp : TreePath) (l : List (Ann × ArrObj)) (r : Ann × ArrObj) (m : Memo)
    (ht : ∀ p ∈ l ++ [r], p.1.transparent = false)
    (h₁ : (checkSeq c tp (l ++ l ++ [r]) m).1 = .T ∨ (checkSeq c tp (l ++ l ++ [r]) m).1 = .F)
    (h₂ : (checkSeq c tp (l ++ [r]) m).1 = .T ∨ (checkSeq c tp (l ++ [r]) m).1 = .F) :
    (checkSeq c tp (l ++ l ++ [r]) m).1 = (checkSeq c tp (l ++ [r]) m).1 :=
  checkSeq_recheck c tp l r m ht h₁ h₂

/-- the wrapper's parameter pass over array-annotated parameters *is* `checkSeq` on the pushed
    context -/
theorem C02_checkParams_eq (sk : Skel) (ps : List Param) (m : Memo) (rest : List Memo)
    (tpv : TreePath) (dis : Bool) (h : ∀ p ∈ ps, ∃ cls a, p.ty = .arr cls a) :
    let st : TState := { stack := m :: rest, tp := tpv, flatten := false, disable := dis }
    (checkParams sk ps st).2.1 = (checkSeq sk.arrayCatch tpv (ps.map Param.asArr) m).1 ∧
    (checkParams sk ps st).1.stack = (checkSeq sk.arrayCatch tpv (ps.map Param.asArr) m).2 :: rest :=
  checkParams_eq_checkSeq sk ps m rest tpv dis h

/-! non-vacuity: `x:"a b", y:"b c", z:"a c"` accepted for (2,3),(3,4),(2,4); rejected once z is (2,5);
    and rejected in *every* order -/
private def A (d1 d2 : String) : Ann :=
  { dtypes := .any, shape := { pre := [.named d1 false false, .named d2 false false], var := none } }
private def V (s : List Nat) : ArrObj := { isInst := true, dtype := "float32", shape := s }
example : (checkSeq .baseException none [(A "a" "b", V [2, 3]), (A "b" "c", V [3, 4]), (A "a" "c", V [2, 4])] {}).1 = .T := by decide
example : (checkSeq .baseException none [(A "a" "b", V [2, 3]), (A "b" "c", V [3, 4]), (A "a" "c", V [2, 5])] {}).1 = .F := by decide
example : (checkSeq .baseException none [(A "a" "c", V [2, 5]), (A "b" "c", V [3, 4]), (A "a" "b", V [2, 3])] {}).1 = .F := by decide

end JV
