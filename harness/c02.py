"""C02 — a checked call is accepted iff one consistent axis assignment exists; the verdict does
not depend on parameter order, positional/keyword passing, typechecker or decorator spelling.

The Lean theorems (Properties/C02.lean) prove that the model's sequential walk IS satisfiability
and is permutation invariant. Here: every generated call is run under all configurations on the
real code; all verdicts must be equal to the model's (= the spec's) single verdict.
"""
from __future__ import annotations

import dataclasses
import json

import beartype
import beartype.roar
import typeguard

import extract
import gen_dims
import impl_prog
import jaxtyping
from common import Rng
from gen_prog import arr_type, arr_val
from impl_prog import ARRAY_CLASSES
from jaxtyping import AnnotationError, TypeCheckError, jaxtyped

LEVEL = "proof"
THEOREMS = ["C02_seq_iff", "C02_perm", "C02_recheck", "C02_checkParams_eq"]
RULE = (
    "calls of generated functions with 1..5 array-annotated parameters and an optional return "
    "annotation (dim grammar; symbolic axes only over names bound by plain named axes of earlier "
    "parameters or to their left in the same annotation, including chains such as `a a+1 b a+b` where a name is first "
    "bound between two symbolic axes), argument shapes mostly consistent with 0-2 planted inconsistencies; each case runs "
    "under {typeguard, beartype} x {jaxtyped(typechecker=), jaxtyped(tc(fn)), dataclass} x {declared "
    "order, 2 admissible permutations} x {positional, keyword}; plus signatures of three annotated values "
    "(2 parameters + return, or 3 parameters) that all use ONE multi-axis name as `*b` / `#*b` over a pool "
    "of mutually (non-)broadcastable shapes (400 sampled in quick, all in thorough, every parameter order); "
    "non-trivial = at least two parameters "
    "share an axis name; distinct by (signature, shapes)"
)
TRUSTED = [
    "Lean 4 kernel",
    "typeguard 2.x and beartype call isinstance for every annotated parameter / the return value "
    "in the context jaxtyped opened and raise iff one call answers False (validated here, not proved)",
]

CHECKERS = {"typeguard": typeguard.typechecked, "beartype": beartype.beartype}


def admissible(dims, bound):
    """every symbolic axis only mentions names bound by earlier parameters or by plain named axes to its left in the
    same annotation (the walk is left to right within the axes before and after a multi-axis specifier)"""
    seen = set(bound)
    for t in dims.split():
        if not gen_dims.sym_names(t) <= seen:
            return False
        if t.lstrip("#") in gen_dims.NAMES:
            seen.add(t.lstrip("#"))
    return True


def gen_case(rng, thorough):
    n = rng.rng(1, 5)
    alpha = {nm: rng.rng(0, 4) for nm in gen_dims.NAMES}
    valpha = {nm: [rng.rng(0, 3) for _ in range(rng.below(3))] for nm in gen_dims.VNAMES}
    bound = set()
    params = []
    for i in range(n):
        for _ in range(10):
            dims = gen_dims.rand_dims(rng, max_axes=4 if not thorough else 5, holes=())
            if admissible(dims, bound):
                break
        else:
            dims = "a b"
        shape = gen_dims.rand_shape_for(rng, dims, alpha, valpha, max_size=4, mutate=False)
        cat = rng.choice(["Shaped", "Float", "Float", "Int"])
        params.append({"name": f"x{i}", "dims": dims, "shape": shape, "cat": cat,
                       "dtype": "int32" if cat == "Int" else "float32"})
        for t in dims.split():
            if t.lstrip("#") in gen_dims.NAMES:
                bound.add(t.lstrip("#"))
    ret = None
    if rng.chance(3, 4):
        for _ in range(10):
            dims = gen_dims.rand_dims(rng, max_axes=4, holes=())
            if admissible(dims, bound):
                break
        else:
            dims = "a"
        ret = {"dims": dims, "shape": gen_dims.rand_shape_for(rng, dims, alpha, valpha, max_size=4, mutate=False), "cat": "Shaped", "dtype": "float32"}
    # plant 0-2 inconsistencies
    k = rng.choice([0, 0, 1, 1, 2])
    targets = params + ([ret] if ret else [])
    for _ in range(k):
        t = rng.choice(targets)
        if t["shape"] and rng.chance(3, 4):
            i = rng.below(len(t["shape"]))
            t["shape"][i] = rng.choice([t["shape"][i] + 1, 1, 0])
        elif rng.chance(1, 2):
            t["shape"] = t["shape"] + [rng.below(3)]
        else:
            t["dtype"] = "int32" if t["dtype"] == "float32" else "float32"
    return {"params": params, "ret": ret}


def probe_cases(rng, n):
    """calls whose body makes one manual isinstance check that FAILS after part of its annotation matched (a fresh name in
    front of a multi-axis specifier, the mismatch behind it): the failed check constrains nothing, the return annotation is
    free to bind that name"""
    out = []
    for _ in range(n):
        s = rng.rng(1, 4)
        q, r = rng.shuffle(gen_dims.NAMES)[:2]
        params = [{"name": "x0", "dims": f"{r} _", "shape": [rng.rng(1, 3), 2], "cat": "Float", "dtype": "float32"}]
        dims, shape = rng.choice([(f"{q} *w 9", [s, 5, 8]), (f"{q} ... 9", [s, 8]), (f"{q} #*w {r}", [s, 7, 7, 0]), (f"{q} *w {q}", [s, 6, s + 1])])
        if dims.endswith(r):
            shape = shape[:-1] + [params[0]["shape"][0] + 1]
        ret = {"dims": rng.choice([q, f"{q} {r}"]), "shape": None, "cat": "Shaped", "dtype": "float32"}
        ret["shape"] = [s + 1] if ret["dims"] == q else [s + 2, params[0]["shape"][0]]
        out.append({"params": params, "ret": ret, "probe": {"dims": dims, "shape": shape}})
        if len(out) % 4 == 0:
            # the same idea through an unannotated decorated helper whose check PASSES (and binds q, r in its own context)
            out.append({"params": params, "ret": ret, "helper_probe": {"dims": f"{q} 7", "shape": [s, 7]}})
    return out


def admissible_perms(rng, params, k):
    """permutations keeping every parameter with symbolic axes after all symbolic-free ones that
    precede it in the declaration (simple sufficient rule: permute the symbolic-free parameters that
    come before the first symbolic one)"""
    first_sym = next((i for i, p in enumerate(params) if gen_dims.sym_names(p["dims"])), len(params))
    head, tail = params[:first_sym], params[first_sym:]
    out = []
    for _ in range(k):
        out.append(rng.shuffle(head) + tail)
    return out


def to_model_prog(case, order):
    ps = [{"name": p["name"], "ty": arr_type(p["dims"], cat=p["cat"]), "val": arr_val(p["shape"], dtype=p["dtype"])} for p in order]
    ret = None
    if case["ret"]:
        r = case["ret"]
        ret = {"ty": arr_type(r["dims"], cat=r["cat"]), "val": arr_val(r["shape"], dtype=r["dtype"])}
    body = []
    if case.get("helper_probe"):
        # the body calls a decorated helper WITHOUT annotations that makes a manual check: the helper's call has a context of
        # its own, what it binds is gone when it returns
        hp = case["helper_probe"]
        body = [{"op": "call", "kind": "new", "params": [], "ret": None, "bindok": True, "notc": False,
                 "body": [{"op": "check", "l": arr_type(hp["dims"]), "x": arr_val(hp["shape"])}], "exit": "ret"}]
    if case.get("probe"):
        # a manual `isinstance(value, annotation)` in the function body (the documented idiom) before it returns
        body = [{"op": "check", "l": arr_type(case["probe"]["dims"]), "x": arr_val(case["probe"]["shape"])}]
    return [{"op": "call", "kind": "new", "params": ps, "ret": ret, "bindok": True, "notc": False, "body": body, "exit": "ret"}]


def classify(fn, args, kwargs):
    try:
        fn(*args, **kwargs)
        return "accept"
    except AnnotationError:
        return "ann"
    except TypeCheckError:
        return "reject"
    except beartype.roar.BeartypeCallHintViolation:
        return "reject"
    except TypeError:
        return "reject"
    except Exception:  # noqa: BLE001
        # e.g. ZeroDivisionError out of a symbolic axis: new-style turns it into a TypeCheckError,
        # old-style lets it through; the observation point is "returns or raises"
        return "reject"


def ann_of(p):
    return getattr(jaxtyping, p["cat"])[ARRAY_CLASSES["Duck"], p["dims"]]


def val_of(p):
    return impl_prog.Duck(tuple(p["shape"]), p["dtype"])


def run_configs(case, order, rng):
    """yield (config-name, verdict) on the implementation"""
    names = [p["name"] for p in order]
    anns = {p["name"]: ann_of(p) for p in order}
    vals = {p["name"]: val_of(p) for p in order}
    retval = val_of(case["ret"]) if case["ret"] else None
    if case["ret"]:
        anns["return"] = ann_of(case["ret"])
    for ck, tc in CHECKERS.items():
        for style in ("new", "old"):
            scope = {"_ret": retval}
            if case.get("helper_probe"):
                hp = case["helper_probe"]
                scope["_pv"], scope["_pa"] = val_of({**hp, "cat": "Shaped", "dtype": "float32"}), ann_of({**hp, "cat": "Shaped"})
                exec("def helper():\n    return isinstance(_pv, _pa)", scope)
                scope["helper"] = jaxtyped(typechecker=tc)(scope["helper"]) if style == "new" else jaxtyped(tc(scope["helper"]))
                exec(f"def fn({', '.join(names)}):\n    helper()\n    return _ret", scope)
            elif case.get("probe"):
                scope["_pv"], scope["_pa"] = val_of({**case["probe"], "cat": "Shaped", "dtype": "float32"}), ann_of({**case["probe"], "cat": "Shaped"})
                exec(f"def fn({', '.join(names)}):\n    isinstance(_pv, _pa)\n    return _ret", scope)
            else:
                exec(f"def fn({', '.join(names)}):\n    return _ret", scope)
            fn = scope["fn"]
            fn.__annotations__ = dict(anns)
            wrapped = jaxtyped(typechecker=tc)(fn) if style == "new" else jaxtyped(tc(fn))
            yield f"{ck}/{style}/positional", classify(wrapped, [vals[n] for n in names], {})
            yield f"{ck}/{style}/keyword", classify(wrapped, [], dict(vals))
            kpos = rng.below(len(names) + 1)
            yield f"{ck}/{style}/mixed", classify(wrapped, [vals[n] for n in names[:kpos]], {n: vals[n] for n in names[kpos:]})
            if len(names) >= 2 and not case.get("helper_probe") and not case.get("probe"):
                # the same function with a positional-only section in front (`def fn(x0, /, x1, x2)`), the rest by keyword
                k = 1 + rng.below(len(names) - 1)
                scope2 = {"_ret": retval}
                exec(f"def fn({', '.join(names[:k])}, /, {', '.join(names[k:])}):\n    return _ret", scope2)
                fn2 = scope2["fn"]
                fn2.__annotations__ = dict(anns)
                w2 = jaxtyped(typechecker=tc)(fn2) if style == "new" else jaxtyped(tc(fn2))
                yield f"{ck}/{style}/positional-only+keyword", classify(w2, [vals[n] for n in names[:k]], {n: vals[n] for n in names[k:]})
        if case["ret"] is None:
            fields = [(n, anns[n]) for n in names]
            try:
                dc = dataclasses.make_dataclass("DC", fields)
                dc = jaxtyped(typechecker=tc)(dc)
            except Exception as e:  # noqa: BLE001
                yield f"{ck}/dataclass", "build:" + type(e).__name__
                continue
            yield f"{ck}/dataclass", classify(dc, [], dict(vals))


MODEL_MAP = {"returned": "accept", "tceParams": "reject", "tceReturn": "reject", "checkerError": "reject", "ann": "ann", "exc": "reject", "baseexc": "reject"}


def run_case(out, drv, facts, case, rng, nperm, all_perms=False):
    skel, wrap = extract.skel_request(facts)
    if all_perms and len(case["params"]) <= 3:
        import itertools
        orders = [list(p) for p in itertools.permutations(case["params"])]
        if nperm < 2:
            orders = [orders[0]] + rng.sample(orders[1:], min(len(orders) - 1, 2))
    else:
        orders = [case["params"]] + admissible_perms(rng, case["params"], nperm)
    verdicts = {}
    model_v = None
    for oi, order in enumerate(orders):
        w = drv.ask({"cmd": "prog", "prog": to_model_prog(case, order), "skel": skel, "wrap": wrap})
        if "skip" in w:
            out.count("unmodelled")
            return
        mv = MODEL_MAP[[o for o in w["obs"] if o["o"] == "outcome"][-1]["v"]]
        if model_v is None:
            model_v = mv
        verdicts[f"model/order{oi}"] = mv
        for name, v in run_configs(case, order, rng):
            verdicts[f"{name}/order{oi}"] = v
            out.count("verdict_" + v.split(":")[0])
    names = [t for p in case["params"] for t in p["dims"].split() if t.lstrip("#*?") in gen_dims.NAMES + gen_dims.VNAMES]
    nontriv = len(names) != len(set(names))
    out.case(json.dumps(case, sort_keys=True), nontriv, sample={"case": case, "verdict": model_v, "configurations": len(verdicts)})
    distinct = set(verdicts.values())
    if len(distinct) > 1:
        impl_only = {k: v for k, v in verdicts.items() if not k.startswith("model/")}
        key_cfgs = sorted({k.rsplit("/order", 1)[0] for k, v in impl_only.items() if v != model_v})
        rep = {"case": case, "verdicts": verdicts, "required": model_v}
        model_vs = {v for k, v in verdicts.items() if k.startswith("model/")}
        if model_vs == {model_v} and model_v != "ann" and key_cfgs:
            # in every order tried every symbolic axis only meets bound names, so the call has a verdict: AnnotationError
            # (or the other verdict) from the implementation is a wrong answer
            out.violation(
                "verdict:" + ",".join(key_cfgs)[:120],
                f"the call must be {model_v} (one consistent assignment {'exists' if model_v == 'accept' else 'does not exist'}; every "
                f"symbolic axis only uses names bound before it) but configurations {key_cfgs} answered otherwise: "
                f"{ {k: v for k, v in impl_only.items() if v != model_v} }",
                rep,
            )
        elif model_v == "ann" or any(v == "ann" for v in verdicts.values()):
            # walk-order dependent zone (unbound symbolic name met in one order but not another)
            out.model_diff("ann-zone", f"verdicts differ in the AnnotationError zone: {sorted(distinct)}", rep)
        elif key_cfgs:
            out.violation(
                "verdict:" + ",".join(key_cfgs)[:120],
                f"the call must be {model_v} (one consistent assignment {'exists' if model_v == 'accept' else 'does not exist'}) "
                f"but configurations {key_cfgs} answered otherwise: { {k: v for k, v in impl_only.items() if v != model_v} }",
                rep,
            )
        else:
            out.model_diff("model-order", f"the model's verdict depends on the parameter order: {verdicts}", rep)


VAR_SHAPES = [[4], [1, 4], [3, 4], [0, 4], [1], [], [3, 1], [2, 3, 4], [0], [1, 0]]


def variadic_cases(thorough):
    """every signature of three annotated values (2 parameters + return, or 3 parameters) that all use ONE
    multi-axis name as `*b` or `#*b`, over a pool of shapes that broadcast / do not broadcast to each other:
    the cases in which what an earlier value stored decides a later one"""
    import itertools

    pool = VAR_SHAPES if thorough else VAR_SHAPES[:5]
    uses = [(f, sh) for f in ("*b", "#*b") for sh in pool]
    for combo in itertools.product(uses, repeat=3):
        for with_ret in (True, False):
            ps = [{"name": f"x{i}", "dims": f, "shape": list(sh), "cat": "Shaped", "dtype": "float32"} for i, (f, sh) in enumerate(combo[:2] if with_ret else combo)]
            ret = {"dims": combo[2][0], "shape": list(combo[2][1]), "cat": "Shaped", "dtype": "float32"} if with_ret else None
            yield {"params": ps, "ret": ret}


def low_rank_cases():
    """annotations with single axes on BOTH sides of a multi-axis specifier, values with fewer axes than the single axes
    need (the multi-axis name would have to stand for a negative number of axes), in particular when the axes that
    would be matched twice agree with both sides; and values of exactly the minimal rank"""
    specs = [("a *b c", 2), ("a *b c d", 3), ("a b *v c", 3), ("a ... c", 2), ("a *b 3", 2), ("2 *b c d", 3), ("a *#b a", 2), ("#a *b c", 2)]
    for dims, need in specs:
        for rank in range(0, need + 2):
            for size in (3, 2):
                shape = [size] * rank
                p = {"name": "x0", "dims": dims, "shape": shape, "cat": "Shaped", "dtype": "float32"}
                yield {"params": [p], "ret": None}
                yield {"params": [{"name": "x0", "dims": "a", "shape": [size], "cat": "Shaped", "dtype": "float32"}, dict(p, name="x1")], "ret": None}
                yield {"params": [{"name": "x0", "dims": "a", "shape": [size], "cat": "Shaped", "dtype": "float32"}], "ret": dict(p)}


def nonint_symbolic_cases(out, rng):
    """symbolic axes outside the integer fragment of the model (`n/2`, `(n+m)/2`, `n**0.5`, `n*1.5`): an axis must EQUAL
    the value of its expression — with n=5 no axis size equals `n/2`, so no consistent assignment exists; the statement
    is the oracle here"""
    table = [
        ("n/2", {"n": 4}, 2, "accept"), ("n/2", {"n": 5}, 2, "reject"), ("n/2", {"n": 5}, 3, "reject"),
        ("(n+m)/2", {"n": 3, "m": 5}, 4, "accept"), ("(n+m)/2", {"n": 2, "m": 5}, 3, "reject"),
        ("n**0.5", {"n": 9}, 3, "accept"), ("n**0.5", {"n": 8}, 2, "reject"), ("n*1.5", {"n": 4}, 6, "accept"), ("n*1.5", {"n": 3}, 4, "reject"),
        ("n/m", {"n": 6, "m": 3}, 2, "accept"), ("n/m", {"n": 7, "m": 3}, 2, "reject"),
    ]
    for expr, env, size, want in table:
        params = [{"name": f"x{i}", "dims": nm, "shape": [v], "cat": "Shaped", "dtype": "float32"} for i, (nm, v) in enumerate(env.items())]
        sym = {"dims": expr, "shape": [size], "cat": "Shaped", "dtype": "float32"}
        for as_ret in (False, True):
            case = {"params": params + ([] if as_ret else [dict(sym, name=f"x{len(params)}")]), "ret": dict(sym) if as_ret else None}
            verdicts = dict(run_configs(case, case["params"], rng))
            out.case(("nonint-symbolic", expr, json.dumps(env), size, as_ret), True, sample={"expr": expr, "bound": env, "size": size, "as_return": as_ret, "verdicts": verdicts})
            bad = {k: v for k, v in verdicts.items() if v != want}
            if bad:
                out.violation("verdict:nonint-symbolic:" + want, f"with {env} an axis `{expr}` of size {size} ({'return value' if as_ret else 'last parameter'}): the call must be {want} "
                              f"(the expression is worth {eval(expr, dict(env))}), but {bad}", {"nonint": expr, "env": env, "size": size})


def overlapping_calls(out):
    """two threads inside checked calls at overlapping times, same axis name, different sizes: each call has its own
    consistent assignment, so each must be accepted — and the inconsistent one rejected — whatever the other thread does.
    Sequenced with events (no timing): A enters its body, B makes a whole call, A returns."""
    import threading

    for ck, tc in CHECKERS.items():
        for style in ("new", "old"):
            results = {}
            in_a, go_a, in_b, go_b = threading.Event(), threading.Event(), threading.Event(), threading.Event()

            def mk(fn):
                fn.__annotations__ = {"x": jaxtyping.Float[ARRAY_CLASSES["Duck"], "n"], "return": jaxtyping.Float[ARRAY_CLASSES["Duck"], "n"]}
                return jaxtyped(typechecker=tc)(fn) if style == "new" else jaxtyped(tc(fn))

            bad_ret = val_of({"shape": [5], "cat": "Float", "dtype": "float32"})

            def fa0(x):
                in_a.set()
                go_a.wait(30)
                return x

            def fb0(x):
                in_b.set()
                go_b.wait(30)
                return x

            def fbad0(x):
                return bad_ret

            fa, fb, fbad = mk(fa0), mk(fb0), mk(fbad0)
            v = lambda n: val_of({"shape": [n], "cat": "Float", "dtype": "float32"})  # noqa: E731
            ta = threading.Thread(target=lambda: results.__setitem__("A", classify(fa, [v(3)], {})))
            tb = threading.Thread(target=lambda: results.__setitem__("B", classify(fb, [v(4)], {})))
            # A enters its body, B enters its body, A returns (its return value is checked while B is still inside), B returns
            ta.start()
            in_a.wait(30)
            tb.start()
            in_b.wait(30)
            go_a.set()
            ta.join(30)
            results["B-bad"] = classify(fbad, [v(4)], {})
            go_b.set()
            tb.join(30)
            want = {"A": "accept", "B": "accept", "B-bad": "reject"}
            out.case(("overlap", ck, style), True, sample={"checker": ck, "style": style, "verdicts": results})
            if results != want:
                out.violation(f"overlap:{ck}/{style}", f"two threads in overlapping checked calls ({ck}, {style}-style; A: n=3 -> n=3, B: n=4 -> n=4, B-bad: n=4 -> n=5) "
                              f"give {results}, must give {want}", {"overlap": [ck, style]})


def after_aborted_checks(out):
    """the verdict of a call depends on the signature and the shapes, not on what other checks did before in the thread:
    the same calls before and after checks that were ABORTED by an exception (a PyTree whose leaf type raises while the
    tree is being flattened, a custom pytree node whose flatten raises, an array whose `.shape` raises), all caught"""
    import jax.tree_util as jtu

    Duck = ARRAY_CLASSES["Duck"]

    class Exploding:
        pass

    def boom(_):
        raise RuntimeError("flatten")

    try:
        jtu.register_pytree_node(Exploding, boom, lambda aux, ch: Exploding())
    except ValueError:
        pass

    class BadShape:
        dtype = "float32"

        @property
        def shape(self):
            raise RuntimeError("shape")

    def aborted():
        done = []
        for what, thunk in (
            ("leaf type raises", lambda: isinstance([1.0, 2.0], jaxtyping.PyTree[jaxtyping.Float])),
            ("flatten raises", lambda: isinstance([Exploding()], jaxtyping.PyTree[int])),
            ("shape raises", lambda: isinstance(BadShape(), jaxtyping.Float[BadShape, "a b"])),
            ("leaf type raises, structured", lambda: isinstance({"k": 1.0}, jaxtyping.PyTree[jaxtyping.Float, "T"])),
        ):
            try:
                thunk()
                done.append(what + ": returned")
            except BaseException as e:  # noqa: BLE001
                done.append(what + ": " + type(e).__name__)
        return done

    for ck, tc in CHECKERS.items():
        for style in ("new", "old"):
            def mk(fn, anns):
                fn.__annotations__ = anns
                return jaxtyped(typechecker=tc)(fn) if style == "new" else jaxtyped(tc(fn))

            def f0(x, y):
                return None

            def g0(x, y):
                return None

            f = mk(f0, {"x": jaxtyping.Float[Duck, "a b"], "y": jaxtyping.Float[Duck, "b"]})
            g = mk(g0, {"x": jaxtyping.Float[Duck, "*batch c"], "y": jaxtyping.Int[Duck, "*batch"]})
            v = lambda sh, dt="float32": val_of({"shape": list(sh), "cat": "Float" if dt == "float32" else "Int", "dtype": dt})  # noqa: E731
            calls = [(f, [v((2, 3)), v((3,))], "accept"), (f, [v((2, 3)), v((4,))], "reject"), (f, [v((2,)), v((2,))], "reject"),
                     (g, [v((2, 3, 4)), v((2, 3), "int32")], "accept"), (g, [v((2, 3, 4)), v((2, 4), "int32")], "reject"),
                     (g, [v((2, 3, 4)), v((2, 3))], "reject")]
            before = [classify(fn, a, {}) for fn, a, _ in calls]
            how = aborted()
            after = [classify(fn, a, {}) for fn, a, _ in calls]
            want = [w for _, _, w in calls]
            out.case(("after-aborted", ck, style), True, sample={"checker": ck, "style": style, "aborted": how, "before": before, "after": after})
            if before != want or after != want:
                out.violation(f"after-aborted:{ck}/{style}", f"six calls of two array functions ({ck}, {style}-style) must give {want}; before the aborted checks they give {before}, "
                              f"after them ({how}) they give {after}", {"after_aborted": [ck, style]})
                return


def run(tier, seed, out, drv, facts):
    rng = Rng(seed, "C02")
    thorough = tier == "thorough"
    n = 6000 if thorough else 300
    for _ in range(n):
        run_case(out, drv, facts, gen_case(rng, thorough), rng, 2)
    vc = list(variadic_cases(thorough))
    if not thorough:
        vc = rng.sample(vc, 400)
    for case in vc:
        run_case(out, drv, facts, case, rng, 1 if not thorough else 2, all_perms=True)
    out.count("variadic_signatures", len(vc))
    for case in low_rank_cases():
        for p_ in case["params"] + ([case["ret"]] if case["ret"] else []):
            p_.pop("name", None) if p_ is case["ret"] else None
        run_case(out, drv, facts, case, rng, 1)
    nonint_symbolic_cases(out, rng)
    for case in probe_cases(rng, 400 if thorough else 40):
        run_case(out, drv, facts, case, rng, 0)
    overlapping_calls(out)
    after_aborted_checks(out)


def replay(rep, out, drv, facts):
    if "after_aborted" in rep:
        after_aborted_checks(out)
        return
    if "overlap" in rep:
        overlapping_calls(out)
        return
    if "nonint" in rep:
        nonint_symbolic_cases(out, Rng(0, "replay"))
        return
    run_case(out, drv, facts, rep["case"], Rng(0, "replay"), 2)
