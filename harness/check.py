"""bin/check <Cxx> <quick|thorough> [--replay file]"""
from __future__ import annotations

import importlib
import json
import os
import sys
import traceback

sys.path.insert(0, os.path.dirname(os.path.abspath(__file__)))

import common  # noqa: E402
from common import Driver, InfraError, Outcome, check_proofs, seed_from_env  # noqa: E402


def main(argv):
    if len(argv) < 3:
        print("usage: check <Cxx> <quick|thorough> [--replay file]")
        return 2
    pid, tier = argv[1], argv[2]
    tier = os.environ.get("VERIF_TIER", tier) if tier not in ("quick", "thorough") else tier
    replay = None
    if "--replay" in argv:
        replay = argv[argv.index("--replay") + 1]
    seed = seed_from_env()
    try:
        import extract

        facts = extract.run()
        mod = importlib.import_module(pid.lower())
        out = Outcome(pid, tier, seed, level=getattr(mod, "LEVEL", "proof"))
        if hasattr(mod, "pre_build"):
            mod.pre_build(facts)
        out.proof = check_proofs(pid, mod.THEOREMS, tier)
        drv = Driver()
        try:
            if replay:
                rep = json.load(open(replay))
                mod.replay(rep, out, drv, facts)
            else:
                mod.run(tier, seed, out, drv, facts)
        finally:
            drv.close()
        checker = f"cd {common.LEAN} && lake build JaxVerif.Properties.{pid} && lake env lean JaxVerif/Audit/{pid}.lean"
        if tier == "thorough":
            checker += f" && lake env leanchecker JaxVerif.Properties.{pid}"
        extra = dict(getattr(mod, "extra_coverage", lambda: {})())
        # how many model answers were compared with the implementation's behaviour (driver requests of this run;
        # a `batch` request counts once) and which theorems stood behind the claim
        extra.setdefault("traces_validated_against_impl", drv.n)
        extra.setdefault("theorems_checked", list(mod.THEOREMS))
        extra.setdefault("generated_facts_from", common.REPO)
        return out.finish(mod.RULE, mod.TRUSTED, checker, extra)
    except InfraError as e:
        print(f"INFRA-ERROR {pid}: {e}", file=sys.stderr)
        return 2
    except Exception:
        traceback.print_exc()
        print(f"INFRA-ERROR {pid}: harness exception", file=sys.stderr)
        return 2


if __name__ == "__main__":
    sys.exit(main(sys.argv))
