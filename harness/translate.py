"""(T1, translation) The branch structure of `_check_dims` and of the multi-axis part of `_check_shape` is
translated from the current Python source into the small language of lean/JaxVerif/Model/SourceDsl.lean
(`Generated/CheckCode.lean`). Properties/C01.lean then proves, on every run, that the translated code is
the hand-written model (`checkDim`, `vstep`). Anything the translator does not recognise becomes `.unknown`,
whose interpretation is a crash, so the proof fails rather than silently passing."""
from __future__ import annotations

import ast
import os

from common import GEN, REPO, write_if_changed


def _src(node):
    try:
        return ast.unparse(node)
    except Exception:  # noqa: BLE001
        return "?"


def _strip(stmts):
    """drop asserts and docstrings"""
    return [s for s in stmts if not isinstance(s, ast.Assert) and not (isinstance(s, ast.Expr) and isinstance(s.value, ast.Constant))]


def _is_message_return(st):
    """`return <non-empty message>`: an f-string / string / name that is not the empty string"""
    if not isinstance(st, ast.Return) or st.value is None:
        return False
    v = st.value
    if isinstance(v, ast.Constant):
        return isinstance(v.value, str) and v.value != ""
    return isinstance(v, (ast.JoinedStr, ast.Name, ast.BinOp, ast.Call))


def _is_accept_return(st):
    return isinstance(st, ast.Return) and isinstance(st.value, ast.Constant) and st.value.value == ""


# ----------------------------------------------------------------------------- _check_dims

GUARDS = {
    "cls_dim is _anonymous_dim": "isAnon",
    "cls_dim.broadcastable and obj_size == 1": "bcastOne",
    "obj_size == 1 and cls_dim.broadcastable": "bcastOne",
    "type(cls_dim) is _FixedDim": "isFixed",
    "isinstance(cls_dim, _FixedDim)": "isFixed",
    "type(cls_dim) is _SymbolicDim": "isSym",
    "isinstance(cls_dim, _SymbolicDim)": "isSym",
    "type(cls_dim) is _NamedDim": "isNamed",
    "isinstance(cls_dim, _NamedDim)": "isNamed",
}


def _action(stmts):
    stmts = _strip(stmts)
    if len(stmts) == 1 and isinstance(stmts[0], ast.Pass):
        return "accept"
    # fixed: if cls_dim.size != obj_size: return msg
    if len(stmts) == 1 and isinstance(stmts[0], ast.If) and _src(stmts[0].test) in ("cls_dim.size != obj_size", "obj_size != cls_dim.size") \
            and not stmts[0].orelse and len(stmts[0].body) == 1 and _is_message_return(stmts[0].body[0]):
        return "cmpFixed"
    # symbolic: try: elem = eval(f"f'{cls_dim.elem}'", arg_memo.copy()); eval_size = eval(elem, single_memo.copy())
    #           except NameError: raise AnnotationError ; if eval_size != obj_size: return msg
    if len(stmts) == 2 and isinstance(stmts[0], ast.Try) and isinstance(stmts[1], ast.If):
        t, i = stmts
        body = _strip(t.body)
        ok = (len(body) == 2 and all(isinstance(b, ast.Assign) for b in body)
              and _src(body[0].targets[0]) == "elem" and _src(body[0].value).replace('"', "'") in ("eval(f'f'{cls_dim.elem}'', arg_memo.copy())", "eval(f\"f'{cls_dim.elem}'\", arg_memo.copy())".replace('"', "'"))
              and _src(body[1].targets[0]) == "eval_size" and _src(body[1].value) == "eval(elem, single_memo.copy())"
              and len(t.handlers) == 1 and _src(t.handlers[0].type) == "NameError"
              and any(isinstance(r, ast.Raise) and "AnnotationError" in _src(r.exc) for r in t.handlers[0].body)
              and not t.orelse and not t.finalbody
              and _src(i.test) in ("eval_size != obj_size", "obj_size != eval_size") and not i.orelse and len(i.body) == 1 and _is_message_return(i.body[0]))
        if ok:
            return "evalCmp"
    # named: if cls_dim.treepath: name = get_treepath_memo() + cls_dim.name else: name = cls_dim.name
    #        try: cls_size = single_memo[name] except KeyError: single_memo[name] = obj_size else: if cls_size != obj_size: return msg
    if len(stmts) == 2 and isinstance(stmts[0], ast.If) and isinstance(stmts[1], ast.Try):
        i, t = stmts
        ok = (_src(i.test) == "cls_dim.treepath" and len(i.body) == 1 and len(i.orelse) == 1
              and _src(i.body[0]) == "name = get_treepath_memo() + cls_dim.name" and _src(i.orelse[0]) == "name = cls_dim.name"
              and len(t.body) == 1 and _src(t.body[0]) == "cls_size = single_memo[name]"
              and len(t.handlers) == 1 and _src(t.handlers[0].type) == "KeyError" and len(t.handlers[0].body) == 1
              and _src(t.handlers[0].body[0]) == "single_memo[name] = obj_size"
              and len(t.orelse) == 1 and isinstance(t.orelse[0], ast.If) and _src(t.orelse[0].test) in ("cls_size != obj_size", "obj_size != cls_size")
              and not t.orelse[0].orelse and len(t.orelse[0].body) == 1 and _is_message_return(t.orelse[0].body[0]) and not t.finalbody)
        if ok:
            return "bindOrCmp"
    return "unknown"


def translate_check_dims(tree):
    fn = next((n for n in tree.body if isinstance(n, ast.FunctionDef) and n.name == "_check_dims"), None)
    if fn is None:
        return [("unknown", "unknown")], "no _check_dims"
    loops = [s for s in _strip(fn.body) if isinstance(s, ast.For)]
    rest = [s for s in _strip(fn.body) if not isinstance(s, ast.For)]
    if len(loops) != 1 or _src(loops[0].target) != "(cls_dim, obj_size)" or _src(loops[0].iter) != "zip(cls_dims, obj_shape)" \
            or not (len(rest) == 1 and _is_accept_return(rest[0])) or loops[0].orelse:
        return [("unknown", "unknown")], "loop header / trailing return not recognised"
    body = _strip(loops[0].body)
    if len(body) != 1 or not isinstance(body[0], ast.If):
        return [("unknown", "unknown")], "loop body is not one if-chain"
    chain = []
    node = body[0]
    while True:
        chain.append((GUARDS.get(_src(node.test), "unknown"), _action(node.body)))
        if len(node.orelse) == 1 and isinstance(node.orelse[0], ast.If):
            node = node.orelse[0]
        else:
            if node.orelse:
                chain.append(("otherwise", _action(node.orelse)))
            break
    return chain, ""


# ----------------------------------------------------------------------------- multi-axis part of _check_shape

CONDS = {
    "prev_broadcastable": "prevB",
    "broadcastable": "curB",
    "not broadcastable and broadcast_shape != new_shape": "notCurAndBsNeNew",
    "broadcast_shape != new_shape": "bsNeNew",
    "broadcast_shape != prev_shape": "bsNePrev",
    "not prev_broadcastable and broadcast_shape != prev_shape": "notPrevAndBsNePrev",
    "new_shape != prev_shape": "newNePrev",
    "not (broadcastable or prev_broadcastable)": "neitherB",
    "not (prev_broadcastable or broadcastable)": "neitherB",
    "not broadcastable and (not prev_broadcastable)": "neitherB",
}


def _vstmts(stmts):
    out = []
    for st in _strip(stmts):
        if isinstance(st, ast.Assign) and _src(st) in ("new_shape = obj.shape[i:j]",):
            continue
        if isinstance(st, ast.If):
            c = CONDS.get(_src(st.test), "unknown")
            if not st.orelse and len(st.body) == 1 and _is_message_return(st.body[0]):
                out.append(f".failIf .{c}")
            else:
                out.append(f".ite .{c} [{', '.join(_vstmts(st.body))}] [{', '.join(_vstmts(st.orelse))}]")
        elif isinstance(st, ast.Try):
            body = _strip(st.body)
            ok = (len(body) == 1 and isinstance(body[0], ast.Assign) and _src(body[0].targets[0]) == "broadcast_shape"
                  and _src(body[0].value) in ("np.broadcast_shapes(new_shape, prev_shape)", "np.broadcast_shapes(prev_shape, new_shape)")
                  and len(st.handlers) == 1 and _src(st.handlers[0].type) == "ValueError" and len(st.handlers[0].body) == 1
                  and _is_message_return(st.handlers[0].body[0]) and not st.orelse and not st.finalbody)
            out.append(".bcast" if ok else ".unknown")
        elif isinstance(st, ast.Assign) and _src(st) == "variadic_memo[name] = (broadcastable, broadcast_shape)":
            out.append(".storeCurBs")
        elif _is_accept_return(st):
            out.append(".accept")
        else:
            out.append(".unknown")
    return out


def translate_variadic(tree):
    cls = next((n for n in tree.body if isinstance(n, ast.ClassDef) and n.name == "_MetaAbstractArray"), None)
    fn = next((n for n in (cls.body if cls else []) if isinstance(n, ast.FunctionDef) and n.name == "_check_shape"), None)
    if fn is None:
        return [".unknown"], False, "no _check_shape"
    tries = [n for n in ast.walk(fn) if isinstance(n, ast.Try) and len(n.body) == 1 and _src(n.body[0]).replace("(", "").replace(")", "") == "prev_broadcastable, prev_shape = variadic_memo[name]"]
    if len(tries) != 1:
        return [".unknown"], False, "the lookup of the bound multi-axis name was not found"
    t = tries[0]
    first = (len(t.handlers) == 1 and _src(t.handlers[0].type) == "KeyError"
             and [_src(s) for s in _strip(t.handlers[0].body)] == ["variadic_memo[name] = (broadcastable, obj.shape[i:j])", "return ''"])
    code = _vstmts(t.orelse)
    # statements following the try inside the same block (none today) would run after it; the enclosing
    # block must end with the try or with `return ""`
    return code, bool(first), ""


# ----------------------------------------------------------------------------- __instancecheck_str__


def translate_stages(tree):
    cls = next((n for n in tree.body if isinstance(n, ast.ClassDef) and n.name == "_MetaAbstractArray"), None)
    fn = next((n for n in (cls.body if cls else []) if isinstance(n, ast.FunctionDef) and n.name == "__instancecheck_str__"), None)
    if fn is None:
        return ["unknown"]
    out = []
    body = _strip(fn.body)
    i = 0
    while i < len(body):
        st = body[i]
        src = _src(st)
        if isinstance(st, ast.If) and _src(st.test) == "cls._skip_instancecheck" and len(st.body) == 1 and _is_accept_return(st.body[0]) and not st.orelse:
            out.append("transparent")
        elif isinstance(st, ast.If) and _src(st.test) == "cls.array_type is Any":
            ok = (len(st.body) == 1 and isinstance(st.body[0], ast.If) and _src(st.body[0].test) in ("not (hasattr(obj, 'shape') and hasattr(obj, 'dtype'))",)
                  and len(st.body[0].body) == 1 and _is_message_return(st.body[0].body[0]) and not st.body[0].orelse
                  and len(st.orelse) == 1 and isinstance(st.orelse[0], ast.If) and _src(st.orelse[0].test) == "not isinstance(obj, cls.array_type)"
                  and len(st.orelse[0].body) == 1 and _is_message_return(st.orelse[0].body[0]) and not st.orelse[0].orelse)
            out.append("typeTest" if ok else "unknown")
        elif isinstance(st, ast.If) and _src(st.test) == "get_treeflatten_memo()" and len(st.body) == 1 and _is_accept_return(st.body[0]) and not st.orelse:
            out.append("flattenAccept")
        elif isinstance(st, ast.If) and "obj.dtype" in _src(st.test) and all(
                isinstance(n, (ast.Assign, ast.If, ast.Expr)) or True for n in st.body) and any(
                isinstance(n, ast.Assign) and _src(n.targets[0]) in ("dtype", "(*_, dtype)") for n in ast.walk(st)) and not any(isinstance(n, ast.Return) for n in ast.walk(st)):
            out.append("dtypeName")
        elif isinstance(st, ast.If) and _src(st.test) == "cls.dtypes is not _any_dtype":
            rets = [n for n in ast.walk(st) if isinstance(n, ast.Return)]
            guarded = [n for n in ast.walk(st) if isinstance(n, ast.If) and _src(n.test) == "not in_dtypes"]
            ok = bool(rets) and all(_is_message_return(r) for r in rets) and len(guarded) == 1 and not st.orelse
            out.append("dtypeTest" if ok else "unknown")
        elif isinstance(st, ast.Assign) and _src(st.value) == "get_shape_memo()":
            # followed by the four .copy() backups
            baks = body[i + 1:i + 5]
            if len(baks) == 4 and all(isinstance(b, ast.Assign) and _src(b.value).endswith("_memo.copy()") for b in baks):
                out.append("snapshot")
                i += 4
            else:
                out.append("unknown")
        elif isinstance(st, ast.Try):
            ok = (len(st.body) == 1 and _src(st.body[0]) == "check = cls._check_shape(obj, single_memo, variadic_memo, arg_memo)"
                  and len(st.handlers) == 1 and not st.orelse and not st.finalbody
                  and any(isinstance(n, ast.Raise) and n.exc is None for n in st.handlers[0].body)
                  and any(isinstance(n, ast.Expr) and _src(n.value).startswith("set_shape_memo(") for n in st.handlers[0].body))
            out.append("walk" if ok else "unknown")
        elif isinstance(st, ast.If) and _src(st.test) == "check == ''":
            ok = (len(st.body) == 1 and _src(st.body[0]) == "return check" and len(st.orelse) == 2
                  and _src(st.orelse[0]).startswith("set_shape_memo(") and _src(st.orelse[1]) == "return check")
            out.append("finish" if ok else "unknown")
        else:
            out.append("unknown")
        i += 1
    return out


def run():
    with open(os.path.join(REPO, "jaxtyping", "_array_types.py")) as fh:
        tree = ast.parse(fh.read())
    chain, note1 = translate_check_dims(tree)
    code, first, note2 = translate_variadic(tree)
    stages = translate_stages(tree)
    txt = f"""/- GENERATED by harness/translate.py from {REPO}/jaxtyping/_array_types.py on every run. Do not edit. -/
import JaxVerif.Model.SourceDsl

namespace JV.Generated

/-- the `if / elif / else` chain of `_check_dims`, in source order {('(' + note1 + ')') if note1 else ''} -/
def checkDimsChain : List (DGuard × DAction) :=
  [{', '.join(f'(.{g}, .{a})' for g, a in chain)}]

/-- `_check_shape`, multi-axis name already bound: the statements after `new_shape = obj.shape[i:j]` {('(' + note2 + ')') if note2 else ''} -/
def variadicCode : List VStmt :=
  [{', '.join(code)}]

/-- `_check_shape`, name not bound yet: stores `(broadcastable, obj.shape[i:j])` and accepts -/
def variadicFirstStoresCurNew : Bool := {'true' if first else 'false'}

/-- the top-level statements of `__instancecheck_str__`, in source order -/
def instancecheckStages : List IStage :=
  [{', '.join('.' + x for x in stages)}]

end JV.Generated
"""
    write_if_changed(os.path.join(GEN, "CheckCode.lean"), txt)
    return {"check_dims_chain": chain, "variadic_code": code, "variadic_first": first, "stages": stages, "notes": [n for n in (note1, note2) if n]}


if __name__ == "__main__":
    import json

    print(json.dumps(run(), indent=1))
