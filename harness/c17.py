"""C17 — verdicts depend on type, shape and dtype only, so tracing equals eager."""
import json
import os
import sys
import typing

os.environ.setdefault("JAX_PLATFORMS", "cpu")
os.environ.setdefault("CUDA_VISIBLE_DEVICES", "")

import jax
import jax.numpy as jnp
import numpy as np
import typeguard

import c02
import extract
import gen_dims
import impl  # noqa: F401
import jaxtyping
from common import Rng
from jaxtyping import AnnotationError, PyTree, TypeCheckError, jaxtyped

LEVEL = "proof"
THEOREMS = ["C17_payload", "C17_call", "C17_trace", "C17_pytree", "C17_params", "C17_attrs"]
RULE = (
    "functions generated as in C02 (1-5 jax.Array parameters + optional return annotation over the dim "
    "grammar, shapes mostly consistent with 0-2 planted inconsistencies, some parameters PyTrees of arrays); "
    "each is called eagerly (with zeros, random and NaN element values) and under jit, eval_shape, vmap "
    "(random in_axes incl. None, batch axis inserted at a random position; eager counterpart = the per-example "
    "shapes), grad (w.r.t. a float parameter), and the compositions jit(vmap), vmap(jit), jit(grad), "
    "eval_shape(vmap), vmap(vmap); raise / no-raise must agree with the eager call and with the model, and no "
    "Concretization / TracerBoolConversion / TracerArrayConversion error may occur; a spy array records every "
    "attribute and special method the check touches; directed cases: PRNG-key parameters (new and old style) next to "
    "numeric ones, the same array object at several '?' leaf positions, 0-d arrays, each eager / jit / eval_shape / "
    "vmap / jit(vmap) and again in reverse order; three arrays of one multi-axis name handed over through **kwargs / inside a dict in every "
    "written order (tracing sorts the keys): one verdict for all orders, eager and traced; non-trivial = >=2 parameters share an axis name or a "
    "PyTree parameter is present; distinct by (signature, shapes)"
)
TRUSTED = [
    "Lean 4 kernel",
    "harness/extract.py: collection of the uses of the checked object on the check path",
    "JAX: tracers report the shape / dtype of the values they stand for; vmap removes the mapped axis",
]

CONCRETIZATION = tuple(
    getattr(jax.errors, n) for n in
    ("ConcretizationTypeError", "TracerBoolConversionError", "TracerArrayConversionError", "TracerIntegerConversionError", "UnexpectedTracerError")
    if hasattr(jax.errors, n)
)
NP_DT = {"float32": np.float32, "int32": np.int32}


def classify(thunk):
    try:
        thunk()
        return "accept"
    except CONCRETIZATION as e:
        return "CONCRETIZE:" + type(e).__name__
    except AnnotationError:
        return "ann"
    except TypeCheckError:
        return "reject"
    except typeguard.TypeCheckError if hasattr(typeguard, "TypeCheckError") else TypeError:
        return "reject"
    except TypeError:
        return "reject"
    except Exception as e:  # noqa: BLE001
        return "OTHER:" + type(e).__name__ + ":" + str(e)[:120]


def arr(shape, dtype, fill, rng):
    a = np.zeros(tuple(shape), NP_DT[dtype])
    if fill == "random" and a.size:
        a = (np.arange(a.size).reshape(a.shape) * 7 % 11 - 3).astype(NP_DT[dtype])
    elif fill == "nan" and dtype == "float32":
        a = np.full(tuple(shape), np.nan, np.float32)
    return jnp.asarray(a)


def build_fn(case, tree_params):
    """the decorated function of a case; returns (wrapped, names)"""
    names = [p["name"] for p in case["params"]]
    anns = {}
    for p in case["params"]:
        a = getattr(jaxtyping, p["cat"])[jax.Array, p["dims"]]
        anns[p["name"]] = PyTree[a] if p["name"] in tree_params else a
    ret = case["ret"]
    scope = {"jnp": jnp, "_shape": tuple(ret["shape"]) if ret else (), "_dt": NP_DT[ret["dtype"]] if ret else np.float32}
    exec(f"def fn({', '.join(names)}):\n    return jnp.zeros(_shape, _dt)", scope)
    fn = scope["fn"]
    if ret:
        anns["return"] = getattr(jaxtyping, ret["cat"])[jax.Array, ret["dims"]]
    fn.__annotations__ = anns
    return jaxtyped(typechecker=typeguard.typechecked)(fn), names


def values(case, tree_params, fill, rng):
    vals = []
    for p in case["params"]:
        v = arr(p["shape"], p["dtype"], fill, rng)
        vals.append({"k": [v, (v,)]} if p["name"] in tree_params else v)
    return vals


def batched(vals, in_axes, B):
    """insert a batch axis of size B at in_axes[i] into every leaf of argument i"""
    out = []
    for v, ax in zip(vals, in_axes):
        if ax is None:
            out.append(v)
        else:
            out.append(jax.tree_util.tree_map(lambda x, ax=ax: jnp.broadcast_to(jnp.expand_dims(x, ax), x.shape[:ax] + (B,) + x.shape[ax:]), v))
    return out


def run_case(out, drv, facts, case, rng, tree_ok=True):
    skel, wrap = extract.skel_request(facts)
    tree_params = {p["name"] for p in case["params"] if tree_ok and rng.chance(1, 6)}
    try:
        wrapped, names = build_fn(case, tree_params)
    except ValueError:
        out.count("unbuildable")
        return
    vals = values(case, tree_params, "zeros", rng)
    verdicts = {}
    verdicts["eager"] = classify(lambda: wrapped(*vals))
    # the model's verdict (arrays only: PyTree parameters hold two equal leaves, same satisfiability)
    if not tree_params:
        w = drv.ask({"cmd": "prog", "prog": c02.to_model_prog(case, case["params"]), "skel": skel, "wrap": wrap})
        if "skip" not in w:
            verdicts["model"] = c02.MODEL_MAP[[o for o in w["obs"] if o["o"] == "outcome"][-1]["v"]]
    # value independence, eagerly
    for fill in ("random", "nan"):
        vv = values(case, tree_params, fill, rng)
        verdicts["eager-" + fill] = classify(lambda vv=vv: wrapped(*vv))
    # jit / eval_shape (fresh jit objects: a cached trace would skip the check)
    verdicts["jit"] = classify(lambda: jax.jit(wrapped)(*vals))
    verdicts["eval_shape"] = classify(lambda: jax.eval_shape(wrapped, *vals))
    verdicts["jit(jit)"] = classify(lambda: jax.jit(jax.jit(wrapped))(*vals))
    # vmap: per-example shapes are the original ones
    B = rng.rng(1, 3)
    in_axes = []
    for p in case["params"]:
        if p["name"] in tree_params:
            in_axes.append(rng.choice([None, 0]))
        else:
            in_axes.append(rng.choice([None] + list(range(len(p["shape"]) + 1))))
    if all(a is None for a in in_axes):
        in_axes[0] = 0
    bvals = batched(vals, in_axes, B)
    ia = tuple(in_axes)
    verdicts["vmap"] = classify(lambda: jax.vmap(wrapped, in_axes=ia)(*bvals))
    verdicts["jit(vmap)"] = classify(lambda: jax.jit(jax.vmap(wrapped, in_axes=ia))(*bvals))
    verdicts["vmap(jit)"] = classify(lambda: jax.vmap(jax.jit(wrapped), in_axes=ia)(*bvals))
    verdicts["eval_shape(vmap)"] = classify(lambda: jax.eval_shape(jax.vmap(wrapped, in_axes=ia), *bvals))
    # vmap(vmap): a second batch axis in front of every batched argument
    ia2 = tuple(None if a is None else 0 for a in in_axes)
    bb = batched(bvals, ia2, 2)
    verdicts["vmap(vmap)"] = classify(lambda: jax.vmap(jax.vmap(wrapped, in_axes=ia), in_axes=ia2)(*bb))
    # grad with respect to a float array parameter
    fl = [i for i, p in enumerate(case["params"]) if p["dtype"] == "float32" and p["name"] not in tree_params]
    if fl:
        k = rng.choice(fl)

        def h(*xs):
            wrapped(*xs)
            return jnp.sum(xs[k])

        verdicts["grad"] = classify(lambda: jax.grad(h, argnums=k)(*vals))
        verdicts["jit(grad)"] = classify(lambda: jax.jit(jax.grad(h, argnums=k))(*vals))
        verdicts["value_and_grad"] = classify(lambda: jax.value_and_grad(h, argnums=k)(*vals))
    names_ = [t for p in case["params"] for t in p["dims"].split() if t.lstrip("#*?") in gen_dims.NAMES + gen_dims.VNAMES]
    nontriv = len(names_) != len(set(names_)) or bool(tree_params)
    out.case(json.dumps(case, sort_keys=True), nontriv, sample={"case": case, "tree_params": sorted(tree_params), "in_axes": [a for a in in_axes], "verdicts": verdicts})
    for k_, v in verdicts.items():
        out.count("verdict_" + v.split(":")[0])
    rep = {"case": case, "tree_params": sorted(tree_params), "verdicts": verdicts}
    eager = verdicts["eager"]
    for k_, v in verdicts.items():
        if v.startswith("CONCRETIZE"):
            out.violation(f"concretize:{k_}", f"checking under {k_} forced a tracer to a concrete value: {v}", rep)
        elif k_ == "model":
            if v != eager and "ann" not in (v, eager):
                out.model_diff("eager-vs-model", f"eager call is {eager}, the model says {v}", rep)
        elif v != eager:
            if v.startswith("OTHER") or eager.startswith("OTHER"):
                out.model_diff(f"other:{k_}", f"{k_} ended with {v}, the eager call with {eager}", rep)
            else:
                out.violation(f"trace-vs-eager:{k_}", f"the eager call is {eager} but under {k_} the same function on the same shapes / dtypes is {v}", rep)


class Spy:
    """array-like object recording everything asked of it"""

    def __init__(self, shape, dtype, log):
        object.__setattr__(self, "_log", log)
        object.__setattr__(self, "_shape", tuple(shape))
        object.__setattr__(self, "_dtype", dtype)

    def __getattribute__(self, name):
        log = object.__getattribute__(self, "_log")
        if name == "shape":
            log.append("shape")
            return object.__getattribute__(self, "_shape")
        if name == "dtype":
            log.append("dtype")
            return object.__getattribute__(self, "_dtype")
        if name in ("__class__", "__dict__"):
            return object.__getattribute__(self, name)
        log.append(name)
        raise AttributeError(name)


def _special(name):
    def f(self, *a, **k):
        object.__getattribute__(self, "_log").append(name)
        raise TypeError(f"the check called {name} on the array")
    return f


for _n in ("__bool__", "__len__", "__iter__", "__eq__", "__ne__", "__lt__", "__gt__", "__getitem__", "__array__", "__int__", "__float__", "__index__", "__hash__", "__add__", "__contains__"):
    setattr(Spy, _n, _special(_n))


def spy_checks(out, rng, n):
    for _ in range(n):
        dims = gen_dims.rand_dims(rng, max_axes=4, holes=())
        alpha = {nm: rng.rng(0, 4) for nm in gen_dims.NAMES}
        valpha = {nm: [rng.rng(0, 3) for _ in range(rng.below(3))] for nm in gen_dims.VNAMES}
        shape = gen_dims.rand_shape_for(rng, dims, alpha, valpha, max_size=4, mutate=rng.chance(1, 3))
        for at in (typing.Any, Spy):
            log = []
            try:
                ann = jaxtyping.Float[at, dims]
            except ValueError:
                continue
            with jaxtyped("context"):
                for i in range(2):
                    try:
                        isinstance(Spy(shape, rng.choice(["float32", "int32"]), log), ann)
                    except Exception:  # noqa: BLE001 - what was touched is the observation
                        pass
                # inside a PyTree too
                try:
                    isinstance([Spy(shape, "float32", log), (Spy(shape, "float32", log),)], PyTree[ann])
                except Exception:  # noqa: BLE001 - what was touched is the observation
                    pass
            touched = sorted(set(log) - {"shape", "dtype"})
            out.case(("spy", dims, tuple(shape), at is Spy), True, sample={"dims": dims, "shape": shape, "touched": sorted(set(log))})
            if touched:
                out.violation("spy:" + ",".join(touched)[:80], f"checking an array against Float[{'Any' if at is typing.Any else 'Spy'}, {dims!r}] touched {touched} of the array (only shape and dtype may be read)", {"dims": dims, "shape": shape})


TRANSFORMS = {
    "jit": lambda f, ia: jax.jit(f),
    "eval_shape": lambda f, ia: (lambda *a: jax.eval_shape(f, *a)),
    "jit(jit)": lambda f, ia: jax.jit(jax.jit(f)),
}


def directed_cases(out, rng):
    """cases the random generator does not reach: PRNG-key parameters next to numeric ones (one tracer class
    carries both kinds of dtype), the SAME array object at several leaf positions of a PyTree with '?' axes
    (tracing always supplies distinct tracers), scalars and 0-d arrays, mixed-dtype calls repeated in
    different orders (anything remembered per class or per object would show)"""
    from jaxtyping import Float, Int, Key, PyTree, Shaped, UInt32

    tc = typeguard.typechecked
    key, key2 = jax.random.key(0), jax.random.key(1)
    old = jax.random.PRNGKey(0)
    f3, f4, i3 = jnp.zeros((3,), jnp.float32), jnp.zeros((4,), jnp.float32), jnp.zeros((3,), jnp.int32)

    @jaxtyped(typechecker=tc)
    def noisy(x: Float[jax.Array, "n"], k: Key[jax.Array, ""]) -> Float[jax.Array, "n"]:
        return x

    @jaxtyped(typechecker=tc)
    def keys_first(k: Key[jax.Array, ""], x: Float[jax.Array, "n"], y: Int[jax.Array, "n"]) -> Shaped[jax.Array, ""]:
        return jnp.zeros(())

    @jaxtyped(typechecker=tc)
    def oldkey(k: UInt32[jax.Array, "2"], x: Float[jax.Array, "n"]) -> Float[jax.Array, "n"]:
        return x

    Q = PyTree[Float[jax.Array, "?n"], "T"]

    @jaxtyped(typechecker=tc)
    def pair(x: Q, y: Q) -> Float[jax.Array, ""]:
        return jnp.zeros(())

    @jaxtyped(typechecker=tc)
    def scalarish(x: Float[jax.Array, ""], y: Float[jax.Array, "..."], z: Int[jax.Array, "*b"]) -> Float[jax.Array, ""]:
        return x

    # a PARAMETER named like an axis used in a symbolic expression: `n+1` is about the axis size, never about the
    # parameter's value
    @jaxtyped(typechecker=tc)
    def pad(n: Int[jax.Array, ""], x: Float[jax.Array, "n"]) -> Float[jax.Array, "n+1"]:
        return jnp.zeros((x.shape[0] + 1,), jnp.float32)

    @jaxtyped(typechecker=tc)
    def twice(x: Float[jax.Array, "a b"], a: Float[jax.Array, "b"], b: Int[jax.Array, "a"]) -> Float[jax.Array, "a*b 2*a"]:
        return jnp.zeros((x.shape[0] * x.shape[1], 2 * x.shape[0]), jnp.float32)

    # `{…}` parts that look at an ARRAY argument (its length, shape, rank): a tracer answers these like the array it stands for
    @jaxtyped(typechecker=tc)
    def drop_last(x: Float[jax.Array, "n"]) -> Float[jax.Array, "{len(x)-1}"]:
        return x[:-1]

    @jaxtyped(typechecker=tc)
    def outer(x: Float[jax.Array, "n"], y: Float[jax.Array, "m"]) -> Float[jax.Array, "{len(x)*len(y)} {x.ndim+y.shape[0]}"]:
        return jnp.zeros((x.shape[0] * y.shape[0], 1 + y.shape[0]), jnp.float32)

    cases = [
        ("axis computed from len(x)", drop_last, (f4,), "accept"),
        ("axes computed from len / ndim / shape of two arguments", outer, (f3, f4), "accept"),
        ("parameter named like an axis, value 0", pad, (jnp.asarray(0, jnp.int32), f3), "accept"),
        ("parameter named like an axis, value 3", pad, (jnp.asarray(3, jnp.int32), f3), "accept"),
        ("parameter named like an axis, value 7", pad, (jnp.asarray(7, jnp.int32), f4), "accept"),
        ("parameters named like both axes", twice, (jnp.ones((2, 3), jnp.float32), jnp.full((3,), 5.0, jnp.float32), jnp.full((2,), 9, jnp.int32)), "accept"),
        ("parameters named like both axes, wrong size", twice, (jnp.ones((2, 3), jnp.float32), jnp.zeros((4,), jnp.float32), jnp.zeros((2,), jnp.int32)), "reject"),
        ("float-then-key", noisy, (f3, key), "accept"),
        ("float-then-key, wrong key dtype", noisy, (f3, i3), "reject"),
        ("key-float-int", keys_first, (key2, f3, i3), "accept"),
        ("key-float-int, sizes differ", keys_first, (key2, f3, jnp.zeros((4,), jnp.int32)), "reject"),
        ("old-style key", oldkey, (old, f3), "accept"),
        ("old-style key, float in its place", oldkey, (jnp.zeros((2,), jnp.float32), f3), "reject"),
        ("same object at two leaf positions, other tree disagrees at position 1", pair, ((f3, f3), (jnp.zeros((3,)), f4)), "reject"),
        ("same object at two leaf positions, other tree agrees", pair, ((f3, f3), (jnp.zeros((3,)), jnp.zeros((3,)))), "accept"),
        ("same object in both trees", pair, ((f3, f4), (f3, f4)), "accept"),
        ("0-d and any-rank", scalarish, (jnp.zeros(()), jnp.zeros((2, 2)), jnp.zeros((2,), jnp.int32)), "accept"),
        ("0-d expected, 1-d given", scalarish, (jnp.zeros((1,)), jnp.zeros(()), jnp.zeros((), jnp.int32)), "reject"),
    ]
    # run every case eagerly first and transformed afterwards, then once more in reverse order: a verdict
    # must not depend on what was checked before
    for rnd, order in enumerate((cases, cases[::-1])):
        for name, fn, args, want in order:
            verdicts = {"eager": classify(lambda: fn(*args))}
            verdicts["jit"] = classify(lambda: jax.jit(fn)(*args))
            verdicts["eval_shape"] = classify(lambda: jax.eval_shape(fn, *args))
            verdicts["vmap"] = classify(lambda: jax.vmap(fn)(*jax.tree_util.tree_map(lambda a: jnp.stack([a, a]), args)))
            verdicts["jit(vmap)"] = classify(lambda: jax.jit(jax.vmap(fn))(*jax.tree_util.tree_map(lambda a: jnp.stack([a, a]), args)))
            verdicts["eager-again"] = classify(lambda: fn(*args))
            out.case(("directed", name, rnd), True, sample={"case": name, "round": rnd, "verdicts": verdicts})
            eager = verdicts["eager"]
            if eager != want:
                out.violation("shapes-decide:directed", f"{name}: from the shapes and dtypes alone the call must be {want}, the eager call is {eager} (all verdicts: {verdicts})", {"directed": name})
                continue
            for k_, v in verdicts.items():
                if v.startswith("CONCRETIZE"):
                    out.violation(f"concretize:directed:{k_}", f"{name}: checking under {k_} forced a tracer to a concrete value: {v}", {"directed": name})
                elif v != eager:
                    out.violation(f"trace-vs-eager:directed:{k_}", f"{name}: the eager call is {eager} but under {k_} the same function on the same shapes / dtypes is {v} (all verdicts: {verdicts})", {"directed": name})
                    break


def keyword_order_cases(out):
    """arrays handed over through `**kwargs` or inside a dict: eagerly they are checked in the order the caller wrote
    them, tracing rebuilds keyword arguments and dicts with sorted keys. Same arrays, same shapes and dtypes: the
    verdict must not depend on the order, hence not on eager vs traced either (multi-axis names with and without
    `#`, three arrays, two of which do not broadcast against each other but both against the third)."""
    import itertools
    from typing import Dict

    from jaxtyping import Float

    tc = typeguard.typechecked

    @jaxtyped(typechecker=tc)
    def kw_b(**arrs: Float[jax.Array, "*#b"]):
        return 0.0

    @jaxtyped(typechecker=tc)
    def kw_v(**arrs: Float[jax.Array, "*b 3"]):
        return 0.0

    @jaxtyped(typechecker=tc)
    def dict_b(arrs: Dict[str, Float[jax.Array, "*#b"]]):
        return 0.0

    @jaxtyped(typechecker=tc)
    def dict_ret(arrs: Dict[str, Float[jax.Array, "*#b"]]) -> Float[jax.Array, "*b"]:
        return jnp.zeros(jnp.broadcast_shapes(*[v.shape for v in arrs.values()]), jnp.float32)

    pools = [[(1, 3), (2, 3), (4, 3)], [(3,), (2, 3), (1, 3)], [(1, 1), (5, 1), (1, 6)], [(2, 3), (2, 3), (1, 3)], [(1, 3), (1, 3), (7, 3)]]
    keys = ["m", "z", "a"]      # written order; sorted order is a, m, z
    for fn, style in ((kw_b, "kwargs"), (kw_v, "kwargs"), (dict_b, "dict"), (dict_ret, "dict")):
        for shapes in pools:
            seen = {}
            for perm in itertools.permutations(range(3)):
                arrs = {keys[i]: jnp.zeros(shapes[perm[i]], jnp.float32) for i in range(3)}
                call = (lambda f, a=arrs: f(**a)) if style == "kwargs" else (lambda f, a=arrs: f(a))
                verdicts = {"eager": classify(lambda: call(fn))}
                verdicts["jit"] = classify(lambda: call(jax.jit(fn)))
                verdicts["eval_shape"] = classify(lambda: (jax.eval_shape(fn, **arrs) if style == "kwargs" else jax.eval_shape(fn, arrs)))
                verdicts["vmap"] = classify(lambda: (jax.vmap(fn)(**{k: jnp.stack([v, v]) for k, v in arrs.items()}) if style == "kwargs"
                                                     else jax.vmap(fn)({k: jnp.stack([v, v]) for k, v in arrs.items()})))
                name = f"{fn.__name__} {[shapes[perm[i]] for i in range(3)]}"
                out.case(("kworder", fn.__name__, tuple(shapes), perm), True, sample={"case": name, "verdicts": verdicts})
                eager = verdicts["eager"]
                seen[perm] = eager
                for k_, v in verdicts.items():
                    if v != eager:
                        out.violation(f"trace-vs-eager:kworder:{fn.__name__}:{k_}", f"{name} (keys written as {keys}): the eager call is {eager} but under {k_} the same arrays give {v} "
                                      f"(all verdicts: {verdicts})", {"kworder": name})
                        break
            if len(set(seen.values())) > 1:
                out.violation(f"order:kworder:{fn.__name__}", f"{fn.__name__} on shapes {shapes}: the verdict depends on the order in which the same arrays are written: {seen}", {"kworder": str(shapes)})


def container_leaf_type_cases(out):
    """PyTrees whose LEAF TYPE is itself a typed container of arrays (a TypedDict, a fixed tuple, a NamedTuple field,
    an Optional): the leaf test looks at types, shapes and dtypes of the fields only, so the verdict is the same
    eagerly, under jit / vmap / eval_shape / grad, and for every VALUE of the elements (zeros, non-zeros, one element
    or many)"""
    from typing import Optional, Tuple, TypedDict

    from jaxtyping import Float, Int, PyTree

    tc = typeguard.typechecked

    class Layer(TypedDict):
        scale: Float[jax.Array, ""]
        shift: Float[jax.Array, "n"]

    @jaxtyped(typechecker=tc)
    def f_td(tree: PyTree[Layer]):
        return 0.0

    @jaxtyped(typechecker=tc)
    def f_tup(tree: PyTree[Tuple[Float[jax.Array, "n"], Int[jax.Array, ""]]]):
        return 0.0

    @jaxtyped(typechecker=tc)
    def f_opt(tree: PyTree[Optional[Float[jax.Array, "n"]]]):
        return 0.0

    def layer(scale_dt, shift_dt, n, fill):
        return {"scale": jnp.full((), fill, scale_dt), "shift": jnp.full((n,), fill, shift_dt)}

    cases = []
    for fill in (0, 3):
        for n in (1, 4):
            cases.append((f"Layer float/float n={n} fill={fill}", f_td, [layer(jnp.float32, jnp.float32, n, fill), layer(jnp.float32, jnp.float32, n, fill)], "accept"))
            cases.append((f"Layer int scale n={n} fill={fill}", f_td, [layer(jnp.int32, jnp.float32, n, fill)], "reject"))
            cases.append((f"Layer int shift n={n} fill={fill}", f_td, {"a": layer(jnp.float32, jnp.int32, n, fill)}, "reject"))
            cases.append((f"Layer sizes differ n={n} fill={fill}", f_td, [layer(jnp.float32, jnp.float32, n, fill), layer(jnp.float32, jnp.float32, n + 1, fill)], "reject"))
            cases.append((f"pair n={n} fill={fill}", f_tup, [(jnp.full((n,), fill, jnp.float32), jnp.full((), fill, jnp.int32))], "accept"))
            cases.append((f"pair wrong dtype n={n} fill={fill}", f_tup, [(jnp.full((n,), fill, jnp.float32), jnp.full((), fill, jnp.float32))], "reject"))
            cases.append((f"optional n={n} fill={fill}", f_opt, [jnp.full((n,), fill, jnp.float32), None], "accept"))
    # a field whose axis is worth something only once ANOTHER field has bound a name, declared in an order that is not the
    # sorted one (tracing rebuilds dicts with sorted keys), the value written in both orders
    class Window(TypedDict):
        signal: Float[jax.Array, "n"]
        padded: Float[jax.Array, "n+2"]

    @jaxtyped(typechecker=tc)
    def f_win(tree: PyTree[Window]):
        return 0.0

    for n, pad, want in ((3, 5, "accept"), (3, 4, "reject"), (1, 3, "accept")):
        cases.append((f"Window n={n} padded={pad} (written signal, padded)", f_win, [{"signal": jnp.zeros((n,), jnp.float32), "padded": jnp.zeros((pad,), jnp.float32)}], want))
        cases.append((f"Window n={n} padded={pad} (written padded, signal)", f_win, {"w": {"padded": jnp.zeros((pad,), jnp.float32), "signal": jnp.zeros((n,), jnp.float32)}}, want))
    for name, fn, tree, want in cases:
        verdicts = {"eager": classify(lambda: fn(tree))}
        verdicts["jit"] = classify(lambda: jax.jit(fn)(tree))
        verdicts["eval_shape"] = classify(lambda: jax.eval_shape(fn, tree))
        verdicts["vmap"] = classify(lambda: jax.vmap(fn)(jax.tree_util.tree_map(lambda v: jnp.stack([v, v]), tree)))
        verdicts["jit(vmap)"] = classify(lambda: jax.jit(jax.vmap(fn))(jax.tree_util.tree_map(lambda v: jnp.stack([v, v]), tree)))
        # the first traced use of a FRESH annotation, with JAX's tracer-leak checker on: a check keeps nothing of the trace
        if want == "accept" and fn is f_td and "n=1 fill=0" in name:
            @jaxtyped(typechecker=tc)
            def f_fresh(tree: PyTree[Tuple[Float[jax.Array, "n"], Float[jax.Array, ""]]]):
                return 0.0

            def leaky():
                with jax.checking_leaks():
                    return jax.jit(f_fresh)([(jnp.zeros((2,), jnp.float32), jnp.zeros((), jnp.float32))])

            verdicts["jit, first use, checking_leaks"] = classify(leaky)
        out.case(("container-leaf", name), True, sample={"case": name, "verdicts": verdicts})
        bad = {k: v for k, v in verdicts.items() if v != want}
        if bad:
            out.violation(f"trace-vs-eager:container-leaf:{fn.__name__}:{sorted(bad)[0]}", f"{name}: shapes and dtypes say {want}; got {verdicts}", {"container_leaf": name})


HOOKED_TRANSFORM_MODULE = '''import jax
import jax.numpy as jnp
from jaxtyping import Array, Float

@jax.vmap
def per_example_norm(x: Float[Array, "n"]) -> Float[Array, ""]:
    return jnp.sum(x * x)

@jax.vmap
def wants_matrix(x: Float[Array, "a b"]) -> Float[Array, ""]:
    return jnp.sum(x)

@jax.jit
@jax.vmap
def jit_of_vmap(x: Float[Array, "n"]) -> Float[Array, "n"]:
    return x + 1

@jax.grad
def grad_of_sum(x: Float[Array, "n"]) -> Float[Array, ""]:
    return jnp.sum(x * x)

def plain(x: Float[Array, "n"]) -> Float[Array, ""]:
    return jnp.sum(x)
'''


def hooked_transform_cases(out, seed):
    """functions of a module instrumented by the import hook that carry their OWN transformation decorators (`@jax.vmap`,
    `@jax.grad`, `@jax.jit @jax.vmap`): the annotations describe what the function body sees (one example, not the batch),
    so the verdict on a batch is the eager verdict on one example"""
    import importlib

    import jaxtyping
    from common import scratch_dir

    with scratch_dir("jaxverif_c17hook_") as root:
        name = f"c17hooked_{seed}_{os.getpid()}"
        with open(os.path.join(root, name + ".py"), "w") as fh:
            fh.write(HOOKED_TRANSFORM_MODULE)
        sys.path.insert(0, root)
        old = sys.dont_write_bytecode
        sys.dont_write_bytecode = True
        try:
            with jaxtyping.install_import_hook(name, "typeguard.typechecked"):
                mod = importlib.import_module(name)
        finally:
            sys.dont_write_bytecode = old
            sys.path.remove(root)
            sys.modules.pop(name, None)
    f32 = lambda *sh: jnp.zeros(sh, jnp.float32)  # noqa: E731
    cases = [("vmap, per-example vector", lambda: mod.per_example_norm(f32(5, 3)), "accept"), ("vmap, per-example vector given rank-3 batch", lambda: mod.per_example_norm(f32(5, 3, 2)), "reject"),
             ("vmap, body wants a matrix, batch of vectors", lambda: mod.wants_matrix(f32(5, 3)), "reject"), ("vmap, body wants a matrix, batch of matrices", lambda: mod.wants_matrix(f32(5, 3, 2)), "accept"),
             ("jit of vmap", lambda: mod.jit_of_vmap(f32(4, 3)), "accept"), ("grad", lambda: mod.grad_of_sum(f32(3)), "accept"), ("grad, matrix", lambda: mod.grad_of_sum(f32(3, 2)), "reject"),
             ("no decorator, vector", lambda: mod.plain(f32(3)), "accept"), ("no decorator, matrix", lambda: mod.plain(f32(3, 2)), "reject"),
             ("jit applied by the caller", lambda: jax.jit(mod.plain)(f32(3)), "accept"), ("vmap applied by the caller", lambda: jax.vmap(mod.plain)(f32(5, 3)), "accept")]
    for cname, thunk, want in cases:
        got = classify(thunk)
        out.case(("hooked-transform", cname), True, sample={"case": cname, "verdict": got})
        if got != want:
            out.violation("trace-vs-eager:hooked-transform", f"a hooked module's function ({cname}): the call is {got}, the shapes and dtypes its body sees say {want}", {"hooked_transform": cname})
            return


def run(tier, seed, out, drv, facts):
    rng = Rng(seed, "C17")
    thorough = tier == "thorough"
    n = 1000 if thorough else 150
    for _ in range(n):
        case = c02.gen_case(rng, thorough)
        run_case(out, drv, facts, case, rng)
    spy_checks(out, rng, 400 if thorough else 60)
    directed_cases(out, rng)
    keyword_order_cases(out)
    container_leaf_type_cases(out)
    hooked_transform_cases(out, seed)


def replay(rep, out, drv, facts):
    if "hooked_transform" in rep:
        hooked_transform_cases(out, 0)
    elif "container_leaf" in rep:
        container_leaf_type_cases(out)
    elif "kworder" in rep:
        keyword_order_cases(out)
    elif "directed" in rep:
        directed_cases(out, Rng(0, "replay"))
    elif "case" in rep:
        run_case(out, drv, facts, rep["case"], Rng(0, "replay"), tree_ok=bool(rep.get("tree_params")))
    else:
        spy_checks(out, Rng(0, "replay"), 20)
    out.case("replay", True, sample=rep)
