/-
Helper lemmas for C02: a sequence of array checks in one context is accepted iff one consistent
total assignment exists; corollaries (order independence, re-checking), and the wrapper's
parameter pass as `checkSeq`.
-/
import JaxVerif.Spec.Calls
import JaxVerif.Lemmas.Rollback

namespace JV

/-! ### unfolding `checkSeq` -/

theorem checkSeq_cons_T (c : Catch) (tp : TreePath) (a : Ann) (o : ArrObj)
    (rest : List (Ann × ArrObj)) (m m' : Memo) (h : instancecheck c false tp a o m = (.T, m')) :
    checkSeq c tp ((a, o) :: rest) m = checkSeq c tp rest m' := by
  simp only [checkSeq, h]

theorem checkSeq_cons_stop (c : Catch) (tp : TreePath) (a : Ann) (o : ArrObj)
    (rest : List (Ann × ArrObj)) (m : Memo) (h : (instancecheck c false tp a o m).1 ≠ .T) :
    checkSeq c tp ((a, o) :: rest) m = instancecheck c false tp a o m := by
  cases hi : instancecheck c false tp a o m with
  | mk v m' =>
    rw [hi] at h
    cases v with
    | T => exact absurd rfl h
    | F => simp only [checkSeq, hi]
    | ANN => simp only [checkSeq, hi]
    | EXC e => simp only [checkSeq, hi]

/-- what an accepted, non-transparent array check went through -/
theorem instancecheck_T_inv (c : Catch) (tp : TreePath) (a : Ann) (o : ArrObj) (m m' : Memo)
    (ht : a.transparent = false) (h : instancecheck c false tp a o m = (.T, m')) :
    o.isInst = true ∧ a.dtypes.accepts o.dtype = true ∧
      ∃ σ ν, checkShape tp m.args a.shape o.shape m.single m.variadic = .ok (σ, ν) ∧
        m' = { m with single := σ, variadic := ν } := by
  cases hi : o.isInst with
  | false => simp [instancecheck, ht, hi] at h
  | true =>
    cases hd : a.dtypes.accepts o.dtype with
    | false => simp [instancecheck, ht, hi, hd] at h
    | true =>
      refine ⟨rfl, rfl, ?_⟩
      simp only [instancecheck, ht, hi, hd, Bool.false_eq_true, if_false, Bool.not_true] at h
      cases hc : checkShape tp m.args a.shape o.shape m.single m.variadic with
      | ok r =>
        obtain ⟨σ, ν⟩ := r
        simp only [hc, Prod.mk.injEq, true_and] at h
        exact ⟨σ, ν, rfl, h.symm⟩
      | fail => simp [hc] at h
      | annErr => simp [hc] at h
      | exc e l =>
        obtain ⟨σ, ν⟩ := l
        simp only [hc] at h
        split at h <;> simp at h

/-! ### the verdict of a sequence is satisfiability -/

theorem checkSeq_iff (c : Catch) (tp : TreePath) (l : List (Ann × ArrObj)) (m : Memo)
    (ht : ∀ p ∈ l, p.1.transparent = false)
    (hr : (checkSeq c tp l m).1 = .T ∨ (checkSeq c tp l m).1 = .F) :
    (checkSeq c tp l m).1 = .T ↔
      ∃ α, Extends α m.single m.variadic ∧ ∀ p ∈ l, GoodUnder tp m.args α p := by
  induction l generalizing m with
  | nil =>
    simp only [checkSeq, true_iff]
    exact ⟨asgOfMemo m.single m.variadic, asgOfMemo_extends _ _, fun p hp => by simp at hp⟩
  | cons p rest ih =>
    obtain ⟨a, o⟩ := p
    have hta : a.transparent = false := ht (a, o) (by simp)
    have htr : ∀ p ∈ rest, p.1.transparent = false := fun p hp => ht p (by simp [hp])
    by_cases hv : (instancecheck c false tp a o m).1 = .T
    · -- the head is accepted: continue from the memo it produced
      obtain ⟨m', hm'⟩ : ∃ m', instancecheck c false tp a o m = (.T, m') :=
        ⟨(instancecheck c false tp a o m).2, by rw [← hv]⟩
      obtain ⟨hi, hd, σ, ν, hc, rfl⟩ := instancecheck_T_inv c tp a o m m' hta hm'
      rw [checkSeq_cons_T c tp a o rest m _ hm'] at hr ⊢
      rw [ih _ htr hr]
      constructor
      · rintro ⟨α, hα, hall⟩
        obtain ⟨hα0, hm⟩ := checkShape_sound tp m.args a.shape o.shape m.single σ m.variadic ν hc α hα
        refine ⟨α, hα0, fun p hp => ?_⟩
        rcases List.mem_cons.mp hp with rfl | hp
        · exact ⟨hi, hd, hm⟩
        · exact hall p hp
      · rintro ⟨α, hα, hall⟩
        obtain ⟨_, _, hm⟩ := hall (a, o) (by simp)
        rcases checkShape_complete tp m.args a.shape o.shape m.single m.variadic α hα hm with
          ⟨σ', ν', hc', hα'⟩ | hc'
        · rw [hc] at hc'
          simp only [Walk.ok.injEq, Prod.mk.injEq] at hc'
          obtain ⟨rfl, rfl⟩ := hc'
          exact ⟨α, hα', fun p hp => hall p (by simp [hp])⟩
        · rw [hc] at hc'; cases hc'
    · -- the head stops the sequence
      rw [checkSeq_cons_stop c tp a o rest m hv] at hr ⊢
      have hF : (instancecheck c false tp a o m).1 = .F := by
        rcases hr with h | h
        · exact absurd h hv
        · exact h
      have hann : (instancecheck c false tp a o m).1 ≠ .ANN := by rw [hF]; simp
      constructor
      · intro h; exact absurd h hv
      · rintro ⟨α, hα, hall⟩
        obtain ⟨hi, hd, hm⟩ := hall (a, o) (by simp)
        exact (instancecheck_iff c tp a o m hta hann).mpr ⟨hi, hd, α, hα, hm⟩

theorem verdict_eq_of_iff {v w : Verdict} (hv : v = .T ∨ v = .F) (hw : w = .T ∨ w = .F)
    (h : v = .T ↔ w = .T) : v = w := by
  rcases hv with rfl | rfl <;> rcases hw with rfl | rfl
  · rfl
  · exact (h.mp rfl).symm ▸ rfl
  · exact (h.mpr rfl)
  · rfl

theorem checkSeq_congr_mem (c : Catch) (tp : TreePath) (l₁ l₂ : List (Ann × ArrObj)) (m : Memo)
    (hmem : ∀ p, p ∈ l₁ ↔ p ∈ l₂)
    (ht : ∀ p ∈ l₁, p.1.transparent = false)
    (h₁ : (checkSeq c tp l₁ m).1 = .T ∨ (checkSeq c tp l₁ m).1 = .F)
    (h₂ : (checkSeq c tp l₂ m).1 = .T ∨ (checkSeq c tp l₂ m).1 = .F) :
    (checkSeq c tp l₁ m).1 = (checkSeq c tp l₂ m).1 := by
  have ht2 : ∀ p ∈ l₂, p.1.transparent = false := fun p hp => ht p ((hmem p).mpr hp)
  apply verdict_eq_of_iff h₁ h₂
  rw [checkSeq_iff c tp l₁ m ht h₁, checkSeq_iff c tp l₂ m ht2 h₂]
  constructor
  · rintro ⟨α, hα, hall⟩; exact ⟨α, hα, fun p hp => hall p ((hmem p).mpr hp)⟩
  · rintro ⟨α, hα, hall⟩; exact ⟨α, hα, fun p hp => hall p ((hmem p).mp hp)⟩

theorem checkSeq_perm (c : Catch) (tp : TreePath) (l₁ l₂ : List (Ann × ArrObj)) (m : Memo)
    (hp : l₁.Perm l₂)
    (ht : ∀ p ∈ l₁, p.1.transparent = false)
    (h₁ : (checkSeq c tp l₁ m).1 = .T ∨ (checkSeq c tp l₁ m).1 = .F)
    (h₂ : (checkSeq c tp l₂ m).1 = .T ∨ (checkSeq c tp l₂ m).1 = .F) :
    (checkSeq c tp l₁ m).1 = (checkSeq c tp l₂ m).1 :=
  checkSeq_congr_mem c tp l₁ l₂ m (fun _ => hp.mem_iff) ht h₁ h₂

theorem checkSeq_recheck (c : Catch) (tp : TreePath) (l : List (Ann × ArrObj)) (r : Ann × ArrObj)
    (m : Memo)
    (ht : ∀ p ∈ l ++ [r], p.1.transparent = false)
    (h₁ : (checkSeq c tp (l ++ l ++ [r]) m).1 = .T ∨ (checkSeq c tp (l ++ l ++ [r]) m).1 = .F)
    (h₂ : (checkSeq c tp (l ++ [r]) m).1 = .T ∨ (checkSeq c tp (l ++ [r]) m).1 = .F) :
    (checkSeq c tp (l ++ l ++ [r]) m).1 = (checkSeq c tp (l ++ [r]) m).1 := by
  have hmem : ∀ p, p ∈ l ++ l ++ [r] ↔ p ∈ l ++ [r] := by
    intro p; simp only [List.mem_append, or_self]
  exact checkSeq_congr_mem c tp _ _ m hmem (fun p hp => ht p ((hmem p).mp hp)) h₁ h₂

/-! ### the wrapper's parameter pass -/

theorem onTop_arr (sk : Skel) (cls : String) (a : Ann) (x : Obj) (m : Memo) (rest : List Memo)
    (tpv : TreePath) (dis : Bool) :
    onTop { stack := m :: rest, tp := tpv, flatten := false, disable := dis }
        (checkL sk (.arr cls a) x) =
      ({ stack := (instancecheck sk.arrayCatch false tpv a (x.toArr cls) m).2 :: rest,
         tp := tpv, flatten := false, disable := dis },
        (instancecheck sk.arrayCatch false tpv a (x.toArr cls) m).1) := by
  rw [onTop_cons _ _ m rest rfl]
  simp only [checkL, Bool.false_eq_true, if_false]

theorem asArr_arr (p : Param) (cls : String) (a : Ann) (h : p.ty = .arr cls a) :
    p.asArr = (a, p.val.toArr cls) := by
  simp only [Param.asArr, h]

theorem checkParams_eq_checkSeq (sk : Skel) (ps : List Param) (m : Memo) (rest : List Memo)
    (tpv : TreePath) (dis : Bool) (h : ∀ p ∈ ps, ∃ cls a, p.ty = .arr cls a) :
    let st : TState := { stack := m :: rest, tp := tpv, flatten := false, disable := dis }
    (checkParams sk ps st).2.1 = (checkSeq sk.arrayCatch tpv (ps.map Param.asArr) m).1 ∧
    (checkParams sk ps st).1.stack = (checkSeq sk.arrayCatch tpv (ps.map Param.asArr) m).2 :: rest := by
  intro st
  induction ps generalizing m with
  | nil => exact ⟨rfl, rfl⟩
  | cons p ps ih =>
    obtain ⟨cls, a, hty⟩ := h p (by simp)
    have hps : ∀ q ∈ ps, ∃ cls a, q.ty = .arr cls a := fun q hq => h q (by simp [hq])
    simp only [List.map_cons, asArr_arr p cls a hty]
    cases hi : instancecheck sk.arrayCatch false tpv a (p.val.toArr cls) m with
    | mk v m' =>
      have hon := onTop_arr sk cls a p.val m rest tpv dis
      rw [hi] at hon
      simp only at hon
      cases v with
      | T =>
        rw [checkSeq_cons_T _ _ _ _ _ _ _ hi]
        simp only [st, checkParams, hty, hon]
        exact ih m' hps
      | F => simp only [st, checkParams, checkSeq, hty, hon, hi, and_self]
      | ANN => simp only [st, checkParams, checkSeq, hty, hon, hi, and_self]
      | EXC e => simp only [st, checkParams, checkSeq, hty, hon, hi, and_self]

end JV
