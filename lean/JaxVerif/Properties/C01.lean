/-
C01 — an array check decides shape exactly as the dim-string language says.
Only property theorems and non-vacuity examples live here; helper lemmas are in Lemmas/.
-/
import JaxVerif.Spec.Array
import JaxVerif.Lemmas.Array
import JaxVerif.Generated.CheckCode
import JaxVerif.Generated.Rollback
import JaxVerif.Lemmas.Slices
import JaxVerif.Generated.Skeleton

namespace JV

/-- soundness of the per-axis walk: an accepted walk only adds bindings, and every total
    assignment extending the final memo satisfies every axis. -/
theorem C01_dims_sound (tp : TreePath) (args : Args) (σ σ' : Single) (l : List (Dim × Nat))
    (h : checkDims tp args σ l = .ok σ') :
    (∀ k n, σ.lookup k = some n → σ'.lookup k = some n) ∧
    ∀ α, ExtendsSingle α σ' → ∀ p ∈ l, SatDim tp args α p.1 p.2 :=
  checkDims_sound tp args σ σ' l h

/-- completeness: if some total assignment consistent with the memo satisfies every axis, the
    walk accepts (staying consistent with it) or stops at an unbound symbolic name. -/
theorem C01_dims_complete (tp : TreePath) (args : Args) (α : Key → Nat) (σ : Single)
    (l : List (Dim × Nat)) (hα : ExtendsSingle α σ) (hs : ∀ p ∈ l, SatDim tp args α p.1 p.2) :
    (∃ σ', checkDims tp args σ l = .ok σ' ∧ ExtendsSingle α σ') ∨ checkDims tp args σ l = .annErr :=
  checkDims_complete tp args α σ l hα hs

/-- the greedy walk is satisfiability -/
theorem C01_dims_iff (tp : TreePath) (args : Args) (σ : Single) (l : List (Dim × Nat))
    (hne : checkDims tp args σ l ≠ .annErr) :
    (∃ σ', checkDims tp args σ l = .ok σ') ↔
      ∃ α, ExtendsSingle α σ ∧ ∀ p ∈ l, SatDim tp args α p.1 p.2 :=
  checkDims_iff tp args σ l hne

/-- any number of uses of one `*name`, in any order: accepted iff one shape `v` exists that
    every exact use equals and every `#` use broadcasts to -/
theorem C01_variadic_iff (st : Option (Bool × List Nat)) (us : List (Bool × List Nat)) :
    (∃ st', vrun st us = some st') ↔ ∃ v, ExtV v st ∧ ∀ u ∈ us, SatV v u :=
  vrun_iff st us

/-- what the memo of a `*name` holds after an accepted history: `(false, S)` as soon as one exact
    use happened (then every exact use equals `S` and every `#` use broadcasts to `S`);
    `(true, S)` while only `#` uses happened, and then every use broadcasts to `S` and `S`
    broadcasts to every common upper bound (it is the joint broadcast). -/
theorem C01_variadic_state (us : List (Bool × List Nat)) (b : Bool) (S : List Nat)
    (h : vrun none us = some (some (b, S))) :
    (b = false → (∃ u ∈ us, u.1 = false) ∧ ∀ u ∈ us, SatV S u) ∧
    (b = true → (∀ u ∈ us, u.1 = true ∧ BroadcastsTo u.2 S) ∧
      ∀ v, (∀ u ∈ us, BroadcastsTo u.2 v) → BroadcastsTo S v) :=
  vrun_state us b S h

/-- soundness of the whole shape check -/
theorem C01_shape_sound (tp : TreePath) (args : Args) (sh : Shape) (shape : List Nat)
    (σ σ' : Single) (ν ν' : Variadic) (h : checkShape tp args sh shape σ ν = .ok (σ', ν')) :
    ∀ α, Extends α σ' ν' → Extends α σ ν ∧ Matches tp args α sh shape :=
  checkShape_sound tp args sh shape σ σ' ν ν' h

/-- completeness of the whole shape check -/
theorem C01_shape_complete (tp : TreePath) (args : Args) (sh : Shape) (shape : List Nat)
    (σ : Single) (ν : Variadic) (α : Asg) (hα : Extends α σ ν) (hm : Matches tp args α sh shape) :
    (∃ σ' ν', checkShape tp args sh shape σ ν = .ok (σ', ν') ∧ Extends α σ' ν') ∨
      checkShape tp args sh shape σ ν = .annErr :=
  checkShape_complete tp args sh shape σ ν α hα hm

/-- when the walk raises AnnotationError: exactly when, in walk order, the first axis that is
    not already satisfied is a symbolic axis over an unbound name or missing argument, or a `?`
    axis outside a structured PyTree -/
theorem C01_annerr_iff (tp : TreePath) (args : Args) (σ : Single) (l : List (Dim × Nat)) :
    checkDims tp args σ l = .annErr ↔
      ∃ l1 d n l2 σ1, l = l1 ++ (d, n) :: l2 ∧ checkDims tp args σ l1 = .ok σ1 ∧
        ((∃ e b, d = .sym e b ∧ ¬(b = true ∧ n = 1) ∧ e.eval args σ1 = .annErr) ∨
         (∃ x b, d = .named x b true ∧ ¬(b = true ∧ n = 1) ∧ tp = none)) :=
  checkDims_annErr_iff tp args σ l

/-- the whole `isinstance`: outside the "only look at the array type" mode and for an
    annotation that was not made transparent, the verdict is True exactly when the value is an
    instance of the array type, its dtype is in the category and some total assignment
    consistent with the context matches the shape — unless the check raises. -/
theorem C01_instancecheck (c : Catch) (tp : TreePath) (a : Ann) (o : ArrObj) (m : Memo)
    (ht : a.transparent = false)
    (hann : (instancecheck c false tp a o m).1 ≠ .ANN) :
    (instancecheck c false tp a o m).1 = .T ↔
      (o.isInst = true ∧ a.dtypes.accepts o.dtype = true ∧
        ∃ α, Extends α m.single m.variadic ∧ Matches tp m.args α a.shape o.shape) :=
  instancecheck_iff c tp a o m ht hann

/-- rank: without a multi-axis specifier the rank is the number of axes; with one it is at least
    the number of single axes -/
theorem C01_rank (tp : TreePath) (args : Args) (α : Asg) (sh : Shape) (shape : List Nat)
    (h : Matches tp args α sh shape) :
    match sh.var with
    | none => shape.length = sh.pre.length
    | some (_, suf) => sh.pre.length + suf.length ≤ shape.length :=
  matches_rank tp args α sh shape h

/-- the broadcast rule is numpy's: right-aligned, per axis equal or one of them 1 -/
theorem C01_bcast_spec (a b c : List Nat) :
    bcast a b = some c ↔
      (c.length = max a.length b.length ∧
        ∀ i, i < c.length →
          b1 ((a.reverse)[i]?.getD 1) ((b.reverse)[i]?.getD 1) = some ((c.reverse)[i]?.getD 1)) :=
  bcast_spec a b c

/-! ### the tie to the source: translated code = model

`harness/translate.py` translates the `if / elif / else` chain of `_check_dims` and the multi-axis
part of `_check_shape` from the CURRENT Python source into the language of `Model/SourceDsl.lean`
(`Generated/CheckCode.lean`, rewritten on every run). The two theorems below are re-proved on every
run by scripts that only split on the atoms the code can look at and compute, so they keep holding
under restructurings of the source that mean the same and stop holding under those that do not. -/

set_option linter.unusedSimpArgs false

/-- **`_check_dims` as the source has it today is the model's `checkDim`**, for every axis
    specifier, size, context and `?`-label -/
theorem C01_source_check_dims (tp : TreePath) (args : Args) (σ : Single) (d : Dim) (n : Nat) :
    runChain tp args σ d n Generated.checkDimsChain = checkDim tp args σ d n := by
  cases d with
  | anon => simp [Generated.checkDimsChain, runChain, DGuard.holds, DAction.run, checkDim]
  | fixed k b =>
    cases b <;> by_cases h : n = 1 <;>
      simp [Generated.checkDimsChain, runChain, DGuard.holds, DAction.run, checkDim, h] <;>
      first | rfl | (split <;> rfl)
  | named x b t =>
    cases b <;> by_cases h : n = 1 <;>
      simp [Generated.checkDimsChain, runChain, DGuard.holds, DAction.run, checkDim, h] <;>
      first | rfl | (split <;> rfl)
  | sym e b =>
    cases b <;> by_cases h : n = 1 <;>
      simp [Generated.checkDimsChain, runChain, DGuard.holds, DAction.run, checkDim, h] <;>
      first | rfl | (split <;> rfl)

/-- **the multi-axis branch of `_check_shape` as the source has it today is the model's `vstep`**:
    for every earlier binding `(prev_broadcastable, prev_shape)`, every use `*name` / `*#name` and
    every shape, the translated statements reject exactly when `vstep` does and leave exactly the
    value `vstep` computes in the memo -/
theorem C01_source_variadic (prevB : Bool) (prev : List Nat) (curB : Bool) (new : List Nat) :
    runVariadic Generated.variadicCode prevB prev curB new = vstep (some (prevB, prev)) curB new := by
  unfold runVariadic
  cases prevB <;> cases curB <;> cases e1 : (new != prev) <;>
   (cases hb : bcast new prev with
    | none => simp only [Generated.variadicCode, runV, runStmt, VCond.eval, vstep, e1, hb, Bool.or_false, Bool.or_true, Bool.true_or, Bool.false_or, Bool.not_true, Bool.not_false, Bool.and_true, Bool.and_false, Bool.true_and, Bool.false_and, Bool.false_eq_true, if_true, if_false, ite_true, ite_false, reduceCtorEq, Option.map_some, Option.map_none, Option.getD_some, Option.getD_none] <;> try simp_all
    | some j =>
      cases e2 : (j != new) <;> cases e3 : (j != prev) <;>
        (have h1 := e1; have h2 := e2; have h3 := e3
         simp only [bne_iff_ne, ne_eq, bne_eq_false_iff_eq] at h1 h2 h3
         simp only [Generated.variadicCode, runV, runStmt, VCond.eval, vstep, e1, e2, e3, hb, Bool.or_false, Bool.or_true, Bool.true_or, Bool.false_or, Bool.not_true, Bool.not_false, Bool.and_true, Bool.and_false, Bool.true_and, Bool.false_and, Bool.false_eq_true, if_true, if_false, ite_true, ite_false, reduceCtorEq, Option.map_some, Option.map_none, Option.getD_some, Option.getD_none]
         try simp_all))

/-- the first use of a multi-axis name stores `(broadcastable, shape)` — as `vstep none` does -/
theorem C01_source_variadic_first (b : Bool) (n : List Nat) :
    Generated.variadicFirstStoresCurNew = true ∧ vstep none b n = some (b, n) := ⟨by decide, rfl⟩

/-- **`__instancecheck_str__` as the source orders its stages today is the model's `instancecheck`**
    (with the exception class its handler is read to catch): transparency switch, type test,
    flatten-mode accept, dtype name and test, snapshot, shape walk with rollback, final rollback -/
theorem C01_source_stages (fl : Bool) (tp : TreePath) (a : Ann) (o : ArrObj) (m : Memo) :
    runStages ((Generated.arrayCatch).getD .exceptionOnly) fl tp a o m Generated.instancecheckStages {} =
      some (instancecheck ((Generated.arrayCatch).getD .exceptionOnly) fl tp a o m) := by
  generalize (Generated.arrayCatch).getD .exceptionOnly = c
  cases ht : a.transparent <;> cases hi : o.isInst <;> cases fl <;> cases hd : a.dtypes.accepts o.dtype <;>
    simp only [Generated.instancecheckStages, runStages, instancecheck, ht, hi, hd,
      Bool.not_true, Bool.not_false, Bool.false_eq_true, if_true, if_false] <;>
    (cases checkShape tp m.args a.shape o.shape m.single m.variadic with
     | ok r => obtain ⟨σ, ν⟩ := r; rfl
     | fail => rfl
     | annErr => rfl
     | exc e l => obtain ⟨σ, ν⟩ := l; rfl)

/-- **the index arithmetic of `_check_shape` as the source has it today**: for every number of axes `n`, every
    position `i` of the multi-axis specifier and every rank `m ≥ n - 1`, the plan translated from the source
    (`i`, `j = -(len(dims) - i - 1)`, `if j == 0: j = None`, the slices `[:i]`, `[j:]`, `[i:j]` under Python's
    slice rules, the two rank tests) computes exactly the bounds of the model: axes before the specifier
    against the first `i` sizes, axes after it against the last `n - i - 1` sizes (skipped when there are none),
    the sizes in between for the specifier itself -/
theorem C01_source_slices (n m i : Nat) (hi : i < n) (hm : n ≤ m + 1) :
    Generated.slicePlan.vals n m i = some (sliceSpec n m i) := by
  have hi0 : ¬ ((i : Int) < 0) := by omega
  have hbne : ((m : Int) != (n : Int)) = (m != n) := by
    rw [Bool.eq_iff_iff]; simp only [bne_iff_ne, ne_eq, Int.natCast_inj]
  by_cases hs : n - i - 1 = 0
  · have hj : (-((n : Int) - (i : Int) - 1) == 0) = true := by simp; omega
    simp [SlicePlan.vals, Generated.slicePlan, IExp.eval, ICmp.holds, boundsOf, pyBound, sliceSpec, hs, hj, hi0, hbne]
    omega
  · have hj : (-((n : Int) - (i : Int) - 1) == 0) = false := by simp; omega
    have h1 : (1 : Int) < n - i := by omega
    simp [SlicePlan.vals, Generated.slicePlan, IExp.eval, ICmp.holds, boundsOf, pyBound, sliceSpec, hs, hj, hi0, hbne, h1]
    omega

/-- the rank tests alone, for every rank (also those the second test rejects) -/
theorem C01_source_rank_tests (n m i : Nat) (hi : i < n) :
    (Generated.slicePlan.vals n m i).map (fun v => (v.noVarFail, v.varFail)) = some (m != n, decide (m < n - 1)) := by
  have hi0 : ¬ ((i : Int) < 0) := by omega
  have hbne : ((m : Int) != (n : Int)) = (m != n) := by
    rw [Bool.eq_iff_iff]; simp only [bne_iff_ne, ne_eq, Int.natCast_inj]
  by_cases hj : (-((n : Int) - (i : Int) - 1) == 0) = true <;>
    simp [SlicePlan.vals, Generated.slicePlan, IExp.eval, ICmp.holds, boundsOf, hj, hi0, hbne] <;> omega

/-- hence, on lists: the slices the source takes of `cls.dims` and `obj.shape` are the `take` / `drop` of
    `checkShape` and `toShape` -/
theorem C01_source_slices_lists {α β : Type} (dims : List α) (shape : List β) (i : Nat)
    (hi : i < dims.length) (hm : dims.length ≤ shape.length + 1) :
    ∃ v, Generated.slicePlan.vals dims.length shape.length i = some v ∧
      sliceNat dims v.prefixDims.1 v.prefixDims.2 = dims.take i ∧
      sliceNat shape v.prefixShape.1 v.prefixShape.2 = shape.take i ∧
      (match v.suffixDims, v.suffixShape with
       | some sd, some ss =>
         sliceNat dims sd.1 sd.2 = dims.drop (i + 1) ∧
           sliceNat shape ss.1 ss.2 = shape.drop (shape.length - (dims.length - i - 1))
       | none, none => dims.drop (i + 1) = [] ∧ shape.drop (shape.length - (dims.length - i - 1)) = []
       | _, _ => False) ∧
      sliceNat shape v.midBound.1 v.midBound.2 =
        (shape.drop i).take (shape.length - i - (dims.length - i - 1)) ∧
      v.midFirst = v.midBound ∧ v.varIndex = i :=
  ⟨_, C01_source_slices _ _ i hi hm, sliceSpec_lists dims shape i hi hm⟩

/-- what `{name}` axes are evaluated against: both wrappers, as read today, hand `push_shape_memo` the arguments
    of `signature.bind(*args, **kwargs)` after an unconditional `apply_defaults()` — every parameter of the
    current call is there, passed or defaulted (`Args` in the model is total over the parameter names) -/
theorem C01_source_arguments : Generated.pushSeesDefaults = true := by decide

/-! non-vacuity: concrete states meeting the hypotheses -/

-- `*#v` after `*v` of lower rank is rejected, after one of equal shape accepted
example : vrun none [(false, [4, 5]), (true, [5])] = some (some (false, [4, 5])) := by decide
example : vrun none [(false, [5]), (true, [4, 5])] = none := by decide
-- suffix axes after a variadic, `#` on a symbolic axis, size-0 axes
example :
    checkShape none [] { pre := [.named "a" false false], var := some (.namedVar "v" true false,
      [.sym (.add (.var "a") (.lit 1)) true, .fixed 0 false]) } [2, 7, 1, 1, 0] [] []
      = .ok ([(.plain "a", 2)], [(.plain "v", (true, [7, 1]))]) := by decide
example : (instancecheck .exceptionOnly false none
    { dtypes := .any, shape := { pre := [.sym (.var "q") false], var := none } }
    { isInst := true, dtype := "float32", shape := [3] } {}).1 = .ANN := by decide

end JV
