/-
Model of `numpy.broadcast_shapes` for two shapes, as used by the `*name` / `*#name`
branches of `_MetaAbstractArray._check_shape` (jaxtyping/_array_types.py).
Core Lean only (no Mathlib) so that the driver links.
-/
namespace JV

/-- numpy's per-axis rule (sizes may be 0) -/
def b1 (a b : Nat) : Option Nat :=
  if a = b then some a else if a = 1 then some b else if b = 1 then some a else none

/-- broadcast of *reversed* shapes (left aligned) -/
def bc : List Nat → List Nat → Option (List Nat)
  | [], ys => some ys
  | xs, [] => some xs
  | x :: xs, y :: ys =>
    match b1 x y, bc xs ys with
    | some z, some zs => some (z :: zs)
    | _, _ => none

/-- `np.broadcast_shapes(a, b)`; `none` models the `ValueError` -/
def bcast (a b : List Nat) : Option (List Nat) :=
  (bc a.reverse b.reverse).map List.reverse

end JV
