/-
Values that differ only in what jaxtyping never looks at (element values of arrays) are checked
alike — for every leaf type, PyTrees included (C17).
-/
import JaxVerif.Model.Call

namespace JV

mutual
/-- `x` and `y` are the same value up to the payload (and the recorded type-test answer, which
    `Obj.toArr` recomputes from the class) of the arrays inside -/
inductive Obj.Sim : Obj → Obj → Prop
  | int (n : Int) : Obj.Sim (.int n) (.int n)
  | str (s : String) : Obj.Sim (.str s) (.str s)
  | none : Obj.Sim .none .none
  | opaque (t : String) : Obj.Sim (.opaque t) (.opaque t)
  | arr (c : String) (a b : ArrObj) : a.dtype = b.dtype → a.shape = b.shape → Obj.Sim (.arr c a) (.arr c b)
  | tuple (xs ys : List Obj) : Obj.SimList xs ys → Obj.Sim (.tuple xs) (.tuple ys)
  | list (xs ys : List Obj) : Obj.SimList xs ys → Obj.Sim (.list xs) (.list ys)
  | dict (ks : List String) (xs ys : List Obj) : Obj.SimList xs ys → Obj.Sim (.dict ks xs) (.dict ks ys)
  | ntuple (t : String) (xs ys : List Obj) : Obj.SimList xs ys → Obj.Sim (.ntuple t xs) (.ntuple t ys)
  | custom (t : String) (f : Option Exc) (xs ys : List Obj) : Obj.SimList xs ys →
      Obj.Sim (.custom t f xs) (.custom t f ys)
inductive Obj.SimList : List Obj → List Obj → Prop
  | nil : Obj.SimList [] []
  | cons (x y : Obj) (xs ys : List Obj) : Obj.Sim x y → Obj.SimList xs ys → Obj.SimList (x :: xs) (y :: ys)
end

theorem SimList.length_eq {xs ys : List Obj} (h : Obj.SimList xs ys) : xs.length = ys.length := by
  induction xs generalizing ys with
  | nil => cases h; rfl
  | cons x xs ih => cases h with | cons _ y _ ys' _ ht => simp [ih ht]

theorem SimList.append {a b c d : List Obj} (h1 : Obj.SimList a b) (h2 : Obj.SimList c d) :
    Obj.SimList (a ++ c) (b ++ d) := by
  induction a generalizing b with
  | nil => cases h1; exact h2
  | cons x xs ih => cases h1 with | cons _ y _ ys hx ht => exact .cons _ _ _ _ hx (ih ht)

theorem toArr_sim (cls : String) {x y : Obj} (h : Obj.Sim x y) :
    (x.toArr cls).isInst = (y.toArr cls).isInst ∧ (x.toArr cls).dtype = (y.toArr cls).dtype ∧
    (x.toArr cls).shape = (y.toArr cls).shape := by
  cases h <;> simp_all [Obj.toArr]

/-- a leaf predicate / leaf check that cannot tell such values apart -/
def RespectsSim (f : Obj → CState → CState × Verdict) : Prop :=
  ∀ x y st, Obj.Sim x y → f x st = f y st

def FlatRel : CState × FlatRes → CState × FlatRes → Prop
  | (s₁, .ok l₁ d₁), (s₂, .ok l₂ d₂) => s₁ = s₂ ∧ d₁ = d₂ ∧ Obj.SimList l₁ l₂
  | (s₁, .raised v₁), (s₂, .raised v₂) => s₁ = s₂ ∧ v₁ = v₂
  | _, _ => False

def FlatListRel : CState × FlatListRes → CState × FlatListRes → Prop
  | (s₁, .ok l₁ d₁), (s₂, .ok l₂ d₂) => s₁ = s₂ ∧ d₁ = d₂ ∧ Obj.SimList l₁ l₂
  | (s₁, .raised v₁), (s₂, .raised v₂) => s₁ = s₂ ∧ v₁ = v₂
  | _, _ => False

theorem wrapNode_rel (k : Kind) {p q : CState × FlatListRes} (h : FlatListRel p q) :
    FlatRel (wrapNode k p) (wrapNode k q) := by
  obtain ⟨s₁, r₁⟩ := p
  obtain ⟨s₂, r₂⟩ := q
  cases r₁ <;> cases r₂ <;> simp_all [FlatListRel, FlatRel, wrapNode]

mutual
theorem flat_sim (f : Obj → CState → CState × Verdict) (hf : RespectsSim f) (u : Bool) :
    ∀ (x y : Obj) (st : CState), Obj.Sim x y → FlatRel (flat f u x st) (flat f u y st)
  | x, y, st, h => by
    have h0 : (if u then f x st else (st, Verdict.F)) = (if u then f y st else (st, Verdict.F)) := by
      cases u
      · rfl
      · simp only [if_true]; exact hf x y st h
    rw [flat, flat, h0]
    generalize (if u then f y st else (st, Verdict.F)) = r
    obtain ⟨st', v⟩ := r
    cases v with
    | T => exact ⟨rfl, rfl, .cons _ _ _ _ h .nil⟩
    | ANN => exact ⟨rfl, rfl⟩
    | EXC e => exact ⟨rfl, rfl⟩
    | F =>
      cases h with
      | int n => exact ⟨rfl, rfl, .cons _ _ _ _ (.int n) .nil⟩
      | str s => exact ⟨rfl, rfl, .cons _ _ _ _ (.str s) .nil⟩
      | none => exact ⟨rfl, rfl, .nil⟩
      | «opaque» t => exact ⟨rfl, rfl, .cons _ _ _ _ (.opaque t) .nil⟩
      | arr c a b h1 h2 => exact ⟨rfl, rfl, .cons _ _ _ _ (.arr c a b h1 h2) .nil⟩
      | tuple xs ys hl => exact wrapNode_rel _ (flatList_sim f hf u xs ys st' hl)
      | list xs ys hl => exact wrapNode_rel _ (flatList_sim f hf u xs ys st' hl)
      | dict ks xs ys hl => exact wrapNode_rel _ (flatList_sim f hf u xs ys st' hl)
      | ntuple t xs ys hl => exact wrapNode_rel _ (flatList_sim f hf u xs ys st' hl)
      | custom t fault xs ys hl =>
        cases fault with
        | some e => exact ⟨rfl, rfl⟩
        | none => exact wrapNode_rel _ (flatList_sim f hf u xs ys st' hl)
theorem flatList_sim (f : Obj → CState → CState × Verdict) (hf : RespectsSim f) (u : Bool) :
    ∀ (xs ys : List Obj) (st : CState), Obj.SimList xs ys →
      FlatListRel (flatList f u xs st) (flatList f u ys st)
  | [], ys, st, h => by cases h; exact ⟨rfl, rfl, .nil⟩
  | x :: xs, ys, st, h => by
    cases h with
    | cons _ y _ ys' hx ht =>
      have h1 := flat_sim f hf u x y st hx
      rw [flatList, flatList]
      generalize flat f u x st = r₁ at h1
      generalize flat f u y st = r₂ at h1
      obtain ⟨s₁, a₁⟩ := r₁
      obtain ⟨s₂, a₂⟩ := r₂
      cases a₁ with
      | raised v₁ =>
        cases a₂ with
        | raised v₂ => exact h1
        | ok l₂ d₂ => exact h1.elim
      | ok l₁ d₁ =>
        cases a₂ with
        | raised v₂ => exact h1.elim
        | ok l₂ d₂ =>
          obtain ⟨hs, hd, hl⟩ := h1
          subst hs; subst hd
          dsimp only
          have h2 := flatList_sim f hf u xs ys' s₁ ht
          generalize flatList f u xs s₁ = q₁ at h2
          generalize flatList f u ys' s₁ = q₂ at h2
          obtain ⟨t₁, b₁⟩ := q₁
          obtain ⟨t₂, b₂⟩ := q₂
          cases b₁ with
          | raised w₁ =>
            cases b₂ with
            | raised w₂ => exact h2
            | ok _ _ => exact h2.elim
          | ok m₁ e₁ =>
            cases b₂ with
            | raised w₂ => exact h2.elim
            | ok m₂ e₂ =>
              obtain ⟨hs', hd', hl'⟩ := h2
              subst hs'; subst hd'
              exact ⟨rfl, rfl, SimList.append hl hl'⟩
end

theorem leafLoop_sim (sk : Skel) (f : Obj → CState → CState × Verdict) (hf : RespectsSim f)
    (S : Option String) : ∀ (xs ys : List Obj) (i : Nat) (st : CState), Obj.SimList xs ys →
      leafLoop sk f S xs i st = leafLoop sk f S ys i st
  | [], ys, i, st, h => by cases h; rfl
  | x :: xs, ys, i, st, h => by
    cases h with
    | cons _ y _ ys' hx ht =>
      simp only [leafLoop]
      cases S with
      | none =>
        dsimp only
        rw [hf x y st hx]
        generalize f y st = q
        obtain ⟨st2, v⟩ := q
        cases v <;> try rfl
        dsimp only
        exact leafLoop_sim sk f hf none xs ys' (i + 1) _ ht
      | some s =>
        dsimp only
        by_cases htp : st.tp.isSome = true
        · simp only [htp, if_true]
        · simp only [htp, if_false, Bool.false_eq_true]
          rw [hf x y _ hx]
          generalize f y { st with tp := some (i, s) } = q
          obtain ⟨st2, v⟩ := q
          cases v <;> try rfl
          exact leafLoop_sim sk f hf (some s) xs ys' (i + 1) _ ht

theorem RespectsSim_const : RespectsSim (fun _ s => (s, Verdict.T)) := fun _ _ _ _ => rfl

theorem pytreeCore_sim (sk : Skel) (f : Obj → CState → CState × Verdict) (hf : RespectsSim f)
    (leafAny : Bool) (S : Option String) (x y : Obj) (st : CState) (h : Obj.Sim x y) :
    pytreeCore sk f leafAny S x st = pytreeCore sk f leafAny S y st := by
  unfold pytreeCore
  have hflat := flat_sim f hf (!leafAny) x y { st with flatten := true } h
  generalize flat f (!leafAny) x { st with flatten := true } = r₁ at hflat
  generalize flat f (!leafAny) y { st with flatten := true } = r₂ at hflat
  obtain ⟨s₁, a₁⟩ := r₁
  obtain ⟨s₂, a₂⟩ := r₂
  cases a₁ with
  | raised v₁ =>
    cases a₂ with
    | raised v₂ => obtain ⟨hs, hv⟩ := hflat; subst hs; subst hv; rfl
    | ok _ _ => exact hflat.elim
  | ok l₁ d₁ =>
    cases a₂ with
    | raised _ => exact hflat.elim
    | ok l₂ d₂ =>
      obtain ⟨hs, hd, hl⟩ := hflat
      subst hs; subst hd
      have hc : RespectsSim (if leafAny = true then fun _ s => (s, Verdict.T) else f) := by
        split
        · exact RespectsSim_const
        · exact hf
      have key : ∀ st', leafLoop sk (if leafAny = true then fun _ s => (s, Verdict.T) else f) S l₁ 0 st' =
          leafLoop sk (if leafAny = true then fun _ s => (s, Verdict.T) else f) S l₂ 0 st' :=
        fun st' => leafLoop_sim sk _ hc S l₁ l₂ 0 st' hl
      simp only [key]

theorem pytreeInstancecheck_sim (sk : Skel) (f : Obj → CState → CState × Verdict)
    (hf : RespectsSim f) (leafAny : Bool) (S : Option String) (x y : Obj) (st : CState)
    (h : Obj.Sim x y) :
    pytreeInstancecheck sk f leafAny S x st = pytreeInstancecheck sk f leafAny S y st := by
  unfold pytreeInstancecheck
  cases h with
  | none => rfl
  | int n => rfl
  | str s => rfl
  | «opaque» t => rfl
  | arr c a b h1 h2 =>
    dsimp only
    rw [pytreeCore_sim sk f hf leafAny S _ _ _ (.arr c a b h1 h2)]
  | tuple xs ys hl =>
    dsimp only
    rw [pytreeCore_sim sk f hf leafAny S _ _ _ (.tuple xs ys hl)]
  | list xs ys hl =>
    dsimp only
    rw [pytreeCore_sim sk f hf leafAny S _ _ _ (.list xs ys hl)]
  | dict ks xs ys hl =>
    dsimp only
    rw [pytreeCore_sim sk f hf leafAny S _ _ _ (.dict ks xs ys hl)]
  | ntuple t xs ys hl =>
    dsimp only
    rw [pytreeCore_sim sk f hf leafAny S _ _ _ (.ntuple t xs ys hl)]
  | custom t fl xs ys hl =>
    dsimp only
    rw [pytreeCore_sim sk f hf leafAny S _ _ _ (.custom t fl xs ys hl)]

mutual
/-- **every leaf type**: values that differ only in array payloads are checked alike — same
    verdict, same resulting state -/
theorem checkL_sim (sk : Skel) : ∀ (l : LType) (x y : Obj) (st : CState), Obj.Sim x y →
    checkL sk l x st = checkL sk l y st
  | .any, x, y, st, h => by rw [checkL, checkL]
  | .int, x, y, st, h => by cases h <;> rfl
  | .str, x, y, st, h => by cases h <;> rfl
  | .noneT, x, y, st, h => by cases h <;> rfl
  | .barePytree, x, y, st, h => by rw [checkL, checkL]
  | .user acc faults, x, y, st, h => by cases h <;> rfl
  | .arr cls a, x, y, st, h => by
    obtain ⟨h1, h2, h3⟩ := toArr_sim cls h
    rw [checkL, checkL]
    unfold instancecheck
    rw [h1, h2, h3]
  | .tuple ts, x, y, st, h => by
    cases h with
    | tuple xs ys hl =>
      rw [checkL, checkL, SimList.length_eq hl]
      split
      · rfl
      · exact checkLs_sim sk ts xs ys st hl
    | ntuple t xs ys hl =>
      rw [checkL, checkL, SimList.length_eq hl]
      split
      · rfl
      · exact checkLs_sim sk ts xs ys st hl
    | int n => rfl
    | str s => rfl
    | none => rfl
    | «opaque» t => rfl
    | arr c a b h1 h2 => rfl
    | list xs ys hl => rfl
    | dict ks xs ys hl => rfl
    | custom t f xs ys hl => rfl
  | .union ts, x, y, st, h => by
    rw [checkL, checkL]
    exact checkLU_sim sk ts x y st h
  | .pytree l s, x, y, st, h => by
    unfold checkL
    exact pytreeInstancecheck_sim sk (checkL sk l) (fun a b st' hab => checkL_sim sk l a b st' hab) _ s x y st h
theorem checkLs_sim (sk : Skel) : ∀ (ts : List LType) (xs ys : List Obj) (st : CState),
    Obj.SimList xs ys → checkLs sk ts xs st = checkLs sk ts ys st
  | [], xs, ys, st, h => by rw [checkLs, checkLs]
  | t :: ts, xs, ys, st, h => by
    cases h with
    | nil => rfl
    | cons x y xs' ys' hx ht =>
      rw [checkLs, checkLs, checkL_sim sk t x y st hx]
      generalize checkL sk t y st = r
      obtain ⟨st1, v⟩ := r
      cases v <;> try rfl
      exact checkLs_sim sk ts xs' ys' st1 ht
theorem checkLU_sim (sk : Skel) : ∀ (ts : List LType) (x y : Obj) (st : CState),
    Obj.Sim x y → checkLU sk ts x st = checkLU sk ts y st
  | [], x, y, st, h => by rw [checkLU, checkLU]
  | t :: ts, x, y, st, h => by
    rw [checkLU, checkLU, checkL_sim sk t x y st h]
    generalize checkL sk t y st = r
    obtain ⟨st1, v⟩ := r
    cases v <;> try rfl
    exact checkLU_sim sk ts x y st1 h
end

end JV
