import JaxVerif.Properties.C20

#print axioms JV.C20_roundtrip
#print axioms JV.C20_accepts
#print axioms JV.C20_constructible
#print axioms JV.C20_generated_good
#print axioms JV.C20_reducer_must_carry
#print axioms JV.C20_by_value
#print axioms JV.C20_by_value_needs_reference
