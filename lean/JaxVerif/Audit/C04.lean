import JaxVerif.Properties.C04

#print axioms JV.C04_array_fail_restores
#print axioms JV.C04_array_exc_restores
#print axioms JV.C04_array_restores_all
#print axioms JV.C04_generated_catch
#print axioms JV.C04_exception_only_leaks
#print axioms JV.C04_array_idempotent
#print axioms JV.C04_pytree_fail_restores
#print axioms JV.C04_check_restores
#print axioms JV.C04_seq_idempotent
#print axioms JV.C04_pytree_idempotent
#print axioms JV.C04_source_pytree_rollback
#print axioms JV.C04_source_storage
