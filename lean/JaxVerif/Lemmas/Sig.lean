import JaxVerif.Model.Sig

namespace JV

theorem ofKind_append (k : PKind) (a b : List SParam) : ofKind k (a ++ b) = ofKind k a ++ ofKind k b := by
  simp [ofKind]

theorem ofKind_all (k : PKind) (l : List SParam) (h : ∀ p ∈ l, p.kind = k) : ofKind k l = l := by
  unfold ofKind
  rw [List.filter_eq_self]
  intro p hp
  simp [h p hp]

theorem ofKind_none (k k' : PKind) (l : List SParam) (h : ∀ p ∈ l, p.kind = k') (hne : k' ≠ k) :
    ofKind k l = [] := by
  unfold ofKind
  rw [List.filter_eq_nil_iff]
  intro p hp
  simp [h p hp, hne]

theorem splitSlash_params (l : List SParam) (rest : List Piece) :
    splitSlash (l.map Piece.param ++ Piece.slash :: rest) = some (l.map Piece.param, rest) := by
  induction l with
  | nil => rfl
  | cons p ps ih => simp [splitSlash, ih]

theorem splitSlash_none_params (l : List SParam) (rest : List Piece) (h : splitSlash rest = none) :
    splitSlash (l.map Piece.param ++ rest) = none := by
  induction l with
  | nil => simpa using h
  | cons p ps ih => simp [splitSlash, ih]

theorem asPosOnly_params (l : List SParam) (h : ∀ p ∈ l, p.kind = .posOnly) :
    asPosOnly (l.map Piece.param) = l := by
  induction l with
  | nil => rfl
  | cons p ps ih =>
    have hp : p.kind = .posOnly := h p (List.mem_cons_self ..)
    have : ({ p with kind := PKind.posOnly } : SParam) = p := by cases p; simp_all
    simp [asPosOnly, this, ih (fun q hq => h q (List.mem_cons_of_mem _ hq))]

theorem readRest_params (s : Bool) (l : List SParam) (rest : List Piece)
    (h : ∀ p ∈ l, p.kind = if s then .kwOnly else .posOrKw) :
    readRest s (l.map Piece.param ++ rest) = l ++ readRest s rest := by
  induction l with
  | nil => rfl
  | cons p ps ih =>
    have hp := h p (List.mem_cons_self ..)
    have : ({ p with kind := if s = true then PKind.kwOnly else PKind.posOrKw } : SParam) = p := by
      cases p; simp_all
    simp [readRest, this, ih (fun q hq => h q (List.mem_cons_of_mem _ hq))]

theorem splitSlash_rest_none (l : List Piece) (h : ∀ x ∈ l, x ≠ Piece.slash) : splitSlash l = none := by
  induction l with
  | nil => rfl
  | cons x xs ih =>
    have hx := h x (List.mem_cons_self ..)
    have := ih (fun y hy => h y (List.mem_cons_of_mem _ hy))
    cases x <;> simp_all [splitSlash]

/-- a signature in Python's canonical order, split by kind -/
structure CSig where
  pos : List SParam
  pok : List SParam
  vp : List SParam
  key : List SParam
  vk : List SParam

def CSig.toList (c : CSig) : List SParam := c.pos ++ c.pok ++ c.vp ++ c.key ++ c.vk

structure CSig.WF (c : CSig) : Prop where
  hpos : ∀ p ∈ c.pos, p.kind = .posOnly
  hpok : ∀ p ∈ c.pok, p.kind = .posOrKw
  hvp : ∀ p ∈ c.vp, p.kind = .varPos
  hkey : ∀ p ∈ c.key, p.kind = .kwOnly
  hvk : ∀ p ∈ c.vk, p.kind = .varKw
  vp1 : c.vp.length ≤ 1
  vk1 : c.vk.length ≤ 1

theorem CSig.ofKind_parts (c : CSig) (h : c.WF) :
    ofKind .posOnly c.toList = c.pos ∧ ofKind .posOrKw c.toList = c.pok ∧ ofKind .varPos c.toList = c.vp ∧
    ofKind .kwOnly c.toList = c.key ∧ ofKind .varKw c.toList = c.vk := by
  unfold CSig.toList
  simp only [ofKind_append]
  refine ⟨?_, ?_, ?_, ?_, ?_⟩
  · rw [ofKind_all _ _ h.hpos, ofKind_none _ _ _ h.hpok (by decide), ofKind_none _ _ _ h.hvp (by decide),
      ofKind_none _ _ _ h.hkey (by decide), ofKind_none _ _ _ h.hvk (by decide)]; simp
  · rw [ofKind_none _ _ _ h.hpos (by decide), ofKind_all _ _ h.hpok, ofKind_none _ _ _ h.hvp (by decide),
      ofKind_none _ _ _ h.hkey (by decide), ofKind_none _ _ _ h.hvk (by decide)]; simp
  · rw [ofKind_none _ _ _ h.hpos (by decide), ofKind_none _ _ _ h.hpok (by decide), ofKind_all _ _ h.hvp,
      ofKind_none _ _ _ h.hkey (by decide), ofKind_none _ _ _ h.hvk (by decide)]; simp
  · rw [ofKind_none _ _ _ h.hpos (by decide), ofKind_none _ _ _ h.hpok (by decide), ofKind_none _ _ _ h.hvp (by decide),
      ofKind_all _ _ h.hkey, ofKind_none _ _ _ h.hvk (by decide)]; simp
  · rw [ofKind_none _ _ _ h.hpos (by decide), ofKind_none _ _ _ h.hpok (by decide), ofKind_none _ _ _ h.hvp (by decide),
      ofKind_none _ _ _ h.hkey (by decide), ofKind_all _ _ h.hvk]; simp

/-- the part of the rendered list after the positional-only group -/
def renderTail (c : CSig) (extra : List SParam) : List Piece :=
  c.pok.map .param ++
  (match c.vp with
   | [p] => [.starParam p]
   | _ => if (c.key ++ extra).isEmpty then [] else [.star]) ++
  (c.key ++ extra).map .param ++
  (match c.vk with
   | [p] => [.dstarParam p]
   | _ => [])

theorem renderTail_no_slash (c : CSig) (extra : List SParam) : ∀ x ∈ renderTail c extra, x ≠ Piece.slash := by
  intro x hx
  unfold renderTail at hx
  simp only [List.mem_append, List.mem_map] at hx
  rcases hx with ((⟨p, _, rfl⟩ | hx) | ⟨p, _, rfl⟩) | hx
  · simp
  · split at hx
    · simp at hx; simp [hx]
    · split at hx <;> simp at hx; simp [hx]
  · simp
  · split at hx <;> simp at hx; simp [hx]

theorem readRest_tail (c : CSig) (h : c.WF) (extra : List SParam) (he : ∀ p ∈ extra, p.kind = .kwOnly) :
    readRest false (renderTail c extra) = c.pok ++ c.vp ++ (c.key ++ extra) ++ c.vk := by
  have hke : ∀ p ∈ c.key ++ extra, p.kind = if true = true then PKind.kwOnly else PKind.posOrKw := by
    intro p hp
    rcases List.mem_append.mp hp with hp | hp
    · simpa using h.hkey p hp
    · simpa using he p hp
  have hvkr : ∀ s, readRest s (match c.vk with | [p] => [Piece.dstarParam p] | _ => []) = c.vk := by
    intro s
    match hvk : c.vk, h.vk1, h.hvk with
    | [], _, _ => rfl
    | [p], _, hk =>
      have : p.kind = .varKw := hk p (by simp)
      have e : ({ p with kind := PKind.varKw } : SParam) = p := by cases p; simp_all
      simp [readRest, e]
    | _ :: _ :: _, hl, _ => simp at hl
  unfold renderTail
  rw [List.append_assoc, List.append_assoc, readRest_params false c.pok _ (by simpa using h.hpok)]
  match hvp : c.vp, h.vp1, h.hvp with
  | [], _, _ =>
    by_cases hk : (c.key ++ extra).isEmpty = true
    · have hnil : c.key ++ extra = [] := List.isEmpty_iff.mp hk
      simp only [hk, if_true, hnil, List.map_nil, List.nil_append, List.append_nil, List.isEmpty_nil]
      rw [hvkr]
    · simp only [hk, Bool.false_eq_true, if_false, List.cons_append, List.nil_append, readRest]
      rw [readRest_params true _ _ hke, hvkr]
      simp
  | [p], _, hk =>
    have : p.kind = .varPos := hk p (by simp)
    have e : ({ p with kind := PKind.varPos } : SParam) = p := by cases p; simp_all
    simp only [List.cons_append, List.nil_append, readRest, e]
    rw [readRest_params true _ _ hke, hvkr]
    simp
  | _ :: _ :: _, hl, _ => simp at hl

/-- **the synthesised `def` has the signature of the original** (plus the fresh keyword-only output
    parameter, placed with the keyword-only group): reading the rendered parameter list back the way
    Python does gives every parameter with its own name, kind and default-presence, in order -/
theorem parse_render (c : CSig) (h : c.WF) (extra : List SParam) (he : ∀ p ∈ extra, p.kind = .kwOnly) :
    parsePieces (renderSig c.toList extra) = c.pos ++ c.pok ++ c.vp ++ (c.key ++ extra) ++ c.vk := by
  obtain ⟨e1, e2, e3, e4, e5⟩ := c.ofKind_parts h
  have hr : renderSig c.toList extra =
      (if c.pos.isEmpty then [] else c.pos.map Piece.param ++ [Piece.slash]) ++ renderTail c extra := by
    simp only [renderSig, renderTail, e1, e2, e3, e4, e5, List.append_assoc]
    rfl
  rw [hr]
  unfold parsePieces
  by_cases hp : c.pos.isEmpty = true
  · have hnil : c.pos = [] := List.isEmpty_iff.mp hp
    simp only [hp, if_true, List.nil_append]
    rw [splitSlash_rest_none _ (renderTail_no_slash c extra), readRest_tail c h extra he, hnil]
    simp
  · simp only [hp, Bool.false_eq_true, if_false, List.append_assoc, List.cons_append, List.nil_append]
    rw [splitSlash_params]
    simp only
    rw [asPosOnly_params _ h.hpos, readRest_tail c h extra he]
    simp

end JV
