import JaxVerif.Properties.C10

#print axioms JV.C10_erase
#print axioms JV.C10_count
#print axioms JV.C10_import_count
#print axioms JV.C10_import_position
#print axioms JV.C10_positions
#print axioms JV.C10_generated_good
#print axioms JV.C10_source_visitors
#print axioms JV.C10_source_to_code
