/-
The slices the model of `_check_shape` uses (`take` / `drop`), expressed through normalised Python slice
bounds (`sliceSpec`, Model/SourceDsl.lean). Proved once; `Properties/C01.lean` shows on every run that the
plan translated from the source computes exactly these bounds. Core Lean only.
-/
import JaxVerif.Model.SourceDsl

namespace JV

theorem sliceSpec_lists {α β : Type} (dims : List α) (shape : List β) (i : Nat)
    (hi : i < dims.length) (hm : dims.length ≤ shape.length + 1) :
    let v := sliceSpec dims.length shape.length i
    let s := dims.length - i - 1
    sliceNat dims v.prefixDims.1 v.prefixDims.2 = dims.take i ∧
    sliceNat shape v.prefixShape.1 v.prefixShape.2 = shape.take i ∧
    (match v.suffixDims, v.suffixShape with
     | some sd, some ss =>
       sliceNat dims sd.1 sd.2 = dims.drop (i + 1) ∧ sliceNat shape ss.1 ss.2 = shape.drop (shape.length - s)
     | none, none => dims.drop (i + 1) = [] ∧ shape.drop (shape.length - s) = []
     | _, _ => False) ∧
    sliceNat shape v.midBound.1 v.midBound.2 = (shape.drop i).take (shape.length - i - s) ∧
    v.midFirst = v.midBound ∧ v.varIndex = i := by
  intro v s
  refine ⟨by simp [v, sliceSpec, sliceNat], by simp [v, sliceSpec, sliceNat], ?_, ?_, rfl, rfl⟩
  · by_cases hs : dims.length - i - 1 = 0
    · have h1 : dims.length ≤ i + 1 := by omega
      simp [v, s, sliceSpec, hs, List.drop_eq_nil_iff, h1]
    · simp only [v, s, sliceSpec, hs, if_false, sliceNat]
      refine ⟨?_, ?_⟩
      · rw [List.take_of_length_le]; simp
      · rw [List.take_of_length_le]; simp
  · simp only [v, s, sliceSpec, sliceNat]
    congr 1
    omega

end JV
