import JaxVerif.Properties.C14

#print axioms JV.C14_order
#print axioms JV.C14_ellipsis
#print axioms JV.C14_whitespace
#print axioms JV.C14_whitespace_parse
#print axioms JV.C14_doc
#print axioms JV.C14_illegal_comma
#print axioms JV.C14_illegal_trailing_hash
#print axioms JV.C14_illegal_ellipsis_modifiers
#print axioms JV.C14_illegal_repeated
#print axioms JV.C14_illegal_modifier
#print axioms JV.C14_illegal_two_variadics
#print axioms JV.C14_concat
#print axioms JV.C14_source_loop_body
#print axioms JV.C14_source_parser
#print axioms JV.C14_source_spec
#print axioms JV.C14_source_header
