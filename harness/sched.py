"""Deterministic cooperative scheduler for real Python threads, driven by sys.settrace.

Exactly one worker thread runs at a time. A worker reaches a *yield point* at every traced line of
the chosen source files (jaxtyping/_storage.py, or every jaxtyping file); there the scheduler may
hand control to another worker according to the schedule: a list of segments (tid, budget), meaning
"thread tid runs for `budget` yield points" (budget None = until it finishes). When the schedule
is exhausted the remaining threads run to completion in tid order. No source hook is needed."""
from __future__ import annotations

import sys
import threading


class Deadlock(Exception):
    pass


class Scheduler:
    def __init__(self, files, workloads, schedule, timeout=60.0, functions=None, contexts=None, raw_threads=False, opcodes=False):
        """functions: optional {filename: set of function names}; lines of those functions are yield points
        too. contexts: optional list of contextvars.Context copies, one per worker, to run the workload in
        (threads started with context propagation: asyncio.to_thread, copy_context().run on a pool thread)"""
        self.functions = functions or {}
        # opcodes: a set of (file, line): on these lines of the chosen FILES every bytecode instruction is a yield point (a
        # read-modify-write written on one source line, `n += 1`, can be split)
        self.opcodes = opcodes        # falsy, or a set of (file, line)
        self.hot_hits = []            # for a solo run: the indices of the yield points that are bytecodes of hot lines
        # workers started with `_thread.start_new_thread` (what C extensions and some servers do): alive, but not
        # listed by `threading.enumerate()`
        self.raw_threads = raw_threads
        self.contexts = contexts
        self.files = {f for f in files}
        self.workloads = workloads
        self.n = len(workloads)
        self.schedule = list(schedule) + [(t, None) for t in range(self.n)]
        self.timeout = timeout
        self.sems = [threading.Semaphore(0) for _ in range(self.n)]
        self.done = [False] * self.n
        self.results = [None] * self.n
        self.points = [0] * self.n
        self.seg = -1
        self.count = 0
        self.tl = threading.local()
        self.switches = 0
        self.failed = None

    # --- tracing
    def _global(self, frame, event, arg):
        if event == "call":
            fn = frame.f_code.co_filename
            if fn in self.files and self.opcodes:
                frame.f_trace_opcodes = True
                return self._local_op
            if fn in self.files or frame.f_code.co_name in self.functions.get(fn, ()):
                return self._local
        return None

    def _local(self, frame, event, arg):
        if event == "line":
            self._yield_point()
        return self._local

    def _local_op(self, frame, event, arg):
        # every line is a yield point as usual; on the "hot" lines (a set of (file, line)) every bytecode is one as well
        if event == "line":
            self._yield_point()
            self.hot_hits.append(None)
        elif event == "opcode" and (frame.f_code.co_filename, frame.f_lineno) in self.opcodes:
            self._yield_point()
            self.hot_hits.append(self.points[self.tl.tid])
        return self._local_op

    def _yield_point(self):
        tid = self.tl.tid
        self.points[tid] += 1
        if self.seg >= len(self.schedule):
            return
        seg_tid, budget = self.schedule[self.seg]
        if seg_tid != tid or budget is None:
            return
        self.count += 1
        if self.count >= budget:
            self._switch(tid, finished=False)

    # --- switching
    def _next(self):
        while True:
            self.seg += 1
            self.count = 0
            if self.seg >= len(self.schedule):
                return None
            t = self.schedule[self.seg][0]
            if not self.done[t]:
                return t

    def _switch(self, tid, finished):
        nxt = self._next()
        while nxt == tid and finished:
            nxt = self._next()
        if nxt is None or nxt == tid:
            return
        self.switches += 1
        self.sems[nxt].release()
        if not finished:
            if not self.sems[tid].acquire(timeout=self.timeout):
                self.failed = f"thread {tid} was never resumed"
                raise Deadlock(self.failed)

    def _worker(self, tid):
        self.tl.tid = tid
        if not self.sems[tid].acquire(timeout=self.timeout):
            self.failed = f"thread {tid} was never started"
            return
        sys.settrace(self._global)
        try:
            if self.contexts is not None:
                self.results[tid] = self.contexts[tid].run(self.workloads[tid])
            else:
                self.results[tid] = self.workloads[tid]()
        except Deadlock:
            self.results[tid] = ("DEADLOCK",)
        except BaseException as e:  # noqa: BLE001 - the workload's own failure is an observation
            self.results[tid] = ("RAISED", type(e).__name__, str(e)[:300])
        finally:
            sys.settrace(None)
            self.done[tid] = True
            try:
                self._switch(tid, finished=True)
            except Deadlock:
                pass

    def _run_raw(self):
        import _thread
        import time

        fin = [threading.Event() for _ in range(self.n)]

        def boot(t):
            try:
                self._worker(t)
            finally:
                fin[t].set()

        for t in range(self.n):
            _thread.start_new_thread(boot, (t,))
        first = self._next()
        if first is not None:
            self.sems[first].release()
        deadline = time.time() + self.timeout
        for ev in fin:
            ev.wait(max(0.0, deadline - time.time()))
        if not all(ev.is_set() for ev in fin):
            self.failed = self.failed or "threads still alive after the timeout"
            for s_ in self.sems:
                s_.release()
        return self.results

    def run(self):
        if self.raw_threads:
            return self._run_raw()
        threads = [threading.Thread(target=self._worker, args=(t,), daemon=True) for t in range(self.n)]
        for th in threads:
            th.start()
        first = self._next()
        if first is not None:
            self.sems[first].release()
        for th in threads:
            th.join(self.timeout)
        if any(th.is_alive() for th in threads):
            self.failed = self.failed or "threads still alive after the timeout"
            # let blocked threads go so that the process can exit
            for s in self.sems:
                s.release()
        return self.results
