import JaxVerif.Properties.C06

#print axioms JV.C06_kinds
#print axioms JV.C06_noninterference
#print axioms JV.C06_generated
#print axioms JV.C06_schedule_independent
#print axioms JV.C06_sensitive
#print axioms JV.C06_no_other_shared_state
#print axioms JV.C06_source_storage
#print axioms JV.C06_source_cells
