/-
Executable model of how an array annotation is *built*:
  `_MetaAbstractDtype.__getitem__`, `_make_array`, `_make_array_cached` (after the parsing loop,
  which is Model/Parse.lean), `_check_scalar`, and of the copyreg reducer
  `_pickle_array_annotation` / `_unpickle_array_annotation` (jaxtyping/_array_types.py).
Core Lean only.
-/
import JaxVerif.Model.Parse

namespace JV

/-- the Python / NumPy scalar types `_make_array_cached` treats specially -/
inductive ScalarTy
  | pyBool | pyInt | pyFloat | pyComplex | npBool | npGeneric | npNumber
  deriving DecidableEq, Repr

/-- the dtype-name prefix `_check_scalar` is called with -/
def ScalarTy.pre : ScalarTy → List Char
  | .pyBool => "bool".toList
  | .pyInt => "int".toList
  | .pyFloat => "float".toList
  | .pyComplex => "complex".toList
  | .npBool => "bool".toList
  | .npGeneric => []
  | .npNumber => []

/-- a dtype category (`AbstractDtype` subclass): its name and its `dtypes` -/
structure Category where
  name : String
  dtypes : DtypeSpec
  deriving Repr, DecidableEq

/-- a made array annotation: the class attributes `_make_array` sets -/
structure Made where
  cat : Category            -- `.dtype`: the category it was *written* with (the outer one)
  arrayType : String        -- `.array_type`; "" stands for `typing.Any`
  dimStr : List Char        -- `.dim_str`
  dtypes : DtypeSpec        -- `.dtypes`: what the check compares against
  dims : List PDim          -- `.dims`
  iv : Option Nat           -- `.index_variadic`
  deriving Repr, DecidableEq

/-- what `_make_array` can be handed as the array type -/
inductive Atom
  | cls (name : String)     -- an ordinary class
  | any                     -- `typing.Any`
  | scalar (s : ScalarTy)
  | made (m : Made)         -- another array annotation (nesting)
  deriving Repr, DecidableEq

/-- array-type expressions `__getitem__` understands (`typing.get_args` flattens unions) -/
inductive ATy
  | atom (a : Atom)
  | union (as : List Atom)          -- `Union[...]` / `X | Y`
  | tvBoundAtom (a : Atom)         -- `TypeVar("T", bound=a)`
  | tvBoundUnion (as : List Atom)  -- `TypeVar("T", bound=Union[...])`
  | tvConstr (as : List Atom)      -- `TypeVar("T", a, b, ...)`
  | tvFree                         -- `TypeVar("T")`
  deriving Repr, DecidableEq

def PDim.isVariadic : PDim → Bool
  | .anonVar => true
  | .namedVar _ _ _ => true
  | _ => false

/-- `_check_scalar(dtype, dtypes, dims)` -/
def checkScalar (pre : List Char) (dtypes : DtypeSpec) (dims : List PDim) : Bool :=
  dims.all PDim.isVariadic &&
    (match dtypes with
     | .any => true
     | .names l => l.any (fun d => pre.isPrefixOf d.toList))

/-- the dtype part of nesting: `dtypes` of the outer category against `array_type.dtypes`;
    `none` = "no overlapping dtypes" (ValueError) -/
def DtypeSpec.inter (outer inner : DtypeSpec) : Option DtypeSpec :=
  match outer, inner with
  | .any, i => some i
  | .names l, .any => some (.names l)
  | .names l, .names l' =>
    let r := l.filter (fun x => l'.contains x)
    if r.isEmpty then none else some (.names r)

inductive MakeOut
  | made (m : Made)
  | scalar (s : ScalarTy)
  | notMade
  | valueError
  deriving Repr, DecidableEq

/-- `_make_array(x, dim_str, dtype)` (the parsing loop first, then the scalar ladder, then nesting) -/
def makeArray (cat : Category) (a : Atom) (dimStr : List Char) : MakeOut :=
  match parseSpec dimStr with
  | none => .valueError
  | some (dims, iv) =>
    match a with
    | .scalar s => if checkScalar s.pre cat.dtypes dims then .scalar s else .notMade
    | .made inner =>
      match DtypeSpec.inter cat.dtypes inner.dtypes with
      | none => .valueError
      | some dt =>
        match inner.iv, iv with
        | some _, some _ => .valueError
        | some i, none =>
          .made { cat := cat, arrayType := inner.arrayType, dimStr := dimStr ++ ' ' :: inner.dimStr,
                  dtypes := dt, dims := dims ++ inner.dims, iv := some (i + dims.length) }
        | none, iv =>
          .made { cat := cat, arrayType := inner.arrayType, dimStr := dimStr ++ ' ' :: inner.dimStr,
                  dtypes := dt, dims := dims ++ inner.dims, iv := iv }
    | .cls c =>
      .made { cat := cat, arrayType := c, dimStr := dimStr, dtypes := cat.dtypes, dims := dims, iv := iv }
    | .any =>
      .made { cat := cat, arrayType := "", dimStr := dimStr, dtypes := cat.dtypes, dims := dims, iv := iv }

/-- `str.strip()` on ASCII -/
def stripLeft : List Char → List Char
  | [] => []
  | c :: cs => if isWs c then stripLeft cs else c :: cs

def stripWs (s : List Char) : List Char := (stripLeft (stripLeft s).reverse).reverse

/-- one alternative of the result of `__getitem__` -/
inductive Alt
  | made (m : Made)
  | scalar (s : ScalarTy)
  deriving Repr, DecidableEq

inductive GetOut
  | valueError
  | alts (l : List Alt)     -- one alternative: the annotation itself; several: `Union[...]`
  deriving Repr, DecidableEq

def MakeOut.alt? : MakeOut → Option Alt
  | .made m => some (.made m)
  | .scalar s => some (.scalar s)
  | _ => none

def MakeOut.isError : MakeOut → Bool
  | .valueError => true
  | _ => false

/-- the union branch of `__getitem__`: make every member, drop the `_not_made` ones -/
def getitemAtoms (cat : Category) (as : List Atom) (s : List Char) : GetOut :=
  let outs := as.map (fun a => makeArray cat a s)
  if outs.any MakeOut.isError then .valueError
  else
    match outs.filterMap MakeOut.alt? with
    | [] => .valueError
    | l => .alts l

/-- `Dtype[array_type, dim_str]` for a string `dim_str` -/
def getitem (cat : Category) (t : ATy) (dimStr : List Char) : GetOut :=
  let s := stripWs dimStr
  match t with
  | .atom a => getitemAtoms cat [a] s
  | .tvBoundAtom a => getitemAtoms cat [a] s
  | .union as => getitemAtoms cat as s
  | .tvBoundUnion as => getitemAtoms cat as s
  | .tvConstr as => getitemAtoms cat as s
  | .tvFree => getitemAtoms cat [.any] s

/-- the part of a made annotation a check looks at -/
structure Core where
  arrayType : String
  dtypes : DtypeSpec
  dims : List PDim
  iv : Option Nat
  deriving Repr, DecidableEq

def Made.core (m : Made) : Core := ⟨m.arrayType, m.dtypes, m.dims, m.iv⟩

/-! ### pickling -/

/-- what the reducer hands to pickle -/
structure Reduced where
  cat : Category
  arrayType : String
  dimStr : List Char
  dtypes : Option DtypeSpec
  deriving Repr, DecidableEq

/-- `_pickle_array_annotation`; `carriesDtypes` = the reducer records the effective dtypes when
    they differ from the category's own (read from the source by the translator) -/
def reduce (carriesDtypes : Bool) (m : Made) : Reduced :=
  { cat := m.cat, arrayType := m.arrayType, dimStr := m.dimStr,
    dtypes :=
      if carriesDtypes then
        (match m.dtypes with
         | .any => none
         | d => if d = m.cat.dtypes then none else some d)
      else none }

/-- `_unpickle_array_annotation` / `dtype.__getitem__((array_type, dim_str))` in the loading process -/
def rebuild (r : Reduced) : GetOut :=
  let a : Atom := if r.arrayType = "" then .any else .cls r.arrayType
  match getitem r.cat (.atom a) r.dimStr with
  | .alts [.made m] =>
    (match r.dtypes with
     | none => .alts [.made m]
     | some d => .alts [.made { m with dtypes := d }])
  | o => o

/-! ### pickling by value -/

/-- Pickling an annotation class *by value* (cloudpickle on the dynamically created class; any
    route that does not go through the copyreg reducer): every class attribute travels on its own.
    The three identity-compared sentinels (any dtype, anonymous axis, anonymous multi-axis) come
    back as themselves only if they pickle as references to their module-level names
    (`byRef`, read from the source by the translator); otherwise as fresh objects that no `is`
    comparison recognises — `none`: an annotation the check cannot interpret. -/
def byValueDim (byRef : Bool) : PDim → Option PDim
  | .anon => if byRef then some .anon else none
  | .anonVar => if byRef then some .anonVar else none
  | d => some d

def byValueDtypes (byRef : Bool) : DtypeSpec → Option DtypeSpec
  | .any => if byRef then some .any else none
  | d => some d

def byValue (byRef : Bool) (m : Made) : Option Made :=
  match m.dims.mapM (byValueDim byRef), byValueDtypes byRef m.dtypes with
  | some dims, some dt => some { m with dims := dims, dtypes := dt }
  | _, _ => none

def GetOut.single? : GetOut → Option Made
  | .alts [.made m] => some m
  | _ => none

def MakeOut.made? : MakeOut → Option Made
  | .made m => some m
  | _ => none

end JV
