"""(T1) translator: reads the *current* Python source of jaxtyping with `ast` and regenerates
`lean/JaxVerif/Generated/*.lean`, the facts the theorems are stated against.

An unrecognised construct is emitted as `unknown` (never guessed): the dependent `decide`
obligation then fails and the check proceeds to its failing-input search.
"""
from __future__ import annotations

import ast
import json
import os

from common import GEN, REPO, write_if_changed

SRC = os.path.join(REPO, "jaxtyping")


def parse(name):
    path = os.path.join(SRC, name)
    with open(path) as fh:
        return ast.parse(fh.read(), filename=path)


def find_def(tree, *path):
    """find nested FunctionDef/ClassDef by names"""
    node = tree
    for nm in path:
        found = None
        for ch in ast.walk(node) if node is tree else ast.iter_child_nodes(node):
            if isinstance(ch, (ast.FunctionDef, ast.ClassDef, ast.AsyncFunctionDef)) and ch.name == nm:
                found = ch
                break
        if found is None:
            # one more level: search deeper
            for ch in ast.walk(node):
                if isinstance(ch, (ast.FunctionDef, ast.ClassDef, ast.AsyncFunctionDef)) and ch.name == nm:
                    found = ch
                    break
        if found is None:
            return None
        node = found
    return node


def call_name(node):
    if isinstance(node, ast.Call):
        f = node.func
        if isinstance(f, ast.Name):
            return f.id
        if isinstance(f, ast.Attribute):
            return f.attr
    return None


def calls_in(nodes, name):
    out = []
    for n in nodes:
        for ch in ast.walk(n):
            if call_name(ch) == name:
                out.append(ch)
    return out


def handler_class(h: ast.ExceptHandler):
    if h.type is None:
        return "BaseException"
    if isinstance(h.type, ast.Name):
        return h.type.id
    if isinstance(h.type, ast.Tuple):
        return "(" + ",".join(getattr(e, "id", "?") for e in h.type.elts) + ")"
    return "?"


# --------------------------------------------------------------------------- skeleton facts


def rollback_fact(fn: ast.FunctionDef, inner_call: str):
    """The try around `inner_call` inside `fn`: which class the handler catches, whether it
    restores all four memos from the snapshot and re-raises; and whether the False path
    restores too."""
    fact = {"catch": "unknown", "restores_four": False, "reraises": False, "false_path_restores": False}
    if fn is None:
        return fact
    for node in ast.walk(fn):
        if isinstance(node, ast.Try) and calls_in(node.body, inner_call):
            for h in node.handlers:
                cls = handler_class(h)
                sets = calls_in(h.body, "set_shape_memo")
                if sets:
                    fact["catch"] = {"Exception": "exceptionOnly", "BaseException": "baseException"}.get(cls, "unknown")
                    fact["restores_four"] = all(
                        len(c.args) == 4 and all(isinstance(a, ast.Name) and a.id.endswith("_bak") for a in c.args)
                        for c in sets
                    )
                    fact["reraises"] = any(isinstance(s, ast.Raise) and s.exc is None for s in h.body)
            break
    # False path: an `if` after the try whose else/then branch calls set_shape_memo with 4 baks
    for node in ast.walk(fn):
        if isinstance(node, ast.If):
            for branch in (node.body, node.orelse):
                sets = calls_in(branch, "set_shape_memo")
                rets = [s for s in branch if isinstance(s, ast.Return)]
                if sets and rets and all(len(c.args) == 4 for c in sets):
                    fact["false_path_restores"] = True
    # snapshot copies
    copies = 0
    for node in ast.walk(fn):
        if isinstance(node, ast.Assign) and len(node.targets) == 1 and isinstance(node.targets[0], ast.Name):
            if node.targets[0].id.endswith("_bak") and call_name(node.value) == "copy":
                copies += 1
    fact["snapshots"] = copies
    return fact


def storage_kinds():
    """every module-level assignment of jaxtyping/_storage.py whose value is a call:
    `threading.local()` -> threadLocal, anything else -> processGlobal"""
    tree = parse("_storage.py")
    cells = {}
    for node in tree.body:
        if isinstance(node, ast.Assign) and len(node.targets) == 1 and isinstance(node.targets[0], ast.Name):
            nm = node.targets[0].id
            v = node.value
            if isinstance(v, ast.Call):
                f = v.func
                if isinstance(f, ast.Attribute) and f.attr == "local" and isinstance(f.value, ast.Name) and f.value.id == "threading":
                    cells[nm] = "threadLocal"
                else:
                    cells[nm] = "processGlobal"
            elif isinstance(v, (ast.Dict, ast.List, ast.Set)):
                cells[nm] = "processGlobal"
    # which cell each accessor function touches
    users = {}
    for node in tree.body:
        if isinstance(node, ast.FunctionDef):
            used = sorted({n.id for n in ast.walk(node) if isinstance(n, ast.Name) and n.id in cells})
            if used:
                users[node.name] = used
    return cells, users


def lean_str(s: str) -> str:
    return json.dumps(s, ensure_ascii=True)


def lean_list(xs) -> str:
    return "[" + ", ".join(xs) + "]"


def lean_bool(b) -> str:
    return "true" if b else "false"


def run():
    facts = {}
    arr = parse("_array_types.py")
    pyt = parse("_pytree_type.py")
    facts["array_rollback"] = rollback_fact(find_def(arr, "_MetaAbstractArray", "__instancecheck_str__"), "_check_shape")
    facts["pytree_rollback"] = rollback_fact(find_def(pyt, "_MetaPyTree", "__instancecheck__"), "_check")
    cells, users = storage_kinds()
    facts["storage_cells"] = cells
    facts["storage_users"] = users

    for extra in EXTRA_EXTRACTORS:
        extra(facts)

    render(facts)
    return facts


EXTRA_EXTRACTORS = []


def catch_lean(c):
    return {"exceptionOnly": "some .exceptionOnly", "baseException": "some .baseException"}.get(c, "none")


def render(facts):
    ar, pr = facts["array_rollback"], facts["pytree_rollback"]
    txt = f"""/- GENERATED by harness/extract.py from {SRC} on every run. Do not edit. -/
import JaxVerif.Model.Core

namespace JV.Generated

/-- class caught by the handler around `_check_shape` that puts the snapshot back
    (`none` = not recognised) -/
def arrayCatch : Option Catch := {catch_lean(ar['catch'])}
def arrayRestoresFour : Bool := {lean_bool(ar['restores_four'] and ar['snapshots'] == 4)}
def arrayReraises : Bool := {lean_bool(ar['reraises'])}
def arrayFalsePathRestores : Bool := {lean_bool(ar['false_path_restores'])}

/-- the same four facts for `_MetaPyTree.__instancecheck__` around `cls._check` -/
def pytreeCatch : Option Catch := {catch_lean(pr['catch'])}
def pytreeRestoresFour : Bool := {lean_bool(pr['restores_four'] and pr['snapshots'] == 4)}
def pytreeReraises : Bool := {lean_bool(pr['reraises'])}
def pytreeFalsePathRestores : Bool := {lean_bool(pr['false_path_restores'])}

end JV.Generated
"""
    write_if_changed(os.path.join(GEN, "Rollback.lean"), txt)

    cells = facts["storage_cells"]
    rows = ", ".join(f"({lean_str(k)}, {'true' if v == 'threadLocal' else 'false'})" for k, v in sorted(cells.items()))
    txt = f"""/- GENERATED by harness/extract.py from {SRC}/_storage.py on every run. Do not edit. -/
namespace JV.Generated

/-- every module-level mutable cell of `_storage.py` with `true` iff it is a `threading.local()` -/
def storageCells : List (String × Bool) := [{rows}]

end JV.Generated
"""
    write_if_changed(os.path.join(GEN, "Storage.lean"), txt)
    for r in EXTRA_RENDERERS:
        r(facts)


EXTRA_RENDERERS = []


if __name__ == "__main__":
    print(json.dumps(run(), indent=1, default=str))
