/-
A small imperative language for the per-axis body of the dim-string parser (the `for index, elem in
enumerate(dim_str.split())` loop of `_make_array_cached`, jaxtyping/_array_types.py). The translator
(harness/translate.py) turns the current Python source of that loop body into a term of this language
(`Generated/ParserCode.lean`); `Properties/C14.lean` proves, on every run, that running the translated
code on ANY token is one step of the hand-written parser model (`parseTok` + the multi-axis index
bookkeeping of `parseToks`). Anything the translator does not recognise becomes `.unknown`, which
crashes, so the proof fails rather than silently passing. Core Lean only.
-/
import JaxVerif.Model.Parse

namespace JV

/-! the features of a token the loop body can test; kept as named functions so that the translated code and the
    model mention literally the same terms -/
def fComma (e : List Char) : Bool := e.contains ','
def fParen (e : List Char) : Bool := e.contains '('
def fEndsHash (e : List Char) : Bool := e.getLast? == some '#'
def fHasEll (e : List Char) : Bool := hasSub ['.', '.', '.'] e
def fEqEll (e : List Char) : Bool := e == ['.', '.', '.']
def fLenZero (e : List Char) : Bool := e.isEmpty
def fCountEq1 (e : List Char) : Bool := countEq e == 1
def fIsIdent (e : List Char) : Bool := isIdentifier e

inductive PFlag | b | v | a | t            -- broadcastable, variadic, anonymous, treepath
  deriving DecidableEq, Repr

inductive AxKind | named | fixed | symbolic   -- `_DimType`
  deriving DecidableEq, Repr

def AxKind.same : AxKind → AxKind → Bool
  | .named, .named => true
  | .fixed, .fixed => true
  | .symbolic, .symbolic => true
  | _, _ => false

/-- boolean expressions of the loop body -/
inductive PCond
  | hasComma            -- `"," in elem`
  | hasParen            -- `"(" in elem`
  | endsHash            -- `elem.endswith("#")`
  | hasEllipsis         -- `"..." in elem`
  | eqEllipsis          -- `elem == "..."`
  | flag (f : PFlag)    -- `broadcastable` / `variadic` / `anonymous` / `treepath`
  | ivSet               -- `index_variadic is not None`
  | kindIs (k : AxKind)  -- `dim_type is _DimType.<k>`
  | lenZero             -- `len(elem) == 0`
  | firstIs (c : Char)  -- `first_char == "<c>"`, `first_char` having just been read from `elem[0]`
  | countEqOne          -- `elem.count("=") == 1`
  | isIdent             -- `elem.isidentifier()`
  | not (c : PCond)
  | and (c d : PCond)   -- short-circuit
  | or (c d : PCond)    -- short-circuit
  | unknown
  deriving Repr

/-- what `elem` is replaced by at the end -/
inductive PCtor | fixed | anonVar | anon | namedVar | named | sym
  deriving DecidableEq, Repr

/-- statements; sequencing is a constructor so that the interpreter is structurally recursive -/
inductive PStmt
  | skip
  | seq (s₁ s₂ : PStmt)
  | ite (c : PCond) (t e : PStmt)
  | raise                      -- `raise ValueError(...)`
  | setFlag (f : PFlag) (val : Bool)
  | setKind (k : AxKind)
  | dropFirst                  -- `elem = elem[1:]`
  | afterEq                    -- `_, elem = elem.split("=")`
  | tryInt (onErr onOk : PStmt) -- `try: elem = int(elem)  except ValueError: onErr  else: onOk`
  | loop (body : PStmt)        -- `while True: body`
  | brk                        -- `break`
  | setIv                      -- `index_variadic = index`
  | mk (c : PCtor)             -- `elem = _FixedDim(elem, broadcastable)` etc.
  | append                     -- `dims.append(elem)`
  | unknown
  deriving Repr

structure PSt where
  elem : List Char
  intVal : Option Int := none        -- `elem` after `int(elem)`
  b : Option Bool := none            -- the four flags: unassigned until set (reading an unassigned one crashes)
  v : Option Bool := none
  a : Option Bool := none
  t : Option Bool := none
  kind : Option AxKind := none
  iv : Option Nat
  idx : Nat
  made : Option PDim := none
  out : Option PDim := none
  deriving Repr

inductive POut
  | ok (s : PSt)
  | brk (s : PSt)
  | raised
  | crash              -- a Python error other than ValueError (unbound local, unrecognised construct, ...)
  deriving Repr

def PSt.flag (s : PSt) : PFlag → Option Bool
  | .b => s.b | .v => s.v | .a => s.a | .t => s.t

def PSt.setFlag (s : PSt) (f : PFlag) (x : Bool) : PSt :=
  match f with
  | .b => { s with b := some x } | .v => { s with v := some x }
  | .a => { s with a := some x } | .t => { s with t := some x }

/-- `none` = the expression cannot be evaluated (a name read before assignment, `elem[0]` of an empty
    string, an `int` where a string is expected, an unrecognised expression) -/
def PCond.eval (s : PSt) : PCond → Option Bool
  | .hasComma => if s.intVal.isSome then none else some (fComma s.elem)
  | .hasParen => if s.intVal.isSome then none else some (fParen s.elem)
  | .endsHash => if s.intVal.isSome then none else some (fEndsHash s.elem)
  | .hasEllipsis => if s.intVal.isSome then none else some (fHasEll s.elem)
  | .eqEllipsis => if s.intVal.isSome then none else some (fEqEll s.elem)
  | .flag f => s.flag f
  | .ivSet => some s.iv.isSome
  | .kindIs k => s.kind.map (·.same k)
  | .lenZero => if s.intVal.isSome then none else some (fLenZero s.elem)
  | .firstIs c => if s.intVal.isSome then none else s.elem.head?.map (· == c)
  | .countEqOne => if s.intVal.isSome then none else some (fCountEq1 s.elem)
  | .isIdent => if s.intVal.isSome then none else some (fIsIdent s.elem)
  | .not c => (c.eval s).map (!·)
  | .and c d => (match c.eval s with | some true => d.eval s | o => o)
  | .or c d => (match c.eval s with | some false => d.eval s | o => o)
  | .unknown => none

/-- run `f` until it breaks; the number of rounds is bounded by the caller -/
def iterP (f : PSt → POut) : Nat → PSt → POut
  | 0, _ => .crash
  | n + 1, s =>
    match f s with
    | .ok s' => iterP f n s'
    | .brk s' => .ok s'
    | .raised => .raised
    | .crash => .crash

def PStmt.run : PStmt → PSt → POut
  | .skip, s => .ok s
  | .seq s₁ s₂, s =>
    (match s₁.run s with
     | .ok s' => s₂.run s'
     | o => o)
  | .ite c t e, s =>
    (match c.eval s with
     | none => .crash
     | some true => t.run s
     | some false => e.run s)
  | .raise, _ => .raised
  | .setFlag f x, s => .ok (s.setFlag f x)
  | .setKind k, s => .ok { s with kind := some k }
  | .dropFirst, s => if s.intVal.isSome then .crash else .ok { s with elem := s.elem.drop 1 }
  | .afterEq, s =>
    -- unpacking `a, b = elem.split("=")` needs exactly one `=`
    if s.intVal.isSome || !fCountEq1 s.elem then .crash else .ok { s with elem := JV.afterEq s.elem }
  | .tryInt onErr onOk, s =>
    if s.intVal.isSome then .crash
    else
      (match parseIntLit s.elem with
       | none => onErr.run s
       | some k => onOk.run { s with intVal := some k })
  | .loop body, s =>
    -- every round that does not leave the loop removes at least one character
    iterP (fun x => body.run x) (s.elem.length + 2) s
  | .brk, s => .brk s
  | .setIv, s => .ok { s with iv := some s.idx }
  | .mk c, s =>
    (match c, s.intVal, s.b, s.t with
     | .fixed, some k, some b, _ => .ok { s with made := some (.fixed k b) }
     | .anonVar, none, _, _ => .ok { s with made := some .anonVar }
     | .anon, none, _, _ => .ok { s with made := some .anon }
     | .namedVar, none, some b, some t => .ok { s with made := some (.namedVar s.elem b t) }
     | .named, none, some b, some t => .ok { s with made := some (.named s.elem b t) }
     | .sym, none, some b, _ => .ok { s with made := some (.sym s.elem b) }
     | _, _, _, _ => .crash)
  | .append, s =>
    (match s.made with
     | some d => .ok { s with out := some d }
     | none => .crash)
  | .unknown, _ => .crash

/-- outcome of the loop body for one token -/
inductive TokRes
  | val (d : PDim) (iv : Option Nat)
  | valueError
  | crash
  deriving DecidableEq, Repr

/-- run the translated loop body on one token, `index_variadic` and `index` as the loop has them -/
def runTok (body : PStmt) (elem : List Char) (idx : Nat) (iv : Option Nat) : TokRes :=
  match body.run { elem := elem, iv := iv, idx := idx } with
  | .ok s => (match s.out with | some d => .val d s.iv | none => .crash)
  | .brk _ => .crash
  | .raised => .valueError
  | .crash => .crash

/-- one step of the hand-written model (`parseToks`) in the same vocabulary -/
def tokStep (elem : List Char) (idx : Nat) (iv : Option Nat) : TokRes :=
  match parseTok elem with
  | none => .valueError
  | some (d, isVar) =>
    if isVar && iv.isSome then .valueError
    else .val d (if isVar then some idx else iv)

/-- the `for index, elem in enumerate(dim_str.split())` loop around the translated body: `dims`
    collected in order, `index_variadic` threaded; `none` = ValueError, `some none` = a Python error of
    another kind -/
def runToks (body : PStmt) : List (List Char) → Nat → Option Nat → Option (Option (List PDim × Option Nat))
  | [], _, iv => some (some ([], iv))
  | t :: ts, idx, iv =>
    match runTok body t idx iv with
    | .valueError => none
    | .crash => some none
    | .val d iv' =>
      match runToks body ts (idx + 1) iv' with
      | some (some (ds, iv'')) => some (some (d :: ds, iv''))
      | o => o

/-- the whole specification string through the translated code -/
def runSpec (body : PStmt) (s : List Char) : Option (Option (List PDim × Option Nat)) :=
  runToks body (splitWs s) 0 none

end JV
