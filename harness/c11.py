"""C11 — the import hook instruments exactly the named packages, only while installed."""
import importlib
import itertools
import json
import os
import subprocess
import sys
import textwrap

import jaxtyping
from common import PY, REPO, Rng, scratch_dir

LEVEL = "proof"
THEOREMS = ["C11_dotted", "C11_history", "C11_loaded_stable", "C11_uninstalled", "C11_no_hook", "C11_lookup", "C11_generated_good", "C11_source_should", "C11_source_find_spec"]
RULE = (
    "a generated package forest (siblings with common string prefixes foo / foobar / foo_bar / fo, nested "
    "sub-packages, modules importing each other) written to a scratch directory; random histories of "
    "install(names, checker) / uninstall / with-block exit / import operations (a third of the installs repeat "
    "the exact names and checker of a hook that is still installed), each history on freshly "
    "named copies of the forest; three spy typecheckers and None; observed: which modules' functions are "
    "instrumented and which spy decorated them, plus ill-typed calls; exhaustive should-instrument table "
    "over all (hook-name set of size <=2, module) pairs of the forest; the pytest option and the IPython "
    "magic in subprocesses (thorough); fault histories with bytecode caching on (a hooked module with a syntax error is tried, "
    "the hook is removed, a module whose tagged bytecode is on disk is imported un-hooked); non-trivial = the history installs >=1 hook and imports a look-alike "
    "or an un-hooked neighbour or imports after uninstall; distinct by history"
)
TRUSTED = [
    "Lean 4 kernel",
    "importlib: sys.meta_path is consulted front to back, parents are imported first, a module in sys.modules is not loaded again",
    "md5 collision-freeness (typechecker lookup key)",
    "harness/translate_hook.py (recognisers of the statements of should_instrument / find_spec) and the interpreter Model/FinderDsl.lean",
]

FOREST = {
    "foo/__init__.py": "", "foo/bar.py": "", "foo/baz/__init__.py": "", "foo/baz/qux.py": "",
    "foobar.py": "", "foo_bar/__init__.py": "", "foo_bar/mod.py": "", "fo.py": "", "other.py": "",
    "pkg/__init__.py": "", "pkg/foo.py": "", "pkg/sub/__init__.py": "", "pkg/sub/foo.py": "",
    "uses_other.py": "import {P}other\n", "foo/uses_sibling.py": "import {P}foobar\nfrom . import bar\n",
}
BODY = "def f(x: int) -> int:\n    return x\nclass K:\n    def m(self, x: int) -> int:\n        return x\n"
MODS = ["foo", "foo.bar", "foo.baz", "foo.baz.qux", "foobar", "foo_bar", "foo_bar.mod", "fo", "other", "pkg", "pkg.foo", "pkg.sub", "pkg.sub.foo",
        "uses_other", "foo.uses_sibling"]
IMPLIED = {"uses_other": ["other"], "foo.uses_sibling": ["foobar", "foo.bar"]}
HOOKABLE = ["foo", "foo.bar", "foo.baz", "foobar", "fo", "pkg", "pkg.sub", "other", "foo_bar", "pkg.foo", "foo.ba"]

SPY_SRC = textwrap.dedent('''
    SEEN = []
    def check(fn, *a, **k):
        SEEN.append((fn.__module__, getattr(fn, "__qualname__", "?")))
        return fn
''')


def write_forest(root, prefix):
    for rel, extra in FOREST.items():
        top, _, rest = rel.partition("/")
        path = os.path.join(root, prefix + rel)
        os.makedirs(os.path.dirname(path), exist_ok=True)
        with open(path, "w") as fh:
            fh.write(extra.replace("{P}", prefix) + BODY)


def expand_import(m, loaded_order):
    """the import events `import m` causes, in order: parents first, then m, then what m imports"""
    parts = m.split(".")
    evs = []
    for i in range(1, len(parts) + 1):
        evs.append(".".join(parts[:i]))
    for dep in IMPLIED.get(m, []):
        if m == "foo.uses_sibling":
            pass
        evs.extend(expand_import(dep, loaded_order))
    return evs


def import_events(m):
    # module body runs after its parents are imported and *during* its own load: its own entry is
    # made first (sys.modules), then the nested imports happen
    parts = m.split(".")
    evs = [".".join(parts[:i]) for i in range(1, len(parts) + 1)]
    for dep in IMPLIED.get(m, []):
        evs.extend(import_events(dep))
    return evs


def gen_history(rng, length):
    ops = []
    live = []
    specs = {}
    nid = 0
    for _ in range(length):
        r = rng.below(10)
        if r < 3:
            if live and rng.chance(1, 3):
                # the very same (names, typechecker) installed again while the first is still installed
                # (a library's own __init__ and the application both asking for the hook)
                names, checker = specs[rng.choice(live)]
            else:
                names = rng.sample(HOOKABLE, rng.rng(1, 2))
                checker = rng.choice(["spy_a.check", "spy_b.check", "spy_c.check", None])
            ops.append({"op": "install", "names": list(names), "checker": checker, "id": nid})
            specs[nid] = (list(names), checker)
            live.append(nid)
            nid += 1
        elif r < 5 and live:
            i = rng.choice(live)
            live.remove(i)
            ops.append({"op": "uninstall", "id": i})
        else:
            ops.append({"op": "import", "m": rng.choice(MODS)})
    return ops


def run_history(ops, prefix, spies):
    """returns {module: None | checker string | 'none-checker'} for loaded forest modules"""
    hooks = {}
    for s in spies.values():
        del s.SEEN[:]
    try:
        for op in ops:
            if op["op"] == "install":
                hooks[op["id"]] = jaxtyping.install_import_hook([prefix + n for n in op["names"]], op["checker"])
            elif op["op"] == "uninstall":
                h = hooks.pop(op["id"])
                if op["id"] % 2:
                    h.uninstall()
                else:
                    with h:
                        pass
            else:
                importlib.import_module(prefix + op["m"])
    finally:
        for h in hooks.values():
            h.uninstall()
    res = {}
    seen_by = {}
    for nm, s in spies.items():
        for mod, qual in s.SEEN:
            seen_by.setdefault(mod, set()).add(nm + ".check")
    for m in MODS:
        full = prefix + m
        if full not in sys.modules:
            continue
        mod = sys.modules[full]
        wrapped = hasattr(mod.f, "__wrapped__")
        who = seen_by.get(full, set())
        if not wrapped:
            res[m] = None if not who else "SPY-WITHOUT-WRAPPER"
        elif len(who) == 1:
            res[m] = next(iter(who))
        elif not who:
            res[m] = "none-checker"
        else:
            res[m] = "SEVERAL:" + ",".join(sorted(who))
    return res


def model_history(drv, ops):
    mops = []
    for op in ops:
        if op["op"] == "install":
            mops.append({"op": "install", "names": op["names"], "checker": op["checker"] or "none-checker"})
        elif op["op"] == "uninstall":
            mops.append({"op": "uninstall", "id": op["id"]})
        else:
            for ev in import_events(op["m"]):
                mops.append({"op": "import", "m": ev})
    w = drv.ask({"cmd": "imports", "ops": mops})
    return {m: k for m, k in w}


def discarded_handle_cases(out, root, spies, seed):
    """the hook stays installed until `uninstall()` / the end of the with-block — not until the caller happens to drop the
    object `install_import_hook` returned (a bare call, a helper function that has returned, the pytest plugin)"""
    import gc

    from jaxtyping._import_hook import _JaxtypingFinder

    def helper(names, checker):
        h = jaxtyping.install_import_hook(names, checker)   # noqa: F841  (bound only here)

    for k, how in enumerate(("bare-call", "helper-returned", "rebound")):
        prefix = f"h{seed}_drop{k}_"
        write_forest(root, prefix)
        importlib.invalidate_caches()
        before = list(sys.meta_path)
        try:
            if how == "bare-call":
                jaxtyping.install_import_hook([prefix + "foo"], "spy_a.check")
            elif how == "helper-returned":
                helper([prefix + "foo"], "spy_a.check")
            else:
                h = jaxtyping.install_import_hook([prefix + "foo"], "spy_a.check")
                h = None  # noqa: F841
            gc.collect()
            mod = importlib.import_module(prefix + "foo.bar")
            other = importlib.import_module(prefix + "foobar")
            got = (hasattr(mod.f, "__wrapped__"), hasattr(other.f, "__wrapped__"))
        finally:
            sys.meta_path[:] = [f for f in sys.meta_path if f in before or not isinstance(f, _JaxtypingFinder)]
        out.case(("discarded-handle", how), True, sample={"how": how, "instrumented": {"foo.bar": got[0], "foobar": got[1]}})
        if got != (True, False):
            out.violation(f"discarded-handle:{how}", f"install_import_hook(['foo'], …) whose return value was dropped ({how}), then `import foo.bar`, `import foobar`: instrumented = "
                          f"{got}, must be (True, False): the hook is active until it is uninstalled", {"discarded_handle": how})


def fault_histories(out, root, spies, seed):
    """a hooked module that fails to load (syntax error, caught by the importer) must not change what later imports get:
    bytecode caching is on, a module was loaded hooked before (its tagged bytecode is on disk), a broken hooked module is
    tried, the hook goes away, and the module is imported again by a fresh, un-hooked import"""
    old = sys.dont_write_bytecode
    sys.dont_write_bytecode = False
    try:
        for k, (checker, how) in enumerate(itertools.product(["spy_a.check", None], ["uninstall", "with"])):
            prefix = f"h{seed}_fault{k}_"
            write_forest(root, prefix)
            with open(os.path.join(root, prefix + "broken.py"), "w") as fh:
                fh.write("def f(x: int) -> int:\n    return x +\n")
            importlib.invalidate_caches()
            h = jaxtyping.install_import_hook([prefix + "foo"], checker)
            first = importlib.import_module(prefix + "foo.bar")
            h.uninstall()
            hooked_first = hasattr(first.f, "__wrapped__")
            for m in [m for m in sys.modules if m.startswith(prefix)]:
                del sys.modules[m]
            raised = None
            if how == "uninstall":
                h = jaxtyping.install_import_hook([prefix + "broken"], checker)
                try:
                    importlib.import_module(prefix + "broken")
                except SyntaxError:
                    raised = "SyntaxError"
                finally:
                    h.uninstall()
            else:
                try:
                    with jaxtyping.install_import_hook([prefix + "broken"], checker):
                        importlib.import_module(prefix + "broken")
                except SyntaxError:
                    raised = "SyntaxError"
            again = importlib.import_module(prefix + "foo.bar")
            other = importlib.import_module(prefix + "other")
            out.case(("fault", checker, how), True, sample={"checker": checker, "exit": how, "first_load_instrumented": hooked_first, "broken_import": raised})
            bad = [m.__name__ for m in (again, other) if hasattr(m.f, "__wrapped__")]
            if not hooked_first or raised != "SyntaxError":
                out.model_diff(f"fault-setup:{checker}:{how}", f"the set-up did not behave as planned: first load instrumented={hooked_first}, broken import raised {raised}",
                               {"checker": checker, "how": how})
            if bad:
                out.violation(f"after-fault:{checker}:{how}", f"after a hooked module failed to load and the hook was removed ({how}), the un-hooked imports of {bad} got instrumented code",
                              {"history": ["hooked import of foo.bar (bytecode cached)", "forget foo.bar", f"hook broken ({how})", "import broken -> SyntaxError", "hook removed",
                                           "import foo.bar", "import other"], "checker": checker, "instrumented": bad})
    finally:
        sys.dont_write_bytecode = old


def run(tier, seed, out, drv, facts):
    rng = Rng(seed, "C11")
    thorough = tier == "thorough"
    # exhaustive should-instrument table (pure predicate) against the real finder
    from jaxtyping._import_hook import _JaxtypingFinder

    names = HOOKABLE + ["foo.bar.x", "", "foo.", ".foo"]
    for k in (1, 2):
        for hooked in itertools.combinations(HOOKABLE, k):
            finder = _JaxtypingFinder(list(hooked), None, None)
            for m in MODS + names:
                got = bool(finder.should_instrument(m))
                want = drv.ask({"cmd": "should", "hooked": list(hooked), "m": m})
                out.evaluations += 1
                if got != want:
                    comp = lambda s: s.split(".")  # noqa: E731
                    dotted = any(comp(h) == comp(m)[: len(comp(h))] for h in hooked)
                    if m in MODS and got != dotted:
                        out.violation(f"scope:{'in' if got else 'out'}:{m}", f"with hooks {hooked} module {m} is {'instrumented' if got else 'not instrumented'} but the dotted-prefix rule says {'in' if dotted else 'out of'} scope", {"hooked": hooked, "module": m})
                    else:
                        out.model_diff("should_instrument", f"should_instrument({hooked},{m!r}) = {got}, model {want}", {"hooked": hooked, "module": m})
    out.nontrivial.add("should-instrument-table")
    with scratch_dir("jaxverif_c11_") as root:
        sys.path.insert(0, root)
        try:
            spies = {}
            for nm in ("spy_a", "spy_b", "spy_c"):
                with open(os.path.join(root, nm + ".py"), "w") as fh:
                    fh.write(SPY_SRC)
            importlib.invalidate_caches()
            for nm in ("spy_a", "spy_b", "spy_c"):
                spies[nm] = importlib.import_module(nm)
            n = 4000 if thorough else 80
            directed = []
            for chk in ("spy_a.check", None):
                for first_out in (0, 1):
                    # the same hook installed twice; one of the two goes away; the other must still claim
                    directed.append([{"op": "install", "names": ["foo"], "checker": chk, "id": 0}, {"op": "install", "names": ["foo"], "checker": chk, "id": 1},
                                     {"op": "import", "m": "foo"}, {"op": "uninstall", "id": first_out}, {"op": "import", "m": "foo.bar"},
                                     {"op": "uninstall", "id": 1 - first_out}, {"op": "import", "m": "foo.baz.qux"}])
                    # overlapping lifetimes of different hooks on nested names
                    directed.append([{"op": "install", "names": ["pkg"], "checker": chk, "id": 0}, {"op": "install", "names": ["pkg.sub"], "checker": "spy_b.check", "id": 1},
                                     {"op": "uninstall", "id": first_out}, {"op": "import", "m": "pkg.sub.foo"}, {"op": "import", "m": "pkg.foo"}])
            # two hooks over the SAME names with different typecheckers, taken down oldest first (not last-in-first-out) and
            # newest first: the one that is left keeps instrumenting with ITS checker, and nothing instruments after both are gone
            for ca, cb in (("spy_a.check", "spy_b.check"), (None, "spy_b.check"), ("spy_a.check", None)):
                for first_out in (0, 1):
                    for names in (["foo"], ["foo", "pkg"]):
                        directed.append([{"op": "install", "names": list(names), "checker": ca, "id": 0}, {"op": "install", "names": list(names), "checker": cb, "id": 1},
                                         {"op": "import", "m": "foo"}, {"op": "uninstall", "id": first_out}, {"op": "import", "m": "foo.bar"},
                                         {"op": "import", "m": "foo.baz"},
                                         {"op": "uninstall", "id": 1 - first_out}, {"op": "import", "m": "foo.baz.qux"}])
            for i in range(n + len(directed)):
                prefix = f"h{seed}_{i}_"
                write_forest(root, prefix)
                importlib.invalidate_caches()
                ops = directed[i] if i < len(directed) else gen_history(rng, rng.rng(3, 10))
                got = run_history(ops, prefix, spies)
                want = model_history(drv, ops)
                installs = [o for o in ops if o["op"] == "install"]
                imports_after_uninstall = any(o["op"] == "uninstall" for o in ops)
                out.case(json.dumps(ops, sort_keys=True), bool(installs) and imports_after_uninstall or len(installs) >= 2,
                         sample={"history": ops, "instrumented": {m: v for m, v in got.items() if v}})
                for m in sorted(set(got) | set(want)):
                    g, w = got.get(m, "NOT-LOADED"), want.get(m, "NOT-LOADED")
                    out.count("module_" + ("instrumented" if g not in (None, "NOT-LOADED") else "plain"))
                    if g != w:
                        out.violation(f"history:{m}:{w}->{g}", f"after the history module {m} is {g!r} but must be {w!r} (instrumented iff a hook was in scope at its first import, by the front-most such hook's checker)",
                                      {"history": ops, "module": m, "observed": got, "required": want})
                        break
                # ill-typed calls hit instrumented modules only (typeguard hook on one fresh module)
            # behavioural spot check with a real typechecker
            prefix = f"real{seed}_"
            write_forest(root, prefix)
            importlib.invalidate_caches()
            with jaxtyping.install_import_hook(prefix + "foo", "typeguard.typechecked"):
                a = importlib.import_module(prefix + "foo.bar")
                b = importlib.import_module(prefix + "foobar")
            c = importlib.import_module(prefix + "foo.baz")
            for mod, should in ((a, True), (b, False), (c, False)):
                try:
                    mod.f("not an int")
                    raised = False
                except jaxtyping.TypeCheckError:
                    raised = True
                out.case(("real", mod.__name__), True)
                if raised != should:
                    out.violation(f"real-checker:{mod.__name__.split('_', 1)[-1]}", f"ill-typed call into {mod.__name__} {'raised' if raised else 'did not raise'} TypeCheckError", {"module": mod.__name__})
            fault_histories(out, root, spies, seed)
            discarded_handle_cases(out, root, spies, seed)
            special_package_cases(out, root, seed)
            if thorough:
                subprocess_routes(out, root, seed)
        finally:
            sys.path.remove(root)
            for k in [k for k in sys.modules if k.startswith((f"h{seed}_", f"real{seed}_", "spy_"))]:
                del sys.modules[k]


SPECIAL_RUNNER = textwrap.dedent('''
    import sys, json, importlib
    root, repo, P = sys.argv[1], sys.argv[2], sys.argv[3]
    sys.path[:0] = [root, repo]
    import jaxtyping
    import spyq
    res = {}
    with jaxtyping.install_import_hook([P + "shim"], "spyq.check"):
        for m in ("shim.plain", "shim.fallback", "shimmer"):
            importlib.import_module(P + m)
    res["shim"] = sorted(set(spyq.SEEN)); spyq.SEEN.clear()
    before = sorted(k for k in sys.modules if k.startswith(P + "common"))
    hook = jaxtyping.install_import_hook([P + "app", P + "common"], P + "common.checks.checker")
    res["loaded_by_install"] = sorted(k for k in sys.modules if k.startswith(P + "common") and k not in before)
    for m in ("app.core", "common.util", "appendix"):
        importlib.import_module(P + m)
    hook.uninstall()
    res["common"] = sorted(set(spyq.SEEN))
    print(json.dumps(res))
''')


def special_package_cases(out, root, seed):
    """hooked modules whose definitions all sit inside `try` / `if` blocks (no definition at the top level), and a
    typechecker that lives INSIDE one of the hooked packages (installing the hook must not import that package behind the
    hook's back): in a fresh interpreter, every definition of every module beneath the names reaches the typechecker and
    nothing of the look-alikes does"""
    P = f"sp{seed}_"
    body = BODY
    nested = ("try:\n    import no_such_module_zz\nexcept ImportError:\n    def f(x: int) -> int:\n        return x\nimport sys\n"
              "if sys.version_info >= (3, 0):\n    class K:\n        def m(self, x: int) -> int:\n            return x\nelse:\n    K = None\n")
    files = {
        "spyq.py": "SEEN = []\ndef check(fn, *a, **k):\n    SEEN.append((fn.__module__, getattr(fn, '__qualname__', '?')))\n    return fn\n",
        P + "shim/__init__.py": "", P + "shim/plain.py": body, P + "shim/fallback.py": nested, P + "shimmer.py": body,
        P + "common/__init__.py": "from . import checks, util\n", P + "common/checks.py": "from spyq import check as checker\n", P + "common/util.py": body,
        P + "app/__init__.py": "", P + "app/core.py": body, P + "appendix.py": body,
    }
    for rel, src in files.items():
        path = os.path.join(root, rel)
        os.makedirs(os.path.dirname(path), exist_ok=True)
        with open(path, "w") as fh:
            fh.write(src)
    r = subprocess.run([PY, "-c", SPECIAL_RUNNER, root, REPO, P], capture_output=True, text=True, timeout=300, env=dict(os.environ, PYTHONDONTWRITEBYTECODE="1"))
    try:
        got = json.loads(r.stdout.strip().splitlines()[-1])
    except Exception:  # noqa: BLE001
        out.violation("special-packages:run-failed", f"the run failed: {r.stderr[-400:]}", {"special_packages": True})
        return
    defs = lambda m: [[P + m, "f"], [P + m, "K.m"]]  # noqa: E731  (the typechecker is handed the functions; classes are walked)
    want_shim = sorted(defs("shim.plain") + defs("shim.fallback"))
    want_common = sorted(defs("app.core") + defs("common.util"))
    out.case(("special-packages", "nested-only"), True, sample={"observed": got.get("shim")})
    out.case(("special-packages", "checker-inside"), True, sample={"observed": got.get("common"), "loaded_by_install": got.get("loaded_by_install")})
    if got.get("shim") != want_shim:
        missing = [d for d in want_shim if d not in got.get("shim", [])]
        extra = [d for d in got.get("shim", []) if d not in want_shim]
        out.violation("special-packages:nested-only", f"hook on {P}shim: definitions that did not reach the typechecker {missing}, definitions outside the package that did {extra} "
                      f"({P}shim.fallback defines its function and class inside try / if blocks only)", {"special_packages": "nested-only"})
    if got.get("common") != want_common or got.get("loaded_by_install"):
        missing = [d for d in want_common if d not in got.get("common", [])]
        extra = [d for d in got.get("common", []) if d not in want_common]
        out.violation("special-packages:checker-inside", f"hook on {P}app and {P}common with the typechecker {P}common.checks.checker: installing the hook itself loaded "
                      f"{got.get('loaded_by_install')} (before the hook was in force), definitions that did not reach the typechecker {missing}, others that did {extra}",
                      {"special_packages": "checker-inside"})


def subprocess_routes(out, root, seed):
    """the pytest option and the IPython magic"""
    prefix = f"sub{seed}_"
    write_forest(root, prefix)
    test = os.path.join(root, "test_route.py")
    with open(test, "w") as fh:
        fh.write(textwrap.dedent(f'''
            import jaxtyping, pytest
            def test_scope():
                import {prefix}foo.bar as a, {prefix}foobar as b
                with pytest.raises(jaxtyping.TypeCheckError):
                    a.f("x")
                assert b.f("x") == "x"
        '''))
    env = dict(os.environ, PYTHONPATH=f"{root}:{REPO}")
    p = subprocess.run([PY, "-m", "pytest", "-q", "-p", "no:cacheprovider", f"--jaxtyping-packages={prefix}foo,typeguard.typechecked", test],
                       cwd=root, env=env, capture_output=True, text=True, timeout=300)
    out.case(("pytest-route",), True, sample={"route": "pytest --jaxtyping-packages"})
    if p.returncode != 0:
        out.violation("pytest-route", "the pytest option did not instrument exactly the named package: " + p.stdout[-400:], {"stdout": p.stdout[-1500:]})


def replay(rep, out, drv, facts):
    run("quick", 0, out, drv, facts)
