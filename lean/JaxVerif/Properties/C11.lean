/-
C11 — the import hook instruments exactly the named packages, only while installed.
-/
import JaxVerif.Model.HookScope
import JaxVerif.Generated.Hook
import JaxVerif.Lemmas.HookScope
import JaxVerif.Generated.HookCode

namespace JV

/-- a well-formed dotted name: no empty component -/
def WfName (m : MName) : Prop := ∀ c ∈ splitDots m, c ≠ []

/-- **dotted-prefix, not string-prefix**: a module is in scope exactly when the components of one
    hooked name are a prefix of its components (so `foobar` is not beneath `foo`) -/
theorem C11_dotted (hooked : List MName) (m : MName) (hm : WfName m) (hh : ∀ h ∈ hooked, WfName h) :
    shouldInstrument hooked m = true ↔ ∃ h ∈ hooked, (splitDots h).isPrefixOf (splitDots m) = true :=
  shouldInstrument_iff_components hooked m hm hh

/-- **first import decides, for every history**: after any sequence of install / uninstall /
    import operations, a loaded module is instrumented exactly if at its *first* import some
    installed hook was in scope, with the checker of the front-most (most recently installed) such
    hook; nothing that happens later changes it -/
theorem C11_history (s : ImportState) (ops₁ ops₂ : List ImportOp) (m : MName)
    (hfresh : (importRun s ops₁).loaded.lookup m = none) :
    (importRun s (ops₁ ++ .importMod m :: ops₂)).loaded.lookup m =
      some (match firstMatch (importRun s ops₁).metaPath m with
            | some h => .instrumented h.checker
            | none => .plain) :=
  first_import_decides s ops₁ ops₂ m hfresh

/-- already-loaded modules never change status -/
theorem C11_loaded_stable (s : ImportState) (ops : List ImportOp) (m : MName) (k : LoadKind)
    (h : s.loaded.lookup m = some k) : (importRun s ops).loaded.lookup m = some k :=
  loaded_stable s ops m k h

/-- after `uninstall` (or leaving the with-block) a hook claims nothing: a module imported then
    is instrumented only if some *other* installed hook is in scope -/
theorem C11_uninstalled (s : ImportState) (id : Nat) (m : MName) :
    firstMatch (importStep s (.uninstall id)).metaPath m =
      firstMatch (s.metaPath.filter (fun h => h.id != id)) m ∧
    (∀ h, firstMatch (importStep s (.uninstall id)).metaPath m = some h → h.id ≠ id) :=
  uninstall_claims_nothing s id m

/-- with no hook installed everything loads unmodified -/
theorem C11_no_hook (s : ImportState) (m : MName) (h : s.metaPath = []) (hf : s.loaded.lookup m = none) :
    (importStep s (.importMod m)).loaded.lookup m = some .plain :=
  no_hook_plain s m h hf

/-- the checker key is a function of the checker string; `None` is `"0"`; distinct strings have
    distinct keys (md5 modelled as injective) -/
theorem C11_lookup (a b : Option String) : checkerKey a = checkerKey b ↔ a = b :=
  checkerKey_injective a b

/-- the predicate the current source uses (re-extracted on every run) -/
theorem C11_generated_good :
    Generated.hookShouldInstrument = "eq_or_dotted_prefix" ∧ Generated.hookInsertsAtFront = true ∧
    Generated.hookUninstallRemoves = true ∧ Generated.hookOnlySourceLoaders = true ∧
    Generated.hookAlwaysTransforms = true := by decide

/-! non-vacuity -/
example : shouldInstrument ["foo".toList] "foo.bar".toList = true ∧ shouldInstrument ["foo".toList] "foobar".toList = false ∧
    shouldInstrument ["foo.bar".toList] "foo".toList = false ∧ shouldInstrument ["foo".toList, "bar.baz".toList] "bar.baz.q".toList = true := by decide

/-! ### the finder's two methods as written today -/

theorem source_should_step (env : FEnv) (h : MName) (s : FSt) :
    Generated.shouldLoopBody.run env (fun _ _ => .crash) { s with cur := some h } =
      if (env.name == h || (h ++ ['.']).isPrefixOf env.name) then .retB true else .normal { s with cur := some h } := by
  cases h1 : (env.name == h) <;> cases h2 : ((h ++ ['.']).isPrefixOf env.name) <;>
    simp [Generated.shouldLoopBody, FStmt.run, FCond.eval, h1, h2]

theorem source_should_loop (env : FEnv) : ∀ (hs : List MName) (s : FSt),
    runModules env Generated.shouldLoopBody hs s =
      if hs.any (fun h => env.name == h || (h ++ ['.']).isPrefixOf env.name) then .retB true
      else .normal { s with cur := none }
  | [], s => by simp [runModules]
  | h :: hs, s => by
    rw [runModules, source_should_step]
    cases hc : (env.name == h || (h ++ ['.']).isPrefixOf env.name)
    · simp only [Bool.false_eq_true, if_false, List.any_cons, hc, Bool.false_or]
      rw [source_should_loop env hs]
    · simp [List.any_cons, hc]

/-- **`should_instrument` as written today**: the method translated from the current source on this run — its loop over the
    hooked names unrolled by induction — is the model's dotted-prefix predicate, for EVERY list of hooked names and every
    module name. `C11_dotted` is therefore a statement about the code the source contains. -/
theorem C11_source_should (modules : List MName) (m : MName) :
    runShould Generated.shouldCode modules m = some (shouldInstrument modules m) := by
  unfold runShould runMethod Generated.shouldCode shouldInstrument
  simp only [FStmt.run, source_should_loop]
  cases modules.any (fun h => m == h || (h ++ ['.']).isPrefixOf m) <;> simp [FStmt.run]

/-- **`find_spec` as written today**: the translated method claims a module (hands back a spec whose loader is the jaxtyping
    loader) exactly when `should_instrument` says so AND the wrapped path finder found a module loaded from source; in every
    other case it returns None (never a spec with the original loader, never an exception for a missing module). -/
theorem C11_source_find_spec (should : Bool) (orig : Option Bool) :
    runFindSpec Generated.findSpecCode should orig = some (should && orig == some true) := by
  cases should <;> rcases orig with _ | _ | _ <;>
    simp [runFindSpec, runMethod, Generated.findSpecCode, FStmt.run, FCond.eval]

end JV
