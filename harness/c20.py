"""C20 — annotations survive pickling and copying with their meaning intact."""
import base64
import copy
import json
import os
import pickle
import subprocess
import sys
import typing

import cloudpickle

import makeimpl
import usercats
from common import PY, REPO, Rng
from makeimpl import EXPORTED, build, cat_spec, cores, describe, vector

LEVEL = "proof"
THEOREMS = ["C20_roundtrip", "C20_accepts", "C20_constructible", "C20_generated_good", "C20_reducer_must_carry", "C20_by_value", "C20_by_value_needs_reference"]
RULE = (
    "annotations generated from the 34 exported + 5 importable user-defined categories (two of them NAMED like exported ones, with "
    "other dtypes) x array types "
    "{class, subclass, Any, Union, nested annotation (1-3 levels, categories drawn so that the effective "
    "dtypes differ from the written category)} x dim strings (named, fixed, '_', '...', '*v', '#', 'x=3', "
    "symbolic, whitespace, empty); routes pickle (protocols 2 and 5), cloudpickle, copy.copy, copy.deepcopy, copies of copies (pickle twice, cloudpickle then pickle) "
    "in the same process and pickle / cloudpickle loaded in a fresh interpreter; compared: the acceptance "
    "vector over 281 probe values of the original before and after serialising and of every reconstruction, "
    "and what was rebuilt against the model's reduce/rebuild; non-trivial = nested, Union, or a dim string "
    "with an anonymous / multi-axis specifier; distinct by the full specification"
)
TRUSTED = [
    "Lean 4 kernel",
    "harness/extract.py: recognition of what the copyreg reducer hands over",
    "pickle / cloudpickle / copy protocols (classes and functions by reference)",
]

A = {"k": "cls", "name": "Duck"}
A2 = {"k": "cls", "name": "Duck2"}
O = {"k": "cls", "name": "Other"}
ANY = {"k": "any"}
USER = ["F32orI8", "OnlyBool", "HalfAndInts", "user.Float", "user.Shaped"]
CATS = EXPORTED + USER
DIMS = ["", "a", "a b", "_", "...", "*v", "*v a", "#a 3", "x=3 _ *#w", "  a   b ", "a a+1", "... c", "1 _ _"]
INNER_DIMS = ["", "a", "*v", "_ 2", "..."]

CHILD = r"""
import base64, json, sys
sys.path.insert(0, sys.argv[1]); sys.path.insert(0, sys.argv[2])
import pickle, cloudpickle
import makeimpl
items = json.load(sys.stdin)
res = []
objs = []
for it in items:
    try:
        obj = pickle.loads(base64.b64decode(it["blob"]))
        objs.append(obj)
        res.append({"vec": makeimpl.vector(obj), "desc": makeimpl.describe(obj)})
    except BaseException as e:
        objs.append(None)
        res.append({"vec": "LOAD-" + type(e).__name__, "desc": {"r": "LOAD-" + type(e).__name__ + ": " + str(e)[:200]}})
# once more when everything is loaded: a later load must not have changed an earlier reconstruction
for obj, r in zip(objs, res):
    if obj is not None:
        r["late_vec"] = makeimpl.vector(obj)
        r["late_desc"] = makeimpl.describe(obj)
json.dump(res, sys.stdout)
"""


def spec(cat, aty, dims):
    return {"cat": cat_spec(cat), "aty": aty, "dims": dims}


def made(cat, aty, dims):
    return {"k": "made", **spec(cat, aty, dims)}


def gen_specs(rng, thorough):
    out = []
    cats = CATS
    # flat
    for cat in cats:
        for dims in (DIMS if thorough else rng.sample(DIMS, 4)):
            out.append(("flat", spec(cat, rng.choice([A, A2, O, ANY]), dims)))
    # nested two levels: every ordered pair in thorough, a third of them in quick
    for d1 in cats:
        for d2 in cats:
            if thorough or rng.chance(1, 3) or d2 == "Shaped":
                out.append(("nested2", spec(d2, made(d1, rng.choice([A, ANY]), rng.choice(INNER_DIMS)), rng.choice(["b", "", "#q", "3"]))))
    # families that pickle to the SAME (outer category, array class, combined dim string) and differ only in the effective
    # dtypes: anything remembered per reconstruction key hands one member's dtypes to the others
    for outer, dims_o, dims_i in (("Shaped", "b", "a"), ("Num", "", "a b"), ("Shaped", "3", "_ 2")):
        for inner in ("Float", "Int", "Bool", "UInt8", "Complex64", "user.Float"):
            out.append(("nested2-family", spec(outer, made(inner, A, dims_i), dims_o)))
    # one identifier used at different levels in different roles (a plain axis inside, a multi-axis name outside, and the
    # mirror image; `?`, `#`, `_name` variants): legal to build level by level, so the flat re-parse must take it too
    for outer_dims, inner_dims in (("*batch", "batch features"), ("dim", "*dim 3"), ("#n", "n *n"), ("*v", "?v 2"), ("_x", "x *x"), ("a a", "*a")):
        for outer in ("Float", "Shaped"):
            out.append(("nested2-name-reuse", spec(outer, made("Float", A, inner_dims), outer_dims)))
    # three levels
    for _ in range(6000 if thorough else 200):
        d1, d2, d3 = rng.choice(cats), rng.choice(cats), rng.choice(["Shaped", rng.choice(cats)])
        out.append(("nested3", spec(d3, made(d2, made(d1, A, rng.choice(INNER_DIMS)), rng.choice(["b", ""])), rng.choice(["c", "", "_"]))))
    # unions
    for cat in (cats if thorough else rng.sample(cats, 12)):
        out.append(("union", spec(cat, {"k": "union", "as": [A, O]}, rng.choice(DIMS))))
        out.append(("union-scalar", spec(cat, {"k": "union", "as": [A, {"k": "scalar", "s": "float"}, {"k": "scalar", "s": "int"}]}, rng.choice(["", "...", "*v"]))))
        out.append(("union-nested", spec("Shaped", {"k": "union", "as": [made(cat, A, "a"), O]}, "b")))
    return out


ROUTES = {
    "pickle2": lambda x: pickle.loads(pickle.dumps(x, protocol=2)),
    "pickle5": lambda x: pickle.loads(pickle.dumps(x, protocol=5)),
    "copy": copy.copy,
    "deepcopy": copy.deepcopy,
    "deepcopy-in-container": lambda x: copy.deepcopy({"k": [x]})["k"][0],
    "cloudpickle": lambda x: cloudpickle.loads(cloudpickle.dumps(x)),
    # a copy of a copy (a checkpoint re-saved, an object sent on by the worker that received it)
    "pickle-twice": lambda x: pickle.loads(pickle.dumps(pickle.loads(pickle.dumps(x)))),
    "cloudpickle-then-pickle": lambda x: pickle.loads(pickle.dumps(cloudpickle.loads(cloudpickle.dumps(x)))),
    "pickle-then-deepcopy-then-pickle": lambda x: pickle.loads(pickle.dumps(copy.deepcopy(pickle.loads(pickle.dumps(x))))),
}


def classify(tag, sp):
    return tag


def check_one(out, tag, sp, ann, v0, route, back_vec, back_desc, together=None):
    replay = {"spec": sp, "route": route}
    if together:
        replay["loaded_together_with"] = together
    if back_vec != v0:
        if isinstance(back_vec, str) and not set(back_vec) <= {"0", "1", "A", "E"}:
            what = f"the annotation {describe(ann)} could not be reconstructed via {route}: {back_vec} {back_desc.get('r', '')}"
            key = f"roundtrip:{tag}:{route.split('-')[0]}:fails"
        else:
            i = next(i for i, (a, b) in enumerate(zip(back_vec, v0)) if a != b)
            what = (f"the reconstruction via {route} of {json.dumps(cores(describe(ann)))[:260]} accepts a different set of values: "
                    f"probe {makeimpl.probes()[i]!r} original={v0[i]} reconstructed={back_vec[i]} (1 accepted, 0 rejected, E the check itself raised); "
                    f"it was rebuilt as {json.dumps(cores(back_desc))[:260]}")
            key = f"roundtrip:{tag}:{route.split('-')[0]}:" + ("check-raises" if back_vec[i] == "E" else "accepts-differently")
        out.violation(key, what, replay)
        return False
    return True


def load_after_change(out):
    """loading never changes what the ORIGINAL accepts — also when the original has changed since the dump: a payload
    taken while the annotation was checking, the annotation then made transparent by the library itself (old-style
    decoration of a generator function that returns it: known finding F2, about the annotation object), the payload loaded
    afterwards in the same process by every route"""
    import typing

    import typeguard
    from jaxtyping import Float, Shaped, jaxtyped

    for k, mk in enumerate((lambda: Float[usercats.Duck, "lc0 2"], lambda: Shaped[Float[usercats.Duck, "lc1"], "3"])):
        for route, fn in ROUTES.items():
            ann = mk()
            v_start = vector(ann)
            try:
                if route.startswith("cloudpickle"):
                    import cloudpickle

                    blob, loads = cloudpickle.dumps(ann), cloudpickle.loads
                elif route.startswith("pickle"):
                    blob, loads = pickle.dumps(ann), pickle.loads
                else:
                    continue
            except BaseException:  # noqa: BLE001
                continue

            @jaxtyped
            @typeguard.typechecked
            def gen(n: int) -> typing.Iterator[ann]:
                yield None

            v_changed = vector(ann)
            try:
                back = loads(blob)
            except BaseException as e:  # noqa: BLE001
                back = "LOAD-" + type(e).__name__
            v_after = vector(ann)
            out.case(("load-after-change", k, route), v_changed != v_start, sample={"route": route, "changed_by_decoration": v_changed != v_start, "changed_by_load": v_after != v_changed})
            if v_after != v_changed:
                out.violation(f"load-after-change:{route}", f"an annotation dumped via {route}, then changed (it became the return annotation of an old-style decorated generator "
                              f"function), then the OLD payload loaded: the load changed what the original accepts ({v_changed[:40]} -> {v_after[:40]} on the probe values)",
                              {"load_after_change": route})
                break


def run(tier, seed, out, drv, facts):
    rng = Rng(seed, "C20")
    thorough = tier == "thorough"
    load_after_change(out)
    carries = bool(facts["make"]["reducerCarriesDtypes"])
    specs = gen_specs(rng, thorough)
    built = []
    for tag, sp in specs:
        ann = build(sp)
        if isinstance(ann, str):
            out.count("unbuildable_" + ann.split(":")[0])
            continue
        built.append((tag, sp, ann, vector(ann)))
    # ---- in-process routes
    kept = []
    for tag, sp, ann, v0 in built:
        d0 = describe(ann)
        nontrivial = tag != "flat" or any(ch in sp["dims"] for ch in "_.*")
        out.case((tag, json.dumps(sp, sort_keys=True)), nontrivial, sample={"kind": tag, "spec": sp, "original_accepts": v0.count("1")})
        out.count("kind_" + tag)
        for route, fn in ROUTES.items():
            try:
                back = fn(ann)
                bv, bd = vector(back), describe(back)
            except BaseException as e:  # noqa: BLE001
                bv, bd = "RAISES-" + type(e).__name__, {"r": str(e)[:200]}
            # serialising / loading never changes what the original accepts
            v1 = vector(ann)
            if v1 != v0 or describe(ann) != d0:
                i = next((i for i, (a, b) in enumerate(zip(v1, v0)) if a != b), 0)
                out.violation(f"original-changed:{tag}:{route}", f"after a {route} round trip in the same process the ORIGINAL annotation {json.dumps(cores(d0))[:200]} answers differently: probe {makeimpl.probes()[i]!r} before={v0[i]} after={v1[i]}; it now reads {json.dumps(cores(describe(ann)))[:200]}", {"spec": sp, "route": route})
                break
            if check_one(out, tag, sp, ann, v0, route, bv, bd) and route in ("pickle5", "cloudpickle"):
                kept.append((tag, sp, ann, v0, route, back))
    # once more when every annotation has been through every route: a later reconstruction must not have changed an earlier one
    def rebuild_key(ann):
        d = describe(ann).get("alts", [{}])[0]
        return (d.get("cat"), d.get("at"), d.get("dimstr"))

    family = {}
    for tag, sp, ann, v0 in built:
        family.setdefault(rebuild_key(ann), []).append(sp)
    for tag, sp, ann, v0, route, back in kept:
        check_one(out, tag, sp, ann, v0, route + "-then-other-loads", vector(back), describe(back), together=[x for x in family[rebuild_key(ann)] if x is not sp][:8])
    # ---- model correspondence of reduce / rebuild (single made annotations)
    singles = [(tag, sp, ann) for tag, sp, ann, _ in built if not tag.startswith("union")]
    for i in range(0, len(singles), 300):
        chunk = singles[i:i + 300]
        ans = drv.ask({"cmd": "batch", "reqs": [{"cmd": "pickle", "carries": carries, **sp} for _, sp, _ in chunk]})
        for (tag, sp, ann), m in zip(chunk, ans):
            if isinstance(m, dict) and "skip" in m:
                out.count("model_skip")
                continue
            try:
                real_back = describe(pickle.loads(pickle.dumps(ann)))
            except BaseException as e:  # noqa: BLE001 - reported by the route checks above; here only model vs implementation
                real_back = {"r": "RAISES-" + type(e).__name__}
            if describe(ann).get("alts", [None])[0] != m.get("orig"):
                out.model_diff("pickle:orig", f"implementation builds {describe(ann)}, model {m.get('orig')}", {"spec": sp})
            elif real_back != m.get("back"):
                out.model_diff("pickle:back", f"implementation rebuilds {json.dumps(real_back)[:300]}, the model {json.dumps(m.get('back'))[:300]}", {"spec": sp})
    # ---- another process
    sub = built if thorough else rng.sample(built, min(len(built), 500))
    items = []
    for tag, sp, ann, v0 in sub:
        for route, dump in (("pickle-subprocess", pickle.dumps), ("cloudpickle-subprocess", cloudpickle.dumps)):
            try:
                blob = base64.b64encode(dump(ann)).decode()
            except BaseException as e:  # noqa: BLE001
                check_one(out, tag, sp, ann, v0, route, "DUMP-" + type(e).__name__, {"r": str(e)[:200]})
                continue
            items.append((tag, sp, ann, v0, route, blob))
    env = dict(os.environ, PYTHONDONTWRITEBYTECODE="1", VERIF_REPO=REPO)
    p = subprocess.run([PY, "-c", CHILD, os.path.dirname(os.path.abspath(__file__)), REPO], input=json.dumps([{"blob": it[5]} for it in items]),
                       stdout=subprocess.PIPE, stderr=subprocess.PIPE, text=True, env=env, timeout=1200)
    if p.returncode != 0:
        raise RuntimeError("loader subprocess failed: " + p.stderr[-2000:])
    res = json.loads(p.stdout)
    for (tag, sp, ann, v0, route, _), r in zip(items, res):
        out.count("subprocess_loads")
        if check_one(out, tag, sp, ann, v0, route, r["vec"], r["desc"]) and "late_vec" in r:
            check_one(out, tag, sp, ann, v0, route + "-then-other-loads", r["late_vec"], r["late_desc"], together=[x for x in family[rebuild_key(ann)] if x is not sp][:8])


def replay(rep, out, drv, facts):
    if "load_after_change" in rep:
        load_after_change(out)
        return
    sp = rep["spec"]
    ann = build(sp)
    v0 = vector(ann)
    route = rep.get("route", "pickle5")
    fn = ROUTES.get(route.replace("-then-other-loads", "").replace("-subprocess", ""), ROUTES["pickle5"])
    back = fn(ann)
    others = [fn(build(o)) for o in rep.get("loaded_together_with", [])]  # noqa: F841  (kept alive on purpose)
    check_one(out, "replay", sp, ann, v0, route, vector(back), describe(back))
    out.case("replay", True, sample=rep)
