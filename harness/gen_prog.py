"""Generators of values (pytrees), leaf types and programs in the JSON language shared by the
Lean driver (`prog` command) and harness/impl_prog.py."""
from __future__ import annotations

import json

import gen_dims

FLOAT_DTYPES = ["float32", "float16", "float64", "bfloat16"]


def arr_val(shape, cls="Duck", dtype="float32"):
    return {"t": "arr", "cls": cls, "dtype": dtype, "shape": list(shape)}


def arr_type(dims, cls="Duck", cat="Shaped", dtypes=None):
    j = {"t": "arr", "cls": cls, "dims": dims, "cat": cat}
    if cat != "Shaped":
        j["dtypes"] = dtypes if dtypes is not None else cat_dtypes(cat)
    return j


def nested(arr_t, k):
    """the same annotation written as Cat[Cat[A, <axes k..>], <axes ..k>] (the implementation builds it nested, the model
    sees the flat axes: nesting concatenates, C15)"""
    j = dict(arr_t)
    j["split"] = k
    return j


_cat_cache = {}


def cat_dtypes(cat):
    if cat not in _cat_cache:
        import jaxtyping

        d = getattr(jaxtyping, cat).dtypes
        _cat_cache[cat] = [x for x in d if isinstance(x, str)]
    return _cat_cache[cat]


INT = {"t": "int"}
STR = {"t": "str"}
ANY = {"t": "any"}
NONE_T = {"t": "none"}
TUP_II = {"t": "tuple", "ts": [INT, INT]}
U_IS = {"t": "union", "ts": [INT, STR]}


def ival(n):
    return {"t": "int", "v": n}


def sval(s):
    return {"t": "str", "v": s}


NONE_V = {"t": "none"}


def leaf_value_for(rng, lt, alpha, valpha, good=True):
    """a value of leaf type `lt` (when good) or a near miss"""
    t = lt["t"]
    if not good:
        k = rng.below(4)
        if t == "arr":
            dims = lt["dims"]
            shape = gen_dims.rand_shape_for(rng, dims, alpha, valpha, mutate=False)
            if k == 0 or not shape:
                shape = shape + [rng.below(4)]
            elif k == 1:
                shape[rng.below(len(shape))] += 1
            elif k == 2:
                return arr_val(shape, cls="Duck2" if lt.get("cls") == "DuckB" else "DuckB")
            else:
                return sval("x")
            return arr_val(shape, cls=lt.get("cls") or "Duck")
        if t == "int":
            return sval("no")
        if t == "str":
            return ival(3)
        if t == "tuple":
            return {"t": "tuple", "xs": [ival(1)]} if len(lt["ts"]) != 1 else ival(0)
        if t == "union":
            return {"t": "opaque", "tag": "Z"}
        if t == "user":
            return {"t": "opaque", "tag": "Z"}
        return {"t": "opaque", "tag": "Z"}
    if t == "int":
        return ival(rng.below(5))
    if t == "str":
        return sval(rng.choice(["p", "q"]))
    if t == "none":
        return NONE_V
    if t == "any":
        return rng.choice([ival(1), sval("s"), {"t": "opaque", "tag": "A"}])
    if t == "arr":
        shape = gen_dims.rand_shape_for(rng, lt["dims"], alpha, valpha, mutate=False)
        dt = "float32" if lt.get("cat", "Shaped") in ("Shaped", "Float") else "int32"
        return arr_val(shape, cls=lt.get("cls") or "Duck", dtype=dt)
    if t == "tuple":
        return {"t": "tuple", "xs": [leaf_value_for(rng, x, alpha, valpha) for x in lt["ts"]]}
    if t == "union":
        return leaf_value_for(rng, rng.choice(lt["ts"]), alpha, valpha)
    if t == "user":
        return {"t": "opaque", "tag": rng.choice(lt["accept"]) if lt["accept"] else "Z"}
    if t == "pytree":
        return rand_tree(rng, 2, lambda: leaf_value_for(rng, lt["l"], alpha, valpha))
    if t == "bare":
        return ival(0)
    raise ValueError(t)


def rand_tree(rng, depth, leaf, max_children=3, kinds=("tuple", "list", "dict", "none", "ntuple", "custom", "leaf", "leaf")):
    if depth <= 0:
        return leaf()
    k = rng.choice(kinds)
    if k == "leaf":
        return leaf()
    if k == "none":
        return NONE_V
    n = rng.below(max_children + 1)
    kids = [rand_tree(rng, depth - 1, leaf, max_children, kinds) for _ in range(n)]
    if k == "tuple":
        return {"t": "tuple", "xs": kids}
    if k == "list":
        return {"t": "list", "xs": kids}
    if k == "dict":
        keys = sorted(rng.sample(["a", "b", "c", "d", "e"], n))
        return {"t": "dict", "keys": keys, "vals": kids}
    if k == "ntuple":
        return {"t": "ntuple", "tag": f"NT{n}", "xs": kids}
    if k == "custom":
        return {"t": "custom", "tag": rng.choice(["CN", "CM"]), "fault": None, "xs": kids}
    raise ValueError(k)


def count_leaves(tree):
    t = tree["t"]
    if t in ("tuple", "list", "ntuple", "custom"):
        return sum(count_leaves(x) for x in tree["xs"])
    if t == "dict":
        return sum(count_leaves(x) for x in tree["vals"])
    if t == "none":
        return 0
    return 1


def normalize_union(ts):
    """what `typing.Union[...]` makes of the members: nested unions are flattened, members that compare
    equal are merged (classes, `Any`, `tuple[int, int]` ...; jaxtyping annotations are fresh classes every
    time and never compare equal), a single remaining member is returned as itself. Without this the
    model would be asked about `Union[Any, Any]` while the implementation sees plain `Any`."""
    flat = []
    for t in ts:
        flat.extend(t["ts"] if t.get("t") == "union" else [t])
    out = []
    for t in flat:
        s = json.dumps(t, sort_keys=True)
        fresh = '"arr"' in s or '"pytree"' in s
        if fresh or all(json.dumps(u, sort_keys=True) != s for u in out):
            out.append(t)
    return out[0] if len(out) == 1 else {"t": "union", "ts": out}


def rand_leaf_type(rng, arrays=True, depth=1, qmark=False):
    r = rng.below(12)
    if r == 0:
        return INT
    if r == 1:
        return STR
    if r == 2:
        return TUP_II
    if r == 3:
        return U_IS
    if r == 4:
        return ANY
    if r == 5 and depth > 0:
        return normalize_union([rand_leaf_type(rng, arrays, depth - 1, qmark), rand_leaf_type(rng, arrays, depth - 1, qmark)])
    if r == 6 and depth > 0:
        return {"t": "tuple", "ts": [rand_leaf_type(rng, arrays, depth - 1, qmark) for _ in range(rng.rng(1, 2))]}
    if arrays:
        dims = gen_dims.rand_dims(rng, max_axes=3, holes=(), treepath=qmark)
        # keep symbolic axes out of generic leaf types (they need bound names)
        toks = [t for t in dims.split() if not gen_dims.sym_names(t)]
        return arr_type(" ".join(toks), cls=rng.choice(["Duck", "Duck", "DuckB"]), cat=rng.choice(["Shaped", "Shaped", "Float"]))
    return INT


def all_small_trees(leaf, depth):
    """all trees up to `depth` over tuple/list/dict/None with <= 2 children"""
    if depth == 0:
        return [leaf, NONE_V]
    sub = all_small_trees(leaf, depth - 1)
    out = list(sub)
    for k in ("tuple", "list"):
        out.append({"t": k, "xs": []})
        for a in sub:
            out.append({"t": k, "xs": [a]})
        for a in sub[:4]:
            for b in sub[:4]:
                out.append({"t": k, "xs": [a, b]})
    for a in sub[:4]:
        out.append({"t": "dict", "keys": ["k"], "vals": [a]})
    return out


# ----------------------------------------------------------------------------- programs


def rand_params(rng, n, alpha, valpha, p_bad=0.15, types=None):
    params = []
    for i in range(n):
        lt = types[i] if types else rand_leaf_type(rng)
        good = not rng.chance(int(p_bad * 100), 100)
        params.append({"name": f"p{i}", "ty": lt, "val": leaf_value_for(rng, lt, alpha, valpha, good)})
    return params


def rand_prog(rng, depth, max_stmts=4, kinds=("new", "new", "old", "none"), allow_pytree=True):
    """a list of statements"""
    alpha = {nm: rng.below(4) for nm in gen_dims.NAMES}
    valpha = {nm: [rng.below(4) for _ in range(rng.below(3))] for nm in gen_dims.VNAMES}
    stmts = []
    for _ in range(rng.rng(1, max_stmts)):
        r = rng.below(10)
        if r < 3:
            lt = rand_leaf_type(rng)
            if allow_pytree and rng.chance(1, 3):
                leaf_t = lt
                lt = {"t": "pytree", "l": leaf_t, "s": rng.choice([None, None, "T", "S"])}
                x = rand_tree(rng, 2, lambda: leaf_value_for(rng, leaf_t, alpha, valpha, not rng.chance(1, 8)))
            else:
                x = leaf_value_for(rng, lt, alpha, valpha, not rng.chance(1, 5))
            stmts.append({"op": "check", "l": lt, "x": x})
        elif r < 5:
            stmts.append({"op": "print"})
        elif r < 8 and depth > 0:
            n = rng.below(3)
            params = rand_params(rng, n, alpha, valpha)
            ret = None
            if rng.chance(1, 2):
                lt = rand_leaf_type(rng)
                ret = {"ty": lt, "val": leaf_value_for(rng, lt, alpha, valpha, not rng.chance(1, 6))}
            stmts.append({
                "op": "call", "kind": rng.choice(kinds), "params": params, "ret": ret,
                "bindok": not rng.chance(1, 10), "notc": False,
                "body": rand_prog(rng, depth - 1, max_stmts, kinds, allow_pytree),
                "exit": rng.choice(["ret", "ret", "ret", "exc", "base"]),
            })
        elif depth > 0:
            stmts.append({"op": "ctx", "body": rand_prog(rng, depth - 1, max_stmts, kinds, allow_pytree),
                          "exit": rng.choice(["ret", "ret", "exc", "base"])})
        else:
            stmts.append({"op": "print"})
    return stmts


def prog_size(progs):
    n = 0
    for p in progs:
        n += 1
        if "body" in p:
            n += prog_size(p["body"])
    return n


def prog_depth(progs):
    d = 0
    for p in progs:
        if "body" in p:
            d = max(d, 1 + prog_depth(p["body"]))
    return d


def shrink_candidates(progs):
    """smaller variants of a statement list (delete a statement, replace a block by its body,
    shrink inside a body)"""
    for i in range(len(progs)):
        yield progs[:i] + progs[i + 1:]
    for i, p in enumerate(progs):
        if "body" in p:
            yield progs[:i] + p["body"] + progs[i + 1:]
            for b in shrink_candidates(p["body"]):
                q = dict(p)
                q["body"] = b
                yield progs[:i] + [q] + progs[i + 1:]
            if p.get("params"):
                for k in range(len(p["params"])):
                    q = dict(p)
                    q["params"] = p["params"][:k] + p["params"][k + 1:]
                    yield progs[:i] + [q] + progs[i + 1:]
            if p.get("ret") is not None:
                q = dict(p)
                q["ret"] = None
                yield progs[:i] + [q] + progs[i + 1:]


def shrink(progs, fails, budget=300):
    """greedy delta-debugging: `fails(prog)` is True when the disagreement is still there"""
    cur = progs
    improved = True
    while improved and budget > 0:
        improved = False
        for cand in shrink_candidates(cur):
            budget -= 1
            if budget <= 0:
                break
            try:
                if fails(cand):
                    cur = cand
                    improved = True
                    break
            except Exception:
                continue
    return cur
