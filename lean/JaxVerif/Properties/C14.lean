/-
C14 — the dim-string language: modifier order is free, illegal forms are ValueError.
The model `parseSpec : List Char → Option (List PDim × Option Nat)` is total by construction:
`none` is the ValueError, `some` the accepted meaning; there is no third outcome.
-/
import JaxVerif.Spec.Parse
import JaxVerif.Lemmas.Parse

namespace JV

/-- **modifier order is free**: any two orderings of the same modifier characters in front of the
    same rest of the token parse identically (value or ValueError alike) — unless an ordering puts
    `#` at the very end of the token, the documented trailing-`#` error. The rest may itself start
    with a `name=` prefix, a base of any kind, or be empty. -/
theorem C14_order (ms₁ ms₂ rest : List Char) (hp : ms₁.Perm ms₂)
    (hm : ∀ c ∈ ms₁, isMod c = true)
    (hlast : rest ≠ [] ∨ (ms₁.getLast? ≠ some '#' ∧ ms₂.getLast? ≠ some '#')) :
    parseTok (ms₁ ++ rest) = parseTok (ms₂ ++ rest) :=
  parseTok_perm ms₁ ms₂ rest hp hm hlast

/-- `...` means `*_` wherever it stands -/
theorem C14_ellipsis (pre post : List (List Char)) (idx : Nat) (iv : Option Nat) :
    parseToks (pre ++ ['.', '.', '.'] :: post) idx iv = parseToks (pre ++ ['*', '_'] :: post) idx iv :=
  parseToks_ellipsis pre post idx iv

/-- **whitespace is insignificant**: leading, trailing and repeated whitespace of any kind only
    separates tokens -/
theorem C14_whitespace (lead : List Char) (items : List (List Char × List Char))
    (hl : AllWs lead) (ht : ∀ it ∈ items, IsToken it.1 ∧ AllWs it.2) (hs : SepsOk items) :
    splitWs (renderSpec lead items) = items.map (·.1) :=
  splitWs_render lead items hl ht hs

/-- consequently two spellings with the same tokens parse identically -/
theorem C14_whitespace_parse (lead lead' : List Char) (items items' : List (List Char × List Char))
    (hl : AllWs lead) (hl' : AllWs lead')
    (ht : ∀ it ∈ items, IsToken it.1 ∧ AllWs it.2) (ht' : ∀ it ∈ items', IsToken it.1 ∧ AllWs it.2)
    (hs : SepsOk items) (hs' : SepsOk items') (heq : items.map (·.1) = items'.map (·.1)) :
    parseSpec (renderSpec lead items) = parseSpec (renderSpec lead' items') :=
  parseSpec_render_congr lead lead' items items' hl hl' ht ht' hs hs' heq

/-- **`name=` prefixes are ignored**: for an identifier `name` that does not start with `_`, in
    front of anything but `...` (which takes no decoration at all) -/
theorem C14_doc (name rest : List Char) (hn : isIdentifier name = true) (hu : name.head? ≠ some '_')
    (hr : countEq rest = 0) (hd : hasSub ['.', '.', '.'] rest = false) :
    parseTok (name ++ '=' :: rest) = parseTok rest :=
  parseTok_doc name rest hn hu hr hd

/-- **documented illegal forms are ValueError** -/
theorem C14_illegal_comma (tok : List Char) (h : tok.contains ',' = true) (hp : tok.contains '(' = false) :
    parseTok tok = none :=
  parseTok_comma tok h hp

theorem C14_illegal_trailing_hash (tok : List Char) (h : tok.getLast? = some '#') : parseTok tok = none :=
  parseTok_trailing_hash tok h

theorem C14_illegal_ellipsis_modifiers (tok : List Char) (h : hasSub ['.', '.', '.'] tok = true)
    (hne : tok ≠ ['.', '.', '.']) : parseTok tok = none :=
  parseTok_ellipsis_mods tok h hne

/-- a repeated modifier character in the modifier prefix -/
theorem C14_illegal_repeated (ms rest : List Char) (c : Char) (hc : isMod c = true)
    (hm : ∀ d ∈ ms, isMod d = true) (hin : c ∈ ms) : parseTok (ms ++ c :: rest) = none :=
  parseTok_repeated ms rest c hc hm hin

/-- modifiers that cannot apply: `*`, `_`, `?` on a fixed size; `_`, `*`, `?` on a symbolic
    expression; `#` together with `_` -/
theorem C14_illegal_modifier (ms base : List Char)
    (hm : ∀ d ∈ ms, isMod d = true) (hb : base ≠ [] ∧ isMod (base.head!) = false ∧ countEq base ≠ 1) :
    (∀ k, classify base = .fixed k → (ms.contains '*' ∨ ms.contains '_' ∨ ms.contains '?') →
        parseTok (ms ++ base) = none) ∧
    (classify base = .symbolic → (ms.contains '*' ∨ ms.contains '_' ∨ ms.contains '?') →
        parseTok (ms ++ base) = none) ∧
    (classify base = .named → ms.contains '_' → ms.contains '#' → parseTok (ms ++ base) = none) :=
  parseTok_illegal_modifier ms base hm hb

/-- two multi-axis specifiers anywhere in one specification -/
theorem C14_illegal_two_variadics (ts₁ ts₂ ts₃ : List (List Char)) (t u : List Char) (d e : PDim)
    (ht : parseTok t = some (d, true)) (hu : parseTok u = some (e, true)) (idx : Nat) (iv : Option Nat) :
    parseToks (ts₁ ++ t :: ts₂ ++ u :: ts₃) idx iv = none :=
  parseToks_two_variadics ts₁ ts₂ ts₃ t u d e ht hu idx iv

/-- **concatenation** (used for nested annotations, C15/C20): the outer string followed by the
    inner string parses to the concatenated axes, with the inner multi-axis index shifted -/
theorem C14_concat (s₁ s₂ : List Char) (d₁ d₂ : List PDim) (iv₁ iv₂ : Option Nat)
    (h₁ : parseSpec s₁ = some (d₁, iv₁)) (h₂ : parseSpec s₂ = some (d₂, iv₂))
    (hv : iv₁ = none ∨ iv₂ = none) :
    parseSpec (s₂ ++ ' ' :: s₁) =
      some (d₂ ++ d₁, match iv₂ with
                      | some i => some i
                      | none => iv₁.map (· + d₂.length)) :=
  parseSpec_concat s₁ s₂ d₁ d₂ iv₁ iv₂ h₁ h₂ hv

/-! non-vacuity / documented examples -/
example : parseSpec "#*foo".toList = parseSpec "*#foo".toList := by decide
example : parseSpec "  a   b ".toList = parseSpec "a b".toList := by decide
example : parseSpec "rows=3 cols=4".toList = parseSpec "3 4".toList := by decide
example : parseSpec "a,b".toList = none ∧ parseSpec "a#".toList = none ∧ parseSpec "##a".toList = none ∧
    parseSpec "*4".toList = none ∧ parseSpec "_4".toList = none ∧ parseSpec "?4".toList = none ∧
    parseSpec "_a+b".toList = none ∧ parseSpec "*a+b".toList = none ∧ parseSpec "?a+b".toList = none ∧
    parseSpec "#_".toList = none ∧ parseSpec "*a *b".toList = none ∧ parseSpec "#...".toList = none ∧
    parseSpec "... *a".toList = none := by decide
example : parseSpec "min(a,b) c".toList ≠ none := by decide

end JV
