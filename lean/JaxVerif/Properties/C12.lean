/-
C12 — a check's verdict never depends on earlier, unrelated activity in the process.
-/
import JaxVerif.Model.Threads
import JaxVerif.Spec.Calls
import JaxVerif.Generated.Storage
import JaxVerif.Generated.Skeleton
import JaxVerif.Lemmas.Flags
import JaxVerif.Source.Trees
import JaxVerif.Source.Storage

namespace JV

/-- **rest invariant**: after *every* program — whatever passed, failed or raised in it, including
    exceptions of either class thrown by user code in the middle of a check (array attributes via
    `{arg}`, custom flatteners, leaf `__instancecheck__`, the wrapped function) — the
    "only look at the array type" mode is off and no `?`-leaf position is set. -/
theorem C12_rest_invariant (sk : Skel) (w : WrapSkel) (hs : sk.Good) (ps : List Prog) (st : TState)
    (h0 : st.flatten = false ∧ st.tp = none) :
    (runProgs sk w ps st).1.flatten = false ∧ (runProgs sk w ps st).1.tp = none :=
  runProgs_rest sk w hs ps st h0

/-- one check, any state: the flags afterwards are what they were before, or cleared -/
theorem C12_check_flags (sk : Skel) (hs : sk.Good) (l : LType) (x : Obj) (st : CState) :
    ((checkL sk l x st).1.flatten = st.flatten ∨ (checkL sk l x st).1.flatten = false) ∧
    ((checkL sk l x st).1.tp = st.tp ∨ (checkL sk l x st).1.tp = none) :=
  checkL_flags sk hs l x st

/-- **the verdict is a function of value, annotation and current bindings**: at rest, two thread
    states whose current context holds the same bindings give the same verdict and the same new
    bindings, whatever else differs (depth of the stack, bindings of callers, history). -/
theorem C12_pure_verdict (sk : Skel) (l : LType) (x : Obj) (st₁ st₂ : TState)
    (hrest : st₁.flatten = false ∧ st₁.tp = none ∧ st₂.flatten = false ∧ st₂.tp = none)
    (htop : st₁.stack.head? = st₂.stack.head?) :
    (onTop st₁ (checkL sk l x)).2 = (onTop st₂ (checkL sk l x)).2 ∧
    (onTop st₁ (checkL sk l x)).1.stack.head? = (onTop st₂ (checkL sk l x)).1.stack.head? :=
  onTop_pure sk l x st₁ st₂ hrest htop

/-- the skeleton read from the current source releases both flags in a `finally` -/
theorem C12_generated_good :
    Generated.flattenInFinally = some true ∧ Generated.treepathInFinally = some true := by decide

/-- what survives a check, a call or a block is only what `_storage.py` holds per thread (shown above to be at rest
    afterwards) and the construction-time caches listed here; nothing else in the package is process-wide and mutable -/
theorem C12_no_other_state : Generated.processGlobalState = knownGlobalState := by decide

/-- each fact matters: a custom flattener that raises with the release outside `finally` leaves
    flatten mode on; a leaf check that raises (here: AnnotationError from an unbound symbolic name) with the clear
    outside `finally` leaves the label set -/
theorem C12_facts_matter :
    let good : Skel := ⟨.baseException, .baseException, true, true, true, true⟩
    let w : WrapSkel := ⟨true, true, true, true, true, true, true, true⟩
    ((runProg { good with flattenInFinally := false } w
        (.check (.pytree .int none) (.custom "C" (some .exception) [])) {}).1.flatten = true) ∧
    ((runProg { good with treepathInFinally := false } w
        (.check (.pytree (.arr "" { dtypes := .any, shape := { pre := [.sym (.var "q") false], var := none } }) (some "T"))
          (.tuple [.arr "D" { isInst := true, dtype := "f", shape := [3] }])) {}).1.tp ≠ none) := by
  decide

/-- **the two `try / finally` blocks of `_check`, as written today**: the flatten-mode flag is released in a `finally` by the
    outermost flattener only, the label cleared in a `finally` by the PyTree that set it — the translated code computes
    the model's `pytreeInstancecheck` with both facts true, whatever the leaf check does. `C12_rest_invariant` is
    therefore a statement about the code the source contains. -/
theorem C12_source_flags (env : TEnv) (ac : Catch) (hf : FlattenKept env.leafCheck) (st : CState) :
    runInstancecheck env Generated.instancecheckCode Generated.checkCode st =
      some (if env.bare then (st, .T)
            else pytreeInstancecheck (goodSkel ac) env.leafCheck env.leafAny env.S env.x st) :=
  source_tree_instancecheck env ac hf st

/-- the flatten-mode flag itself, from the source read today (`clear_` / `set_` / `get_treeflatten_memo`): a thread that
    never touched it reads False; clear and set store False and True, nothing else -/
theorem C12_source_flag_cell (ctx : KCtx) (cell : Option KVal) (h : FlattenCellOk cell) :
    runCellFn Generated.treeflattenFuns ctx Generated.clearTreeflattenCode cell = some (some (.bool false), .inl .none) ∧
    runCellFn Generated.treeflattenFuns ctx Generated.setTreeflattenCode cell = some (some (.bool true), .inl .none) ∧
    runCellFn Generated.treeflattenFuns ctx Generated.getTreeflattenCode cell = some (cell, .inl (.bool (flattenOfCell cell))) :=
  source_cell_flatten ctx cell h

end JV
