/-
A small imperative language with exceptions for `_MetaPyTree.__instancecheck__` and `_MetaPyTree._check`
(jaxtyping/_pytree_type.py). The translator (harness/translate_tree.py) turns the current Python source of the
two function bodies into terms of this language (`Generated/TreeCode.lean`); `Source/Trees.lean` proves, on
every run, that running the translated code is `pytreeInstancecheck` of the hand-written model with every
structural fact `true` — for every value, every leaf check (an arbitrary function of value and thread state:
it may bind, answer False, raise), every structure string and every thread state.
The block that compares / binds / composes structure names is one primitive here (`structBlock`, the model's
`structStep`); flattening (`jax.tree_util.tree_flatten` with the leaf predicate) is the primitive `flatten`
(the model's `flat`). Everything else — the order of snapshot, flatten flag, flatten, structure step, leaf loop,
label set / cleared, rollback on False and on exceptions, `finally` blocks — is code that is interpreted.
The interpreter is strict: unrecognised constructs are `.unknown`, reading a local before it is assigned
crashes; a crash never equals a result of the model. Core Lean only.
-/
import JaxVerif.Model.PyTree

namespace JV

inductive TCls | baseException | exception | typeError
  deriving DecidableEq, Repr

/-- does `except <cls>` catch an exception in flight (payload: the verdict it will become) -/
def TCls.covers : TCls → Verdict → Bool
  | .baseException, _ => true
  | .exception, .EXC .baseException => false
  | .exception, _ => true
  | .typeError, _ => false      -- a TypeError from the leaf check has already become `False` inside the predicate

inductive TCond
  | bare            -- `not hasattr(cls, "leaftype")`
  | objNone         -- `obj is None`
  | out             -- the value `_check` returned
  | leafAny         -- `cls.leaftype is Any`
  | hasStructure    -- `cls.structure is not None`
  | wasFlattening   -- the saved `get_treeflatten_memo()`
  | not (c : TCond)
  | unknown
  deriving Repr

inductive TStmt
  | skip
  | seq (a b : TStmt)
  | ite (c : TCond) (t e : TStmt)
  | ret (b : Bool)                 -- `return True` / `return False`
  | snapshot                       -- `… = get_shape_memo()` and the four `.copy()`s
  | restore                        -- `set_shape_memo(<the four copies>)`
  | callCheck                      -- `out = cls._check(obj, pytree_memo)`
  | tryFinally (b f : TStmt)
  | tryExcept (b hs : TStmt)
  | handler (cls : TCls) (body next : TStmt)
  | endHandlers
  | reraise
  | pickLeafPred (anyBranch : Bool) -- the definitions of `is_flatten_leaftype` / `is_check_leaftype` for this branch
  | saveWas                        -- `was_flattening = get_treeflatten_memo()`
  | setFlatten                     -- `set_treeflatten_memo()`
  | clearFlatten                   -- `clear_treeflatten_memo()`
  | flatten                        -- `leaves, structure = jtu.tree_flatten(obj, is_leaf=is_flatten_leaftype)`
  | structBlock                    -- the body of `if cls.structure is not None:` after flattening
  | forLeaves (body : TStmt)       -- `for leaf_index, leaf in enumerate(leaves): body`
  | setTreepath                    -- `set_treepath_memo(leaf_index, cls.structure)`
  | clearTreepath                  -- `clear_treepath_memo()`
  | leafTest (onFalse : TStmt)     -- `if not is_check_leaftype(leaf): onFalse`
  | unknown
  deriving Repr

structure TEnv where
  leafCheck : Obj → CState → CState × Verdict
  leafAny : Bool
  S : Option String
  x : Obj
  bare : Bool

structure TSt where
  st : CState
  bak : Option Memo := none
  out : Option Bool := none
  was : Option Bool := none
  /-- which branch defined the two leaf predicates (`some true` = the `Any` branch) -/
  preds : Option Bool := none
  leaves : Option (List Obj) := none
  d : Def := .leaf
  cur : Option (Nat × Obj) := none
  caught : Option Verdict := none

inductive TRes
  | normal (s : TSt)
  | ret (b : Bool) (s : TSt)
  | raised (v : Verdict) (s : TSt)
  | crash

def objIsNone : Obj → Bool
  | .none => true
  | _ => false

def TCond.eval (env : TEnv) (s : TSt) : TCond → Option Bool
  | .bare => some env.bare
  | .objNone => some (objIsNone env.x)
  | .out => s.out
  | .leafAny => some env.leafAny
  | .hasStructure => some env.S.isSome
  | .wasFlattening => s.was
  | .not c => (c.eval env s).map (!·)
  | .unknown => none

/-- the leaf predicate the code has defined: in the `Any` branch `is_flatten_leaftype` is constantly False (flatten all
    the way down) and `is_check_leaftype` constantly True; otherwise both are the typechecked leaf test -/
def TSt.flattenPred (env : TEnv) (s : TSt) : Option (Bool) :=
  match s.preds with
  | some b => if b == env.leafAny then some (!b) else none      -- the wrong branch ran: crash
  | none => none

/-- the `for` loop: `body` once per leaf, in order; `return` / exceptions leave it -/
def runFor (body : TSt → TRes) : List Obj → Nat → TSt → TRes
  | [], _, s => .normal { s with cur := none }
  | x :: xs, i, s =>
    match body { s with cur := some (i, x) } with
    | .normal s' => runFor body xs (i + 1) s'
    | .ret b s' => .ret b { s' with cur := none }
    | .raised v s' => .raised v { s' with cur := none }
    | .crash => .crash

def TStmt.run (env : TEnv) (checkRun : TSt → TRes) : TStmt → TSt → TRes
  | .skip, s => .normal s
  | .seq a b, s =>
    (match a.run env checkRun s with
     | .normal s' => b.run env checkRun s'
     | r => r)
  | .ite c t e, s =>
    (match c.eval env s with
     | none => .crash
     | some true => t.run env checkRun s
     | some false => e.run env checkRun s)
  | .ret b, s => .ret b s
  | .snapshot, s =>
    -- outside any context `get_shape_memo` hands out fresh empty dictionaries
    .normal { s with bak := some s.st.memo, st := if s.st.noCtx then { s.st with memo := {} } else s.st }
  | .restore, s =>
    (match s.bak with
     | some m => .normal { s with st := { s.st with memo := m } }
     | none => .crash)
  | .callCheck, s =>
    if s.bak.isNone then .crash      -- `pytree_memo` is a name bound by the snapshot
    else
      (match checkRun s with
       | .ret b s' => .normal { s' with out := some b }
       | .normal _ => .crash           -- fell off the end: `None`, neither True nor False
       | r => r)
  | .tryFinally b f, s =>
    (match b.run env checkRun s with
     | .crash => .crash
     | .normal s' => f.run env checkRun s'
     | .ret v s' =>
       (match f.run env checkRun s' with
        | .normal s'' => .ret v s''
        | r => r)
     | .raised x s' =>
       (match f.run env checkRun s' with
        | .normal s'' => .raised x s''
        | r => r))
  | .tryExcept b hs, s =>
    (match b.run env checkRun s with
     | .raised x s' => hs.run env checkRun { s' with caught := some x }
     | r => r)
  | .handler cls body next, s =>
    (match s.caught with
     | none => .crash
     | some x => if cls.covers x then body.run env checkRun s else next.run env checkRun s)
  | .endHandlers, s =>
    (match s.caught with
     | none => .crash
     | some x => .raised x s)
  | .reraise, s =>
    (match s.caught with
     | none => .crash
     | some x => .raised x s)
  | .pickLeafPred b, s => .normal { s with preds := some b }
  | .saveWas, s => .normal { s with was := some s.st.flatten }
  | .setFlatten, s => .normal { s with st := { s.st with flatten := true } }
  | .clearFlatten, s => .normal { s with st := { s.st with flatten := false } }
  | .flatten, s =>
    (match s.flattenPred env with
     | none => .crash
     | some useLeaf =>
       (match flat env.leafCheck useLeaf env.x s.st with
        | (st', .ok ls d) => .normal { s with st := st', leaves := some ls, d := d }
        | (st', .raised v) => .raised v { s with st := st' }))
  | .structBlock, s =>
    (match env.S, s.leaves with
     | some str, some _ =>
       (match structStep str s.d s.st.memo.pytree with
        | .ok pm => .normal { s with st := { s.st with memo := { s.st.memo with pytree := pm } } }
        | .fail => .ret false s
        | .annErr => .raised .ANN s
        | .exc e => .raised (.EXC e) s)
     | _, _ => .crash)
  | .forLeaves body, s =>
    (match s.leaves with
     | some ls => runFor (fun s' => body.run env checkRun s') ls 0 s
     | none => .crash)
  | .setTreepath, s =>
    (match env.S, s.cur with
     | some str, some (i, _) =>
       if s.st.tp.isSome then .raised .ANN s
       else .normal { s with st := { s.st with tp := some (i, str) } }
     | _, _ => .crash)
  | .clearTreepath, s => .normal { s with st := { s.st with tp := none } }
  | .leafTest onFalse, s =>
    (match s.cur, s.preds with
     | some (_, x), some anyB =>
       if anyB != env.leafAny then .crash
       else
         (match (if env.leafAny then (s.st, Verdict.T) else env.leafCheck x s.st) with
          | (st', .T) => .normal { s with st := st' }
          | (st', .F) => onFalse.run env checkRun { s with st := st' }
          | (st', v) => .raised v { s with st := st' })
     | _, _ => .crash)
  | .unknown, _ => .crash

/-- `isinstance(x, PyTree[...])` through the translated code: `icode` is `__instancecheck__`, `ccode` is `_check` -/
def runInstancecheck (env : TEnv) (icode ccode : TStmt) (st : CState) : Option (CState × Verdict) :=
  let fix (s : CState) : CState := if st.noCtx then { s with memo := st.memo } else s
  match icode.run env (fun s => ccode.run env (fun _ => .crash) s) { st := st } with
  | .ret true s => some (fix s.st, .T)
  | .ret false s => some (fix s.st, .F)
  | .raised v s => some (fix s.st, v)
  | .normal _ => none
  | .crash => none

end JV
