/-
Helper lemmas for C19: the configuration switches (`_maybestr2bool`, `config.update`) and the
disabled new-style call.  Also supplies decidable equality of observations for the `by decide`
theorems of Properties/C19.lean and C07.lean.
Core Lean only.
-/
import JaxVerif.Model.Config
import JaxVerif.Spec.Calls
import JaxVerif.Lemmas.Rollback

/-! `Obs` derives only `Repr` in Model/Call.lean (it holds memos); decidable equality is supplied
here, in a sub-namespace so the instance name cannot clash with one derived elsewhere.
`List.count` on observations uses the `BEq` instance that comes with it. -/
namespace JV.Disable
deriving instance DecidableEq for JV.Obs
end JV.Disable

namespace JV

/-! ### `_maybestr2bool` -/

theorem cfgLit_0 : "0".toList = ['0'] := by decide
theorem cfgLit_1 : "1".toList = ['1'] := by decide
theorem cfgLit_true : "true".toList = ['t','r','u','e'] := by decide
theorem cfgLit_false : "false".toList = ['f','a','l','s','e'] := by decide

theorem str2bool_str (s : List Char) :
    str2bool (.str s) =
      if lowerStr s = ['0'] ∨ lowerStr s = ['f','a','l','s','e'] then some false
      else if lowerStr s = ['1'] ∨ lowerStr s = ['t','r','u','e'] then some true else none := by
  simp only [str2bool, cfgLit_0, cfgLit_1, cfgLit_true, cfgLit_false, Bool.or_eq_true, decide_eq_true_eq]

theorem str2bool_spec (v : CfgVal) :
    (str2bool v = some true ↔ v = .bool true ∨ ∃ s, v = .str s ∧ (lowerStr s = ['1'] ∨ lowerStr s = ['t', 'r', 'u', 'e'])) ∧
    (str2bool v = some false ↔ v = .bool false ∨ ∃ s, v = .str s ∧ (lowerStr s = ['0'] ∨ lowerStr s = ['f', 'a', 'l', 's', 'e'])) := by
  cases v with
  | bool b => cases b <;> simp [str2bool]
  | other => simp [str2bool]
  | str s =>
    rw [str2bool_str]
    simp only [reduceCtorEq, false_or, CfgVal.str.injEq, exists_eq_left']
    generalize lowerStr s = l
    by_cases h0 : l = ['0'] <;> by_cases hf : l = ['f','a','l','s','e'] <;>
      by_cases h1 : l = ['1'] <;> by_cases ht : l = ['t','r','u','e'] <;> simp_all

theorem lowerStr_eq_iff (s word : List Char) :
    lowerStr s = word ↔
      s.length = word.length ∧ ∀ i (h : i < s.length) (h' : i < word.length), lowerAscii s[i] = word[i] := by
  unfold lowerStr
  constructor
  · intro h
    subst h
    refine ⟨by simp, fun i h h' => by simp⟩
  · rintro ⟨hl, hp⟩
    apply List.ext_getElem
    · simpa using hl
    · intro i h1 h2
      rw [List.getElem_map]
      exact hp i (by simpa using h1) h2

theorem str2bool_any_case (s : List Char) :
    (str2bool (.str s)).isSome = true ↔
      ∃ word ∈ [['0'], ['1'], ['t', 'r', 'u', 'e'], ['f', 'a', 'l', 's', 'e']],
        s.length = word.length ∧ ∀ i (h : i < s.length) (h' : i < word.length), lowerAscii s[i] = word[i] := by
  simp only [← lowerStr_eq_iff, List.mem_cons, List.not_mem_nil, or_false, exists_eq_or_imp,
    exists_eq_left]
  rw [str2bool_str]
  generalize lowerStr s = l
  by_cases h0 : l = ['0'] <;> by_cases hf : l = ['f','a','l','s','e'] <;>
      by_cases h1 : l = ['1'] <;> by_cases ht : l = ['t','r','u','e'] <;> simp_all

theorem cfgUpdate_spec (item : List Char) (v : CfgVal) (c : Cfg) :
    (lowerStr item ≠ "jaxtyping_disable".toList → lowerStr item ≠ "jaxtyping_remove_typechecker_stack".toList →
        cfgUpdate item v c = none) ∧
    (lowerStr item = "jaxtyping_disable".toList →
        cfgUpdate item v c = (str2bool v).map fun b => { c with disable := b }) := by
  constructor
  · intro h1 h2
    simp only [cfgUpdate, h1, h2, if_false]
  · intro h1
    simp only [cfgUpdate, h1, if_true]

/-! ### the disabled call -/

theorem disabled_is_bare (sk : Skel) (w : WrapSkel) (hw : w.disableTestFirst = true)
    (ps : List Param) (ret : Option (LType × Obj)) (bindOk noTc : Bool) (body : List Prog) (e : Exit)
    (st : TState) (hoff : st.disable = true ∨ noTc = true) :
    runProg sk w (.call .newStyle ps ret bindOk noTc body e) st =
      if bindOk then
        ((runProgs sk w body st).1, [Obs.bodyStart] ++ (runProgs sk w body st).2 ++ [Obs.outcome (exitOutcome e)])
      else (st, [Obs.outcome .bindError]) := by
  have hcond : (w.disableTestFirst && (st.disable || noTc)) = true := by
    rcases hoff with h | h <;> simp [hw, h]
  rw [runProg]
  simp only [hcond, if_true]
  cases bindOk <;> rfl

theorem toggle_then_call (sk : Skel) (w : WrapSkel) (b : Bool) (p : Prog) (st : TState) :
    runProgs sk w [.setDisable b, p] st = runProgs sk w [p] { st with disable := b } := by
  rw [runProgs, runProg]
  simp only [List.nil_append]

end JV
