"""Environment facts for C03: for every dtype each installed array library can produce, what the
dtype *looks like* to jaxtyping (the attributes `__instancecheck_str__` reads), its canonical
name and its kind. Written to lean/JaxVerif/Generated/Backends.lean; the same rows drive the
complete (dtype, category, backend) enumeration on the implementation."""
import os
import warnings

import numpy as np

from common import GEN, write_if_changed
from extract import lean_str

warnings.filterwarnings("ignore")


class TorchStyleDtype:
    """a dtype OBJECT (not a string) that only prints its name, the way torch / mlx dtypes do: `torch.float32`,
    `mlx.core.float32`, `some.deeply.nested.lib.float32`, or the bare `float32`"""

    def __init__(self, name, prefix="torch."):
        self._n = name
        self._p = prefix

    def __repr__(self):
        return self._p + self._n


class DuckArr:
    def __init__(self, dtype, shape=(2,)):
        self.dtype = dtype
        self.shape = shape


def kind_of(np_dtype):
    import ml_dtypes

    t = np_dtype.type
    n = np_dtype.name
    if np_dtype.kind == "b":
        return "bool"
    if np_dtype.kind == "u" or n in ("uint2", "uint4"):
        return "uint"
    if np_dtype.kind == "i" or n in ("int2", "int4"):
        return "int"
    if np_dtype.kind == "c":
        return "complex"
    if np_dtype.kind == "f":
        return "float"
    if hasattr(ml_dtypes, n) and n.startswith(("float", "bfloat")):
        return "float"
    return "other"


def raw_of(obj):
    """the attributes of obj.dtype that jaxtyping may read"""
    d = obj.dtype
    raw = {}
    if hasattr(d, "type") and hasattr(d.type, "__name__"):
        raw["typeName"] = d.type.__name__
    if isinstance(d, np.dtype):
        if d.type.__name__ == "void" and d is not np.dtype(np.void):
            raw["structStr"] = str(d)
        if d.kind in "iufc":
            raw["npName"] = d.name
    if hasattr(d, "as_numpy_dtype"):
        raw["asNumpyName"] = d.as_numpy_dtype.__name__
    if isinstance(d, str):
        raw["strVal"] = str.__str__(d)      # the plain text, also for str subclasses (enum members, numpy.str_)
    else:
        raw["reprFull"] = repr(d)
    return raw


def gather(with_tf=True):
    """list of rows: dict(canon, kind, backend, raw, make) ; make() builds an array object"""
    import jax
    import jax.numpy as jnp
    import ml_dtypes

    rows = []
    scalar_types = {t for t in np.sctypeDict.values()}
    for nm in dir(ml_dtypes):
        t = getattr(ml_dtypes, nm)
        if isinstance(t, type) and nm not in ("finfo", "iinfo"):
            scalar_types.add(t)
    np_dtypes = []
    for t in sorted(scalar_types, key=lambda t: t.__name__):
        try:
            d = np.dtype(t)
            np.zeros(2, dtype=d)
        except Exception:
            continue
        np_dtypes.append(d)
    for d in np_dtypes:
        if d.kind in "SUOMmV" and kind_of(d) == "other" and d.name not in ("void",):
            k = "other"
        else:
            k = kind_of(d)
        mk = (lambda d: lambda: np.zeros(2, dtype=d))(d)
        rows.append(dict(canon=d.name if k != "bool" else "bool", kind=k, backend="numpy", alias=d.type.__name__, make=mk))
    # the same dtypes in the other byte order (arrays read from files, network buffers): same `dtype.type`, same `dtype.name`,
    # another `str(dtype)` ('>f4')
    for d in np_dtypes:
        k = kind_of(d)
        if k in ("int", "uint", "float", "complex") and d.itemsize > 1 and d.kind in "iufc":
            sd = d.newbyteorder("S")
            if sd.byteorder in ("<", ">") and sd != d:
                rows.append(dict(canon=d.name, kind=k, backend="numpy-swapped", alias=d.type.__name__, make=(lambda sd: lambda: np.zeros(2, dtype=sd))(sd)))
    # structured dtypes
    for fields in ([("first", np.uint8), ("second", np.int8)], [("x", np.float32)]):
        d = np.dtype(fields)
        rows.append(dict(canon=str(d), kind="struct", backend="numpy-struct", alias="struct", make=(lambda d: lambda: np.zeros(2, dtype=d))(d)))
    # JAX (x64 on so that 64-bit types exist), concrete arrays and PRNG keys
    jax.config.update("jax_enable_x64", True)
    for d in np_dtypes:
        k = kind_of(d)
        if k == "other":
            continue
        try:
            a = jnp.zeros(2, dtype=d)
        except Exception:
            continue
        if a.dtype != d:
            continue
        rows.append(dict(canon=d.name if k != "bool" else "bool", kind=k, backend="jax", alias=d.type.__name__, make=(lambda d: lambda: jnp.zeros(2, dtype=d))(d)))
    rows.append(dict(canon="prng_key", kind="key", backend="jax-key", alias="key", make=lambda: jax.random.key(0)))
    rows.append(dict(canon="uint32", kind="uint", backend="jax-oldkey", alias="PRNGKey", make=lambda: jax.random.PRNGKey(0)))
    if with_tf:
        try:
            import tensorflow as tf

            for nm in ("float16", "bfloat16", "float32", "float64", "int8", "int16", "int32", "int64", "uint8", "uint16", "uint32", "uint64",
                       "bool", "complex64", "complex128", "string"):
                td = getattr(tf, nm)
                try:
                    if nm == "string":
                        mk = lambda: tf.constant(["a", "b"])  # noqa: E731
                    else:
                        mk = (lambda td: lambda: tf.zeros([2], dtype=td))(td)
                    mk()
                except Exception:
                    continue
                nd = np.dtype(td.as_numpy_dtype)
                k = kind_of(nd) if nm != "string" else "other"
                rows.append(dict(canon=(nd.name if k != "bool" else "bool") if nm != "string" else "object", kind=k, backend="tensorflow", alias=nm, make=mk))
        except ImportError:
            pass
    # duck arrays: string dtypes and torch-style dtypes
    numeric = sorted({(r["canon"], r["kind"]) for r in rows if r["kind"] in ("bool", "uint", "int", "float", "complex")})
    for canon, k in numeric:
        rows.append(dict(canon=canon, kind=k, backend="duck-str", alias=canon, make=(lambda c: lambda: DuckArr(c))(canon)))
    for nm in ("float32", "float64", "float16", "bfloat16", "int8", "int16", "int32", "int64", "uint8", "bool", "complex64", "complex128",
               "float8_e4m3fn", "float8_e5m2"):
        k = dict(numeric).get(nm, "bool" if nm == "bool" else "other")
        rows.append(dict(canon=nm, kind=k, backend="duck-torch", alias=nm, make=(lambda n: lambda: DuckArr(TorchStyleDtype(n)))(nm)))
        if nm in ("float32", "bfloat16", "int8", "uint8", "bool", "complex64", "int64", "float8_e5m2"):
            for be, prefix in (("duck-mlx", "mlx.core."), ("duck-deep", "some.deeply.nested.lib."), ("duck-bare", "")):
                rows.append(dict(canon=nm, kind=k, backend=be, alias=nm, make=(lambda n, p: lambda: DuckArr(TorchStyleDtype(n, p)))(nm, prefix)))
    rows.append(dict(canon="my_dtype", kind="other", backend="duck-str", alias="my_dtype", make=lambda: DuckArr("my_dtype")))
    # string dtypes carried by SUBCLASSES of str: members of a `class DType(str, Enum)`, of an `enum.StrEnum`, `numpy.str_`
    import enum

    names = ["float32", "bfloat16", "int8", "uint8", "bool", "complex64"]
    MixinEnum = enum.Enum("MixinEnum", {n: n for n in names}, type=str)
    StrEnum_ = enum.StrEnum("StrEnum_", {n: n for n in names})
    for nm in names:
        k = dict(numeric).get(nm, "bool" if nm == "bool" else "other")
        for be, mk in (("duck-str-enum", (lambda n: lambda: DuckArr(MixinEnum[n]))(nm)), ("duck-strenum", (lambda n: lambda: DuckArr(StrEnum_[n]))(nm)),
                       ("duck-npstr", (lambda n: lambda: DuckArr(np.str_(n)))(nm))):
            rows.append(dict(canon=nm, kind=k, backend=be, alias=nm, make=mk))
    for r in rows:
        r["raw"] = raw_of(r["make"]())
    return rows


def render(rows):
    def opt(v):
        return "none" if v is None else f"some {lean_str(v)}"

    out = []
    for r in rows:
        raw = r["raw"]
        out.append(
            f"  ⟨{lean_str(r['canon'])}, .{r['kind'] if r['kind'] != 'struct' else 'other'}, {lean_str(r['backend'] + ':' + r['alias'])}, "
            f"⟨{opt(raw.get('typeName'))}, {opt(raw.get('structStr'))}, {opt(raw.get('npName'))}, {opt(raw.get('asNumpyName'))}, "
            f"{opt(raw.get('strVal'))}, {lean_str(raw.get('reprFull', ''))}⟩⟩"
        )
    txt = (
        "/- GENERATED by harness/envrows.py from the array libraries installed in this environment\n"
        "   (numpy, ml_dtypes, jax, tensorflow, duck arrays) on every C03 run. Do not edit. -/\n"
        "import JaxVerif.Spec.Dtype\n\nnamespace JV.Generated\n\n"
        "/-- one row per (dtype, array library): canonical name, kind, library:alias, and what\n"
        "    `obj.dtype` looks like to the code -/\n"
        "def backendRows : List DtypeRow := [\n" + ",\n".join(out) + "]\n\nend JV.Generated\n"
    )
    write_if_changed(os.path.join(GEN, "Backends.lean"), txt)


def run():
    rows = gather()
    render(rows)
    return rows


if __name__ == "__main__":
    rs = run()
    print(len(rs), "rows")
