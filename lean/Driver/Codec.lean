/-
JSON codecs of the line protocol (driver only; not part of any proof).
-/
import Lean.Data.Json
import JaxVerif.Model.Core
import JaxVerif.Model.Parse
import JaxVerif.Model.PyTree
import JaxVerif.Model.Call

open Lean JV

namespace Drv

def jstr (s : String) : Json := Json.str s
def jnat (n : Nat) : Json := Json.num (JsonNumber.fromNat n)
def jint (n : Int) : Json := Json.num (JsonNumber.fromInt n)
def jarr (l : List Json) : Json := Json.arr l.toArray

def getStr (j : Json) (k : String) : Except String String := do (← j.getObjVal? k).getStr?
def getNat (j : Json) (k : String) : Except String Nat := do (← j.getObjVal? k).getNat?
def getBoolD (j : Json) (k : String) (d : Bool) : Bool :=
  match j.getObjVal? k with
  | .ok v => (v.getBool?.toOption).getD d
  | .error _ => d
def getArr (j : Json) (k : String) : Except String (List Json) := do
  return (← (← j.getObjVal? k).getArr?).toList
def getNatList (j : Json) (k : String) : Except String (List Nat) := do
  (← getArr j k).mapM (·.getNat?)
def getStrList (j : Json) (k : String) : Except String (List String) := do
  (← getArr j k).mapM (·.getStr?)
def getOpt (j : Json) (k : String) : Option Json :=
  match j.getObjVal? k with
  | .ok .null => none
  | .ok v => some v
  | .error _ => none

def parseExc (s : String) : Except String Exc :=
  match s with
  | "EXC" => .ok .exception
  | "BASEEXC" => .ok .baseException
  | _ => .error s!"bad exception class {s}"

def verdictStr : Verdict → String
  | .T => "T" | .F => "F" | .ANN => "ANN"
  | .EXC .exception => "EXC" | .EXC .baseException => "BASEEXC"

/-! rendering of structures as `str(PyTreeDef)` does -/
mutual
partial def renderDef : Def → String
  | .leaf => "*"
  | .node .tuple [c] => "(" ++ renderDef c ++ ",)"
  | .node .tuple cs => "(" ++ ", ".intercalate (cs.map renderDef) ++ ")"
  | .node .list cs => "[" ++ ", ".intercalate (cs.map renderDef) ++ "]"
  | .node .none _ => "None"
  | .node (.dict ks) cs =>
    "{" ++ ", ".intercalate ((ks.zip cs).map fun (k, c) => "'" ++ k ++ "': " ++ renderDef c) ++ "}"
  | .node (.custom tag) cs =>
    let head := if tag.startsWith "namedtuple:" then "namedtuple[" ++ (tag.drop 11).toString ++ "]" else tag ++ "[None]"
    "CustomNode(" ++ head ++ ", [" ++ ", ".intercalate (cs.map renderDef) ++ "])"
end

def singleJson (σ : Single) : Json :=
  jarr (σ.reverse.map fun (k, n) => jarr [jstr k.render, jnat n])
def variadicJson (ν : Variadic) : Json :=
  jarr (ν.map fun (k, (b, s)) => jarr [jstr k.render, Json.bool b, jarr (s.map jnat)])
def memoJson (m : Memo) : Json :=
  Json.mkObj [("single", singleJson m.single), ("variadic", variadicJson m.variadic),
    ("struct", jarr (m.pytree.map fun (k, d) => jarr [jstr k, jstr ("PyTreeDef(" ++ renderDef d ++ ")")]))]

def parseArgsObj (a : Json) : Except String Args := do
  let kvs ← a.getObj?
  kvs.toList.mapM fun (k, v) => do
    match v with
    | .str s => return (k, ArgVal.raises (← parseExc s))
    | _ => return (k, ArgVal.int (← v.getInt?))

def parseCatchStr (s : String) : Catch := if s == "base" then .baseException else .exceptionOnly

def parseSkel (j : Json) : Skel :=
  match j.getObjVal? "skel" with
  | .ok s =>
    { arrayCatch := parseCatchStr ((getStr s "arrayCatch").toOption.getD "exception")
      pytreeCatch := parseCatchStr ((getStr s "pytreeCatch").toOption.getD "exception")
      flattenInFinally := getBoolD s "flattenInFinally" true
      flattenRestores := getBoolD s "flattenRestores" false
      treepathInFinally := getBoolD s "treepathInFinally" true
      treepathGuarded := getBoolD s "treepathGuarded" false }
  | .error _ =>
    { arrayCatch := .exceptionOnly, pytreeCatch := .exceptionOnly, flattenInFinally := true,
      flattenRestores := false, treepathInFinally := true, treepathGuarded := false }

def parseWrapSkel (j : Json) : WrapSkel :=
  match j.getObjVal? "wrap" with
  | .ok s =>
    { newPopInFinally := getBoolD s "newPopInFinally" true
      oldPopInFinally := getBoolD s "oldPopInFinally" true
      ctxExitPopsAlways := getBoolD s "ctxExitPopsAlways" true
      newBindBeforePush := getBoolD s "newBindBeforePush" true
      oldBindBeforePush := getBoolD s "oldBindBeforePush" true
      disableTestFirst := getBoolD s "disableTestFirst" true
      annErrFirst := getBoolD s "annErrFirst" true
      messageCurrent := getBoolD s "messageCurrent" true }
  | .error _ =>
    { newPopInFinally := true, oldPopInFinally := true, ctxExitPopsAlways := true,
      newBindBeforePush := true, oldBindBeforePush := true, disableTestFirst := true,
      annErrFirst := true, messageCurrent := true }

/-- errors starting with "SKIP:" mean the input is outside the modelled fragment -/
def annOfDims (dims : String) (dtypes : DtypeSpec) (transparent : Bool) : Except String Ann :=
  match parseSpec dims.toList with
  | none => .error "SKIP:VAL"
  | some (ds, iv) =>
    match toShape ds iv with
    | none => .error "SKIP:UNMODELLED"
    | some sh => .ok { dtypes := dtypes, shape := sh, transparent := transparent }

partial def parseObj (j : Json) : Except String Obj := do
  let t ← getStr j "t"
  match t with
  | "int" => return .int (← (← j.getObjVal? "v").getInt?)
  | "str" => return .str (← getStr j "v")
  | "none" => return .none
  | "opaque" => return .opaque (← getStr j "tag")
  | "arr" =>
    return .arr (← getStr j "cls")
      { isInst := true, dtype := (getStr j "dtype").toOption.getD "float32",
        shape := ← getNatList j "shape", payload := (getNat j "payload").toOption.getD 0 }
  | "tuple" => return .tuple (← (← getArr j "xs").mapM parseObj)
  | "list" => return .list (← (← getArr j "xs").mapM parseObj)
  | "dict" => return .dict (← getStrList j "keys") (← (← getArr j "vals").mapM parseObj)
  | "ntuple" => return .ntuple (← getStr j "tag") (← (← getArr j "xs").mapM parseObj)
  | "custom" =>
    let fault ← match getOpt j "fault" with
      | none => pure none
      | some f => pure (some (← parseExc (← f.getStr?)))
    return .custom (← getStr j "tag") fault (← (← getArr j "xs").mapM parseObj)
  | _ => throw s!"bad obj tag {t}"

partial def parseLType (j : Json) : Except String LType := do
  let t ← getStr j "t"
  match t with
  | "any" => return .any
  | "int" => return .int
  | "str" => return .str
  | "none" => return .noneT
  | "bare" => return .barePytree
  | "user" =>
    let faults ← match getOpt j "faults" with
      | none => pure []
      | some f => do
        let kvs ← f.getObj?
        kvs.toList.mapM fun (k, v) => do return (k, ← parseExc (← v.getStr?))
    return .user (← getStrList j "accept") faults
  | "arr" =>
    let dtypes : DtypeSpec ← match getOpt j "dtypes" with
      | none => pure DtypeSpec.any
      | some d => do
        let l ← d.getArr?
        pure (DtypeSpec.names (← l.toList.mapM (·.getStr?)))
    let ann ← annOfDims (← getStr j "dims") dtypes (getBoolD j "transparent" false)
    return .arr ((getStr j "cls").toOption.getD "") ann
  | "tuple" => return .tuple (← (← getArr j "ts").mapM parseLType)
  | "union" => return .union (← (← getArr j "ts").mapM parseLType)
  | "pytree" =>
    let s ← match getOpt j "s" with
      | none => pure none
      | some v => pure (some (← v.getStr?))
    return .pytree (← parseLType (← j.getObjVal? "l")) s
  | _ => throw s!"bad ltype tag {t}"

def parseExit (s : String) : Exit :=
  match s with
  | "exc" => .raiseExc
  | "base" => .raiseBase
  | _ => .ret

partial def parseProg (j : Json) : Except String Prog := do
  let op ← getStr j "op"
  match op with
  | "check" => return .check (← parseLType (← j.getObjVal? "l")) (← parseObj (← j.getObjVal? "x"))
  | "print" => return .print
  | "disable" => return .setDisable (getBoolD j "v" true)
  | "ctx" =>
    return .ctx (← (← getArr j "body").mapM parseProg) (parseExit ((getStr j "exit").toOption.getD "ret"))
  | "call" =>
    let kind : CallKind := match (getStr j "kind").toOption.getD "new" with
      | "old" => .oldStyle
      | "none" => .noChecker
      | _ => .newStyle
    let params ← (← getArr j "params").mapM fun p => do
      return ({ name := ← getStr p "name", ty := ← parseLType (← p.getObjVal? "ty"),
                val := ← parseObj (← p.getObjVal? "val") } : Param)
    let ret ← match getOpt j "ret" with
      | none => pure none
      | some r => do
        pure (some (← parseLType (← r.getObjVal? "ty"), ← parseObj (← r.getObjVal? "val")))
    return .call kind params ret (getBoolD j "bindok" true) (getBoolD j "notc" false)
      (← (← getArr j "body").mapM parseProg) (parseExit ((getStr j "exit").toOption.getD "ret"))
  | _ => throw s!"bad prog op {op}"

def outcomeJson : CallOutcome → List (String × Json)
  | .returned => [("v", jstr "returned")]
  | .tceParams b => [("v", jstr "tceParams"), ("blame", match b with | none => Json.null | some s => jstr s)]
  | .tceReturn => [("v", jstr "tceReturn")]
  | .checkerError => [("v", jstr "checkerError")]
  | .ann => [("v", jstr "ann")]
  | .exc .exception => [("v", jstr "exc")]
  | .exc .baseException => [("v", jstr "baseexc")]
  | .bindError => [("v", jstr "bindError")]

def obsJson : Obs → Json
  | .verdict v => Json.mkObj [("o", jstr "verdict"), ("v", jstr (verdictStr v))]
  | .bindings none => Json.mkObj [("o", jstr "bindings"), ("m", Json.null)]
  | .bindings (some m) => Json.mkObj [("o", jstr "bindings"), ("m", memoJson m)]
  | .bodyStart => Json.mkObj [("o", jstr "body")]
  | .outcome o => Json.mkObj ([("o", jstr "outcome")] ++ outcomeJson o)
  | .tceBindings m => Json.mkObj [("o", jstr "tcebindings"), ("m", memoJson m)]

end Drv
