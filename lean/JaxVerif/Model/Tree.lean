/-
PyTree structures (`jax.tree_util.PyTreeDef`) as far as jaxtyping looks at them.
-/
namespace JV

/-- node kinds: tuple, list, None, dict with (sorted) keys, namedtuple/custom with a tag -/
inductive Kind
  | tuple | list | none | dict (keys : List String) | custom (tag : String)
  deriving DecidableEq, Repr

/-- A pytree *structure* (PyTreeDef): leaves carry no data. -/
inductive Def
  | leaf
  | node (k : Kind) (cs : List Def)
  deriving Repr

mutual
def Def.beq : Def → Def → Bool
  | .leaf, .leaf => true
  | .node k cs, .node k' cs' => k == k' && Def.beqList cs cs'
  | _, _ => false
def Def.beqList : List Def → List Def → Bool
  | [], [] => true
  | a :: as, b :: bs => Def.beq a b && Def.beqList as bs
  | _, _ => false
end

instance : BEq Def := ⟨Def.beq⟩

mutual
/-- replace every leaf of `s` by `t` (what `tree_map(lambda _: t, s)` builds) -/
def Def.subst (t : Def) : Def → Def
  | .leaf => t
  | .node k cs => .node k (Def.substList t cs)
def Def.substList (t : Def) : List Def → List Def
  | [] => []
  | c :: cs => Def.subst t c :: Def.substList t cs
end

mutual
def Def.numLeaves : Def → Nat
  | .leaf => 1
  | .node _ cs => Def.numLeavesList cs
def Def.numLeavesList : List Def → Nat
  | [] => 0
  | c :: cs => c.numLeaves + Def.numLeavesList cs
end

mutual
/-- `tree_map(f, p, x)` succeeds: `p` is a prefix of `x` -/
def Def.isPrefix : Def → Def → Bool
  | .leaf, _ => true
  | .node k cs, .node k' cs' => k == k' && Def.isPrefixList cs cs'
  | .node _ _, .leaf => false
def Def.isPrefixList : List Def → List Def → Bool
  | [], [] => true
  | a :: as, b :: bs => Def.isPrefix a b && Def.isPrefixList as bs
  | _, _ => false
end

mutual
/-- the suffix test of `PyTree[L, "... T"]`: flatten `d` top-down stopping at nodes whose
    structure equals `t` (`tree_leaves(dummy, is_leaf=has_structure)`), then require every
    resulting leaf to have structure `t`. -/
def Def.isSuffix (t : Def) : Def → Bool
  | .leaf => Def.beq .leaf t
  | .node k cs => Def.beq (.node k cs) t || Def.isSuffixList t cs
def Def.isSuffixList (t : Def) : List Def → Bool
  | [] => true
  | c :: cs => Def.isSuffix t c && Def.isSuffixList t cs
end

end JV
