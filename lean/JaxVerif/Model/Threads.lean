/-
Model of the storage of jaxtyping/_storage.py under threads: three cells (the context stack, the
`?`-leaf label, the flatten-mode flag), each either a `threading.local()` — every thread has its
own copy — or a process-global object shared by all threads. Which it is, is read from the source
by the translator (`Generated.storageCells`).
A thread's program is a list of *steps*; a step is an arbitrary function of what the thread sees
of the three cells (one bytecode, one storage access, one whole check: any granularity). A schedule
is a list of thread ids. Core Lean only.
-/
import JaxVerif.Model.Call

namespace JV

/-- what the three cells hold, as one thread sees them -/
structure Cells where
  stack : List Memo := []      -- `_shape_storage.memo_stack`
  tp : TreePath := none        -- `_treepath_storage.value`
  flatten : Bool := false      -- `_treeflatten_storage.value`

/-- `true` = the cell is a `threading.local()` -/
structure Kinds where
  shape : Bool
  treepath : Bool
  treeflatten : Bool
  deriving DecidableEq, Repr

def Kinds.allLocal (k : Kinds) : Bool := k.shape && k.treepath && k.treeflatten

structure World where
  shared : Cells
  locals : Nat → Cells

/-- what thread `t` sees -/
def World.view (k : Kinds) (w : World) (t : Nat) : Cells :=
  { stack := if k.shape then (w.locals t).stack else w.shared.stack
    tp := if k.treepath then (w.locals t).tp else w.shared.tp
    flatten := if k.treeflatten then (w.locals t).flatten else w.shared.flatten }

/-- thread `t` stores `c` -/
def World.write (k : Kinds) (w : World) (t : Nat) (c : Cells) : World :=
  { shared :=
      { stack := if k.shape then w.shared.stack else c.stack
        tp := if k.treepath then w.shared.tp else c.tp
        flatten := if k.treeflatten then w.shared.flatten else c.flatten }
    locals := fun u =>
      if u = t then
        { stack := if k.shape then c.stack else (w.locals t).stack
          tp := if k.treepath then c.tp else (w.locals t).tp
          flatten := if k.treeflatten then c.flatten else (w.locals t).flatten }
      else w.locals u }

/-- one atomic step of a thread -/
abbrev Step (Obs : Type) := Cells → Cells × List Obs

structure Run (Obs : Type) where
  w : World
  pc : Nat → Nat
  trace : Nat → List Obs

/-- let thread `t` execute its next step (nothing happens if it has finished) -/
def stepRun {Obs : Type} (k : Kinds) (progs : Nat → List (Step Obs)) (r : Run Obs) (t : Nat) : Run Obs :=
  match (progs t)[r.pc t]? with
  | none => r
  | some f =>
    let (c, o) := f (r.w.view k t)
    { w := r.w.write k t c
      pc := fun u => if u = t then r.pc t + 1 else r.pc u
      trace := fun u => if u = t then r.trace t ++ o else r.trace u }

def runSched {Obs : Type} (k : Kinds) (progs : Nat → List (Step Obs)) (r : Run Obs) (sched : List Nat) : Run Obs :=
  sched.foldl (stepRun k progs) r

/-- everything thread `t` can observe of a run: its own cells, its position, its transcript -/
structure ThreadView (Obs : Type) where
  cells : Cells
  pc : Nat
  trace : List Obs

def Run.viewOf {Obs : Type} (r : Run Obs) (t : Nat) : Cells × Nat × List Obs :=
  (r.w.locals t, r.pc t, r.trace t)

/-! ### the steps of the jaxtyping model as thread steps -/

def Cells.ofTState (s : TState) : Cells := { stack := s.stack, tp := s.tp, flatten := s.flatten }

/-- one top-level statement of a thread's program (a check, a decorated call, a context block …)
    run as ONE step on the cells the thread sees -/
def progStep (sk : Skel) (w : WrapSkel) (p : Prog) : Step Obs := fun c =>
  let r := runProgs sk w [p] { stack := c.stack, tp := c.tp, flatten := c.flatten, disable := false }
  (Cells.ofTState r.1, r.2)

/-- the process-wide mutable state of the package outside `_storage.py`, as it is today: construction-time caches
    of annotation classes, the constant dtype-name tables, the typechecker table of the import hook, two write-once flags -/
def knownGlobalState : List String :=
  ["__init__.py:__getattr__:cache", "_array_types.py:_array_name_format:global", "_array_types.py:_make_array_cached:cache",
   "_array_types.py:_union_types:module", "_array_types.py:bools:module", "_array_types.py:complexes:module",
   "_array_types.py:float8:module", "_array_types.py:ints:module", "_array_types.py:uints:module",
   "_decorator.py:_tb_flag:global", "_import_hook.py:Typechecker.lookup:class", "_pytree_type.py:__getitem__:cache"]

end JV
