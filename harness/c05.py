"""C05 — bindings live exactly as long as one jaxtyped call or context block.

Random programs of nested decorated calls (new-style, old-style, typechecker=None), context
blocks, manual checks, exits by return / Exception / BaseException / non-binding call.
Direct property evaluation: the caller's bindings and stack depth after every call / block equal
those before; at top level nothing is printed; generators do not keep a context open.
Correspondence: the whole observation transcript equals the Lean model's (`runProgs`).
"""

import json

import extract
import gen_prog
import impl
import impl_prog
import jaxtyping
from common import Rng
from impl_prog import Duck
from jaxtyping import Float, jaxtyped

LEVEL = "proof"
THEOREMS = ["C05_source_storage", "C05_source_storage_history", 
    "C05_balanced",
    "C05_ctx_exact",
    "C05_call_exact",
    "C05_toplevel_stateless",
    "C05_callee_fresh",
    "C05_generated_good",
    "C05_facts_matter",
    "C05_source_wrappers",
    "C05_source_pop_whatever",
]
RULE = (
    "random programs (depth <=3 quick / <=5 thorough) of decorated calls of three flavours, context "
    "blocks, manual checks of array/PyTree/typing annotations and print_bindings(), with exits by "
    "return, Exception, BaseException, non-binding call, under typeguard and beartype; plus "
    "generator / async-generator / coroutine producing functions; non-trivial = nesting depth >=2 or "
    "an exceptional exit; distinct by program text"
)
TRUSTED = [
    "harness/translate_storage.py (recognisers of the statements of get/set/push/pop_shape_memo and their helpers) and the interpreter Model/StorageDsl.lean (one list object per thread cell; list end = head of the model's list)",
    "Lean 4 kernel",
    "harness/extract.py: recognition of push/try-finally-pop, bind-before-push, __exit__",
    "CPython try/finally semantics",
    "harness/translate_wrap.py (recognisers of the statements of the jaxtyped wrappers, _JaxtypingContext and _get_problem_arg) and the interpreters Model/WrapDsl.lean / Model/BlameDsl.lean (the typechecker passes, the one-parameter checker and message-text statements are primitives)",
]


def check_frames(out, prog):
    for kind, before, after, stmt in getattr(impl_prog.run_program, "last_frame_checks", []):
        if before != after:
            (b0, d0), (b1, d1) = before, after
            exit_ = stmt.get("exit", "ret")
            out.violation(
                f"frame:{kind}:{exit_}:{'depth' if d0 != d1 else 'bindings'}",
                f"after a {kind} statement ending by {exit_} the caller's context changed: depth {d0}->{d1}, bindings {b0} -> {b1}",
                {"program": prog, "statement": stmt, "before": before, "after": after},
            )


def generator_cases(out):
    """a generator / coroutine produced by a decorated function keeps no context open"""
    import asyncio

    from jaxtyping import _storage

    def depth():
        return impl_prog.stack_depth()

    x = Duck((3,), "float32")
    for style in ("new-typeguard", "none", "old"):
        import typeguard

        def deco(f):
            if style == "new-typeguard":
                return jaxtyped(typechecker=typeguard.typechecked)(f)
            if style == "none":
                return jaxtyped(typechecker=None)(f)
            return jaxtyped(f)

        seen = []

        @deco
        def gen(a: Float[Duck, "n"]):
            yield 1
            seen.append(isinstance(Duck((5,), "float32"), Float[Duck, "n"]))  # binds n in the *current* context
            yield 2

        @deco
        async def agen(a: Float[Duck, "n"]):
            yield 1

        @deco
        async def coro(a: Float[Duck, "n"]):
            return 1

        with jaxtyped("context"):
            d0 = depth()
            b0 = impl.canon_bindings(impl.bindings())
            g = gen(x)
            ag = agen(x)
            c = None
            try:
                c = coro(x)
            except jaxtyping.TypeCheckError:
                pass  # known finding F4 territory (C07): coroutine vs return annotation; not C05's business
            d1 = depth()
            b1 = impl.canon_bindings(impl.bindings())
            out.case(("generator", style), True, sample={"generator_case": style})
            if d1 != d0 or b1 != b0:
                out.violation(f"generator:{style}:open-context", f"creating a generator/coroutine left the context changed: depth {d0}->{d1} bindings {b0}->{b1}", {"style": style})
            try:
                next(g)
                next(g)  # runs the isinstance inside: binds n=5 in THIS context, not n=3 of the finished call
                resumed = "ok"
            except BaseException as e:  # noqa: BLE001
                resumed = type(e).__name__
            b2 = impl.canon_bindings(impl.bindings())
            d2 = depth()
            if resumed != "ok" or seen != [True] or d2 != d0 or b2["single"] not in ([["n", 5]],):
                out.violation(f"generator:{style}:resume", f"resuming a generator created by a finished call did not run in the consumer's current context "
                              f"(the finished call's bindings must be gone): resume={resumed}, the check of a size-5 array against 'n' inside it answered {seen}, "
                              f"depth {d0}->{d2}, consumer's bindings afterwards {b2}", {"style": style})
            try:
                g.close()
            except BaseException:  # noqa: BLE001
                pass
            if c is not None:
                c.close()
            try:
                asyncio.run(ag.aclose())
            except Exception:
                pass
        if depth() != 0:
            out.violation(f"generator:{style}:leak", "stack not empty after the block", {"style": style})
            impl_prog.residual_state()


def wrapped_generator_cases(out):
    """old-style decoration of a generator function that sits under further `functools.wraps`-style decorators (plain,
    with a `__signature__`, with extra attributes, two levels): whatever the chain looks like, the values the generator
    yields later are not checked against — and bind nothing in — the context of whoever consumes it"""
    import functools
    import inspect
    import typing

    import typeguard

    def plain(f):
        @functools.wraps(f)
        def w(*a, **k):
            return f(*a, **k)
        return w

    def with_signature(f):
        w = plain(f)
        w.__signature__ = inspect.signature(f)
        return w

    def with_attrs(f):
        w = plain(f)
        w.calls = 0
        w.__signature__ = inspect.signature(f)
        w.__text_signature__ = "(x)"
        return w

    chains = [("no extra decorator", lambda f: f), ("wraps", plain), ("wraps + __signature__", with_signature), ("wraps + attributes", with_attrs),
              ("two levels, inner with __signature__", lambda f: plain(with_signature(f))), ("two levels, outer with __signature__", lambda f: with_signature(plain(f)))]
    for cname, chain in chains:
        Ann = Float[Duck, "n"]          # a fresh annotation object per chain (known finding F2 is about sharing it)

        def chunks(x: Ann) -> typing.Iterator[Ann]:
            yield x
            yield x

        try:
            fn = jaxtyped(typeguard.typechecked(chain(chunks)))
        except BaseException as e:  # noqa: BLE001
            out.count("wrapped_generator_not_decoratable")
            continue
        res = {}
        try:
            with jaxtyped("context"):
                isinstance(Duck((5,), "float32"), Float[Duck, "n"])
                b0 = impl.canon_bindings(impl.bindings())["single"]
                try:
                    res["items"] = len(list(fn(Duck((3,), "float32"))))
                except BaseException as e:  # noqa: BLE001
                    res["items"] = f"raised {type(e).__name__}"
                res["consumer"] = (b0, impl.canon_bindings(impl.bindings())["single"])
            with jaxtyped("context"):
                try:
                    list(fn(Duck((3,), "float32")))
                except BaseException:  # noqa: BLE001
                    pass
                res["fresh_consumer"] = impl.canon_bindings(impl.bindings())["single"]
        finally:
            impl_prog.drain_stack()
        out.case(("wrapped-generator", cname), True, sample={"chain": cname, **{k: str(v) for k, v in res.items()}})
        if res.get("items") != 2 or res["consumer"][0] != res["consumer"][1] or res.get("fresh_consumer") != []:
            out.violation("wrapped-generator", f"@jaxtyped @typechecked over [{cname}] over a generator function: consumed inside a block that has n=5 bound it gives "
                          f"{res.get('items')} (2 items), the block's bindings go {res['consumer'][0]} -> {res['consumer'][1]}; consumed inside an empty block it leaves "
                          f"{res.get('fresh_consumer')} bound there ([])", {"wrapped_generator": cname})
            return


def run_one(out, drv, facts, prog, checker, rng, tag):
    skel, wrap = extract.skel_request(facts)
    w = drv.ask({"cmd": "prog", "prog": prog, "skel": skel, "wrap": wrap})
    got, resid = impl_prog.run_program(prog, checker, rng)
    check_frames(out, prog)
    depth = gen_prog.prog_depth(prog)
    exceptional = '"exit": "exc"' in json.dumps(prog) or '"exit": "base"' in json.dumps(prog)
    out.case(json.dumps(prog, sort_keys=True), depth >= 2 or exceptional,
             sample={"program": prog, "observations": len(got)})
    out.count(f"depth_{depth}")
    out.count("size", gen_prog.prog_size(prog))
    if resid["depth"] != 0:
        out.violation(f"{tag}:residual-depth", f"after a top-level program the context stack holds {resid['depth']} frames", {"program": prog})
    clean = impl_prog.probe_clean()
    if not all(clean.values()):
        out.violation(f"{tag}:toplevel-not-stateless", f"top-level probes after the program: {clean}", {"program": prog, "probes": clean})
        impl_prog.residual_state()
    if "skip" in w:
        out.count("unmodelled")
        return
    want = impl_prog.canon_model_obs(w["obs"])
    # the bindings listed by a TypeCheckError are C13's business; ignore them here
    g2 = [o for o in got if o["o"] != "tcebindings"]
    w2 = [o for o in want if o["o"] != "tcebindings"]
    if checker == "beartype":
        # beartype's own traversal of tuple/union hints is not the modelled (typeguard) one:
        # compare only depth/frames (done above) and the outcomes of array-only programs
        return
    if g2 != w2:
        def differs(pr):
            ww = drv.ask({"cmd": "prog", "prog": pr, "skel": skel, "wrap": wrap})
            if "skip" in ww:
                return False
            gg, _ = impl_prog.run_program(pr, checker, None)
            return [o for o in gg if o["o"] != "tcebindings"] != [o for o in impl_prog.canon_model_obs(ww["obs"]) if o["o"] != "tcebindings"]

        small = gen_prog.shrink(prog, differs, budget=150)
        ww = drv.ask({"cmd": "prog", "prog": small, "skel": skel, "wrap": wrap})
        gg, _ = impl_prog.run_program(small, checker, None)
        if tag in ("block-arguments", "toggle"):
            # directed programs whose verdicts the statement dictates (a block starts from nothing; a block ends the context it opened)
            out.violation(f"{tag}:transcript", f"the program must behave as {impl_prog.canon_model_obs(ww.get('obs', []))} (every context starts empty and ends where it began) "
                          f"but the implementation gives {gg}", {"program": small, "impl": gg})
        else:
            out.model_diff(f"{tag}:transcript", f"implementation transcript {gg} differs from the model's {impl_prog.canon_model_obs(ww.get('obs', []))}",
                           {"program": small, "impl": gg, "model": ww})


def toggle_programs():
    """the disable switch changes while a context block is open (a helper that silences checking for a section, a block
    left by an exception before the switch is restored): a block still ends exactly the context it opened"""
    a = gen_prog.arr_type
    v = gen_prog.arr_val
    chk = lambda d, s: {"op": "check", "l": a(d), "x": v(s)}  # noqa: E731
    P_ = {"op": "print"}
    on, off = {"op": "disable", "v": True}, {"op": "disable", "v": False}
    outer = lambda body: [{"op": "call", "kind": "none", "params": [{"name": "x", "ty": a("n"), "val": v([3])}], "ret": None, "bindok": True,  # noqa: E731
                           "notc": False, "body": body, "exit": "ret"}, off, P_, chk("n", [9]), P_]
    return [
        outer([P_, {"op": "ctx", "body": [chk("n", [4]), on], "exit": "ret"}, off, P_, chk("n", [3]), chk("n", [4]), P_]),
        outer([P_, on, {"op": "ctx", "body": [off, chk("n", [4]), P_], "exit": "ret"}, P_, chk("n", [3]), chk("n", [4]), P_]),
        outer([{"op": "ctx", "body": [chk("n", [4]), on], "exit": "exc"}, off, P_, chk("n", [3]), P_]),
        [{"op": "ctx", "body": [chk("n", [4]), on, {"op": "ctx", "body": [chk("n", [5]), off], "exit": "ret"}, P_, chk("n", [4])], "exit": "ret"}, off, P_, chk("n", [7]), chk("n", [8]), P_],
        [on, {"op": "ctx", "body": [chk("n", [4]), P_], "exit": "ret"}, off, P_, chk("n", [7]), chk("n", [8]), P_],
    ]


def block_argument_programs():
    """a context block inside a decorated call starts from nothing: neither the caller's axis bindings nor the caller's
    ARGUMENTS (`{n}`) are visible in it"""
    a, v = gen_prog.arr_type, gen_prog.arr_val
    chk = lambda d, s: {"op": "check", "l": a(d), "x": v(s)}  # noqa: E731
    P_ = {"op": "print"}
    call = lambda kind, body: [{"op": "call", "kind": kind, "params": [{"name": "n", "ty": gen_prog.ANY, "val": gen_prog.ival(3)},  # noqa: E731
                                                                         {"name": "x", "ty": a("k"), "val": v([3])}],
                                 "ret": None, "bindok": True, "notc": False, "body": body, "exit": "ret"}, P_]
    progs = []
    for kind in ("none", "new", "old"):
        progs.append(call(kind, [chk("{n}", [3]), P_, {"op": "ctx", "body": [chk("{n}", [3]), P_], "exit": "ret"}, P_, chk("{n}", [3]), chk("k", [4]), P_]))
        progs.append(call(kind, [{"op": "ctx", "body": [{"op": "ctx", "body": [chk("{n}+1", [4]), P_], "exit": "ret"}, chk("k", [9]), P_], "exit": "ret"}, chk("k", [3]), P_]))
    return progs


def recursion_cases(out):
    """a decorated function re-entered while one of its own calls is still active (self- and mutual recursion): when the
    inner call has ended — by return, Exception or BaseException — the outer call's bindings are what they were"""
    import typeguard

    from impl_prog import Duck, canon_bindings

    class Stop(BaseException):
        pass

    for style in ("none", "new", "old"):
        for how in ("return", "exception", "base"):
            log = []

            def deco(fn):
                if style == "none":
                    return jaxtyped(typechecker=None)(fn)
                if style == "new":
                    return jaxtyped(typechecker=typeguard.typechecked)(fn)
                return jaxtyped(typeguard.typechecked(fn))

            @deco
            def rec(x: Float[Duck, "n"], depth: int):
                isinstance(Duck((x.shape[0], 7), "float32"), Float[Duck, "n m"])
                before = canon_bindings(impl.bindings())["single"]
                if depth > 0:
                    try:
                        rec(Duck((x.shape[0] + 1,), "float32"), depth - 1)
                    except (ValueError, Stop):
                        pass
                elif how == "exception":
                    raise ValueError("inner")
                elif how == "base":
                    raise Stop()
                after = canon_bindings(impl.bindings())["single"]
                log.append((depth, before, after, impl.check_once(Duck((x.shape[0],), "float32"), Float[Duck, "n"])))
                return x

            @deco
            def ping(x: Float[Duck, "n"], k: int):
                isinstance(x, Float[Duck, "n"])
                r = pong(Duck((x.shape[0] + 2,), "float32"), k) if k else None
                log.append(("ping", k, canon_bindings(impl.bindings())["single"]))
                return x

            @deco
            def pong(y: Float[Duck, "n"], k: int):
                return ping(Duck((y.shape[0] + 2,), "float32"), k - 1)

            try:
                rec(Duck((3,), "float32"), 2)
                ping(Duck((1,), "float32"), 2)
                bad = [e for e in log if (e[0] != "ping" and (e[1] != e[2] or e[3] != "T" or ["n", 3 + (2 - e[0])] not in e[1]))
                       or (e[0] == "ping" and e[2] != [["n", 1 + 4 * (2 - e[1])]])]
                got = "ok" if not bad else f"wrong: {bad[:2]}"
            except BaseException as e:  # noqa: BLE001
                got = f"raised {type(e).__name__}: {e}"[:200]
            out.case(("recursion", style, how), True, sample={"wrapper": style, "inner_call_ends_by": how, "log": [list(map(str, e)) for e in log][:6], "outcome": got})
            if got != "ok":
                out.violation(f"recursion:{style}", f"recursive decorated calls ({style}-style wrapper, innermost call ends by {how}): {got} — every level must see its own "
                              f"bindings before and after the call it makes", {"recursion": [style, how]})


def awkward_exception_cases(out):
    """a block / a call left by an exception object that misbehaves when touched: it refuses new attributes and notes
    (a frozen dataclass, `__slots__`, a raising `__setattr__`), its `__notes__` is not a list, its `__repr__` / `__str__`
    raise. Whatever happens to the error message, the bindings of the block / call end with it: afterwards the thread is
    where it was."""
    import dataclasses

    import typeguard

    from impl_prog import Duck, canon_bindings, stack_depth

    @dataclasses.dataclass(frozen=True)
    class Frozen(Exception):
        code: int = 1

    class NoSetattr(Exception):
        def __setattr__(self, k, v):
            raise AttributeError("read-only")

    class BadNotes(Exception):
        __notes__ = "not a list"

    class BadRepr(Exception):
        def __repr__(self):
            raise RuntimeError("repr")

        __str__ = __repr__

    class Slots(Exception):
        __slots__ = ()

    excs = [Frozen, NoSetattr, BadNotes, BadRepr, Slots]

    def scopes(E):
        def block():
            with jaxtyped("context"):
                isinstance(Duck((3,), "float32"), Float[Duck, "a"])
                raise E()

        @jaxtyped(typechecker=None)
        def old(x: Float[Duck, "n"]):
            isinstance(x, Float[Duck, "n"])
            raise E()

        @jaxtyped(typechecker=typeguard.typechecked)
        def new(x: Float[Duck, "n"]):
            raise E()

        @jaxtyped
        @typeguard.typechecked
        def stacked(x: Float[Duck, "n"]):
            raise E()

        return [("context block", block), ("typechecker=None call", lambda: old(Duck((4,), "float32"))), ("new-style call", lambda: new(Duck((4,), "float32"))),
                ("old-style call", lambda: stacked(Duck((4,), "float32")))]

    for E in excs:
        for sname, run_scope in scopes(E):
            for outer in ("top level", "inside a block"):
                d0 = stack_depth()
                try:
                    if outer == "top level":
                        try:
                            run_scope()
                            how = "no exception"
                        except BaseException as e:  # noqa: BLE001
                            how = type(e).__name__
                        d1, b1 = stack_depth(), None
                    else:
                        with jaxtyped("context"):
                            isinstance(Duck((7,), "float32"), Float[Duck, "q"])
                            b0 = canon_bindings(impl.bindings())["single"]
                            try:
                                run_scope()
                                how = "no exception"
                            except BaseException as e:  # noqa: BLE001
                                how = type(e).__name__
                            b1 = (b0, canon_bindings(impl.bindings())["single"])
                            d1 = stack_depth() - 1
                finally:
                    impl_prog.drain_stack()
                out.case(("awkward-exception", E.__name__, sname, outer), True, sample={"exception": E.__name__, "scope": sname, "where": outer, "raised": how, "depth_after": d1})
                rep = {"awkward": E.__name__, "scope": sname}
                if d1 != d0:
                    out.violation(f"awkward-exception:depth:{sname}", f"a {sname} left by {E.__name__}() ({outer}; what came out: {how}) leaves {d1 - d0} binding context(s) open", rep)
                elif b1 is not None and b1[0] != b1[1]:
                    out.violation(f"awkward-exception:bindings:{sname}", f"after a {sname} left by {E.__name__}() the enclosing block sees bindings {b1[1]} instead of {b1[0]}", rep)


def recursion_limit_cases(out):
    """blocks and calls opened all the way down to the interpreter's recursion limit: however the RecursionError
    unwinds them, every block that was entered is left again — the caller sees its own bindings, and outside everything
    checks are stateless. Tried at 8 stack alignments (the limit is hit at another statement each time) and for a walk
    that recurses first and checks afterwards (post-order) as well as one that checks first."""
    import sys

    from impl_prog import Duck, canon_bindings, stack_depth

    def walk_post(k):
        with jaxtyped("context"):
            walk_post(k + 1)
            isinstance(Duck((k % 5 + 1,), "float32"), Float[Duck, "n"])

    def walk_pre(k):
        with jaxtyped("context"):
            isinstance(Duck((k % 5 + 1,), "float32"), Float[Duck, "n"])
            walk_pre(k + 1)

    @jaxtyped(typechecker=None)
    def walk_fn(x: Float[Duck, "n"], k):
        isinstance(x, Float[Duck, "n"])
        with jaxtyped("context"):
            walk_fn(Duck((k % 5 + 1,), "float32"), k + 1)

    def pad(k, thunk):
        return thunk() if k == 0 else pad(k - 1, thunk)

    old_limit = sys.getrecursionlimit()
    sys.setrecursionlimit(400)     # the walks go down in steps of 2-3 frames; 400 keeps them cheap
    try:
        for wname, walk in (("post-order blocks", lambda: walk_post(0)), ("pre-order blocks", lambda: walk_pre(0)),
                            ("decorated function with a block", lambda: walk_fn(Duck((1,), "float32"), 0))):
            for align in range(8):
                d0 = stack_depth()
                seen = {}

                @jaxtyped(typechecker=None)
                def caller(x):
                    isinstance(x, Float[Duck, "foo"])
                    try:
                        pad(align, walk)
                        seen["how"] = "returned"
                    except RecursionError:
                        seen["how"] = "RecursionError"
                    seen["mine"] = canon_bindings(impl.bindings())["single"]
                    seen["rejects5"] = impl.check_once(Duck((5,), "float32"), Float[Duck, "foo"])
                    seen["accepts3"] = impl.check_once(Duck((3,), "float32"), Float[Duck, "foo"])
                    seen["depth"] = stack_depth()

                try:
                    caller(Duck((3,), "float32"))
                    d1 = stack_depth()
                    stateless = [impl.check_once(Duck((m,), "float32"), Float[Duck, "foo"]) for m in (3, 5, 7)]
                finally:
                    impl_prog.drain_stack()
                out.case(("recursion-limit", wname, align), True, sample={"walk": wname, "alignment": align, **{k: str(v) for k, v in seen.items()}, "depth_after": d1})
                rep = {"recursion_limit": [wname, align]}
                if seen.get("how") != "RecursionError":
                    out.count("recursion_limit_not_reached")
                    continue
                if seen["depth"] != d0 + 1 or d1 != d0:
                    out.violation("recursion-limit:depth", f"{wname} down to the recursion limit (alignment {align}), RecursionError caught by a decorated caller: inside the caller "
                                  f"{seen['depth'] - d0} binding context(s) are open (must be 1), after it returned {d1 - d0} (must be 0)", rep)
                    return
                if seen["mine"] != [["foo", 3]] or seen["rejects5"] != "F" or seen["accepts3"] != "T" or stateless != ["T", "T", "T"]:
                    out.violation("recursion-limit:bindings", f"{wname} down to the recursion limit (alignment {align}): afterwards the caller (foo=3) sees {seen['mine']}, "
                                  f"a length-5 array gives {seen['rejects5']} (F), a length-3 one {seen['accepts3']} (T); outside everything lengths 3, 5, 7 give {stateless}", rep)
                    return
    finally:
        sys.setrecursionlimit(old_limit)


def other_thread_cases(out):
    """bindings belong to the call / block of ONE thread: while a thread is inside a decorated call (or a block) that has
    bound `n`, checks made by another thread outside any call are stateless, and its own calls see only their own
    bindings; sequenced with events, no timing"""
    import threading

    from impl_prog import Duck, canon_bindings, stack_depth

    for scope in ("call", "block", "call, copied context", "block, copied context"):
        inside, go = threading.Event(), threading.Event()
        res = {}

        @jaxtyped(typechecker=None)
        def held(x: Float[Duck, "n"]):
            isinstance(x, Float[Duck, "n"])
            inside.set()
            go.wait(30)
            res["held"] = canon_bindings(impl.bindings())["single"]

        def held_block():
            with jaxtyped("context"):
                isinstance(Duck((3,), "float32"), Float[Duck, "n"])
                inside.set()
                go.wait(30)
                res["held"] = canon_bindings(impl.bindings())["single"]

        target = (lambda: held(Duck((3,), "float32"))) if scope.startswith("call") else held_block
        if scope.endswith("copied context"):
            # the worker runs inside a COPY of this thread's context (asyncio.to_thread, context-propagating executors),
            # taken after this thread has used the library: a copy of the context is not a share of the bindings
            import contextvars

            with jaxtyped("context"):
                isinstance(Duck((2,), "float32"), Float[Duck, "warm"])
            ctx = contextvars.copy_context()
            t = threading.Thread(target=ctx.run, args=(target,))
        else:
            t = threading.Thread(target=target)
        t.start()
        inside.wait(30)
        try:
            res["depth_here"] = stack_depth()
            res["stateless"] = [impl.check_once(Duck((m,), "float32"), Float[Duck, "n"]) for m in (5, 7)]
            with jaxtyped("context"):
                res["own"] = [impl.check_once(Duck((4,), "float32"), Float[Duck, "n"]), impl.check_once(Duck((3,), "float32"), Float[Duck, "n"])]
        finally:
            go.set()
            t.join(30)
        out.case(("other-thread", scope), True, sample={"scope": scope, **{k: str(v) for k, v in res.items()}})
        if res["depth_here"] != 0 or res["stateless"] != ["T", "T"] or res["own"] != ["T", "F"] or res.get("held") != [["n", 3]]:
            out.violation(f"other-thread:{scope}", f"while another thread is inside a {scope} that bound n=3: this thread has {res['depth_here']} open contexts (0), lengths 5, 7 against "
                          f"'n' outside any call give {res['stateless']} (T, T), a block of its own binding n=4 then checking length 3 gives {res['own']} (T, F); the other thread "
                          f"afterwards sees {res.get('held')} ([['n', 3]])", {"other_thread": scope})


def run(tier, seed, out, drv, facts):
    rng = Rng(seed, "C05")
    thorough = tier == "thorough"
    generator_cases(out)
    wrapped_generator_cases(out)
    recursion_cases(out)
    awkward_exception_cases(out)
    recursion_limit_cases(out)
    other_thread_cases(out)
    for prog in block_argument_programs():
        run_one(out, drv, facts, prog, "typeguard", rng, "block-arguments")
    for prog in toggle_programs():
        try:
            run_one(out, drv, facts, prog, "typeguard", rng, "toggle")
        finally:
            jaxtyping.config.update("jaxtyping_disable", False)
    n = 40000 if thorough else 500
    for i in range(n):
        depth = rng.rng(1, 5 if thorough else 3)
        prog = gen_prog.rand_prog(rng, depth, max_stmts=3)
        run_one(out, drv, facts, prog, "beartype" if i % 5 == 4 else "typeguard", rng, "prog")


def replay(rep, out, drv, facts):
    if "recursion" in rep:
        recursion_cases(out)
        return
    if "awkward" in rep:
        awkward_exception_cases(out)
        return
    if "wrapped_generator" in rep:
        wrapped_generator_cases(out)
        return
    if "recursion_limit" in rep:
        recursion_limit_cases(out)
        return
    if "other_thread" in rep:
        other_thread_cases(out)
        return
    if "program" in rep:
        run_one(out, drv, facts, rep["program"], "typeguard", None, "replay")
    else:
        generator_cases(out)
