"""AST-level inlining of small helper functions, so that the fact extractors see through "extract a helper" refactorings.

`inline_helpers(fn, helpers)` returns a deep copy of the FunctionDef `fn` in which statement-level calls of the given
helpers (module-level functions, or methods of the same class called as `cls.m(...)` / `self.m(...)`) are replaced by
the helper's body with the parameters replaced by the argument expressions:

    return h(a, b)          ->  the body of h (its `return e` stay returns)
    T = h(a, b)             ->  the body of h with every `return e` turned into `T = e` (only when the returns are in
                                tail position: the body is restructured into if / else, never executed twice)
    h(a, b)                 ->  the body of h (only when h returns nothing)

Arguments must be side-effect-free expressions (names, attributes, constants, subscripts of those); a helper that
assigns to one of its parameters, uses *args / **kwargs / defaults / decorators / yield / nonlocal, or is recursive is left alone.
Nothing here is trusted for soundness: an inlining that is not done simply leaves the call in place, and the extractors
then see what they saw before."""
import ast
import copy


def _simple(e):
    if isinstance(e, (ast.Name, ast.Constant)):
        return True
    if isinstance(e, ast.Attribute):
        return _simple(e.value)
    if isinstance(e, ast.Subscript):
        return _simple(e.value) and (_simple(e.slice) or isinstance(e.slice, ast.Slice))
    if isinstance(e, ast.Starred):
        return False
    return False


def _inlinable(h):
    a = h.args
    if a.vararg or a.kwarg or a.kwonlyargs or a.defaults or a.kw_defaults or h.decorator_list or a.posonlyargs:
        return False
    params = {p.arg for p in a.args}
    for n in ast.walk(h):
        if isinstance(n, (ast.Yield, ast.YieldFrom, ast.Await, ast.Nonlocal, ast.Global, ast.Lambda)):
            return False
        if isinstance(n, (ast.FunctionDef, ast.AsyncFunctionDef, ast.ClassDef)) and n is not h:
            return False
        if isinstance(n, ast.Name) and isinstance(n.ctx, (ast.Store, ast.Del)) and n.id in params:
            return False
        if isinstance(n, ast.Call) and isinstance(n.func, ast.Name) and n.func.id == h.name:
            return False
    return True


class _Subst(ast.NodeTransformer):
    def __init__(self, mapping):
        self.mapping = mapping

    def visit_Name(self, node):
        if isinstance(node.ctx, ast.Load) and node.id in self.mapping:
            return copy.deepcopy(self.mapping[node.id])
        return node


def _always_returns(stmts):
    if not stmts:
        return False
    last = stmts[-1]
    if isinstance(last, (ast.Return, ast.Raise)):
        return True
    if isinstance(last, ast.If):
        return _always_returns(last.body) and _always_returns(last.orelse)
    if isinstance(last, ast.Try):
        return _always_returns(last.body) and all(_always_returns(h.body) for h in last.handlers) and not last.orelse
    return False


def _has_return(stmts):
    return any(isinstance(n, ast.Return) for s in stmts for n in ast.walk(s))


class _Bail(Exception):
    pass


def _assignify(stmts, target):
    """the statements with every `return e` replaced by `target = e`, restructured so that nothing after a return runs"""
    out = []
    for i, st in enumerate(stmts):
        rest = stmts[i + 1:]
        if isinstance(st, ast.Return):
            val = st.value if st.value is not None else ast.Constant(None)
            out.append(ast.Assign(targets=[copy.deepcopy(target)], value=val, lineno=0, col_offset=0))
            return out
        if not _has_return([st]):
            out.append(st)
            continue
        if isinstance(st, ast.If):
            if _always_returns(st.body):
                out.append(ast.If(test=st.test, body=_assignify(st.body, target), orelse=_assignify(list(st.orelse) + rest, target)))
                return out
            if st.orelse and _always_returns(st.orelse):
                out.append(ast.If(test=st.test, body=_assignify(list(st.body) + rest, target), orelse=_assignify(st.orelse, target)))
                return out
            raise _Bail
        if isinstance(st, ast.Try) and not rest:
            if any(_has_return(h.body) and not _always_returns(h.body) for h in st.handlers) or _has_return(st.finalbody) or _has_return(st.orelse):
                raise _Bail
            if not _always_returns(st.body):
                raise _Bail
            out.append(ast.Try(body=_assignify(st.body, target), handlers=[ast.ExceptHandler(type=h.type, name=h.name, body=_assignify(h.body, target) if _has_return(h.body) else h.body)
                                                                            for h in st.handlers], orelse=[], finalbody=st.finalbody))
            return out
        raise _Bail
    return out


def _body_for(h, call, how, target=None):
    if len(call.args) != len(h.args.args) or call.keywords:
        # keywords naming parameters are fine when all are given
        names = [p.arg for p in h.args.args]
        given = {}
        if len(call.args) > len(names):
            return None
        for p, a in zip(names, call.args):
            given[p] = a
        for k in call.keywords:
            if k.arg is None or k.arg in given or k.arg not in names:
                return None
            given[k.arg] = k.value
        if set(given) != set(names):
            return None
        mapping = given
    else:
        mapping = {p.arg: a for p, a in zip(h.args.args, call.args)}
    if not all(_simple(a) for a in mapping.values()):
        return None
    body = [copy.deepcopy(s) for s in h.body if not (isinstance(s, ast.Expr) and isinstance(s.value, ast.Constant))]
    body = [_Subst(mapping).visit(s) for s in body]
    try:
        if how == "return":
            return body if _always_returns(body) else body + [ast.Return(value=ast.Constant(None))]
        if how == "assign":
            if not _always_returns(body):
                body = body + [ast.Return(value=ast.Constant(None))]
            return _assignify(body, target)
        if how == "expr":
            if any(isinstance(n, ast.Return) and n.value is not None for s in body for n in ast.walk(s)):
                return None
            if _has_return(body):
                return _assignify(body, ast.Name(id="_", ctx=ast.Store()))
            return body
    except _Bail:
        return None
    return None


def _resolve(call, helpers, method_helpers):
    f = call.func
    if isinstance(f, ast.Name) and f.id in helpers:
        return helpers[f.id], call
    if isinstance(f, ast.Attribute) and isinstance(f.value, ast.Name) and f.value.id in ("cls", "self") and f.attr in method_helpers:
        h = method_helpers[f.attr]
        # bind the receiver to the first parameter
        c2 = ast.Call(func=f, args=[ast.Name(id=f.value.id, ctx=ast.Load())] + list(call.args), keywords=call.keywords)
        return h, c2
    return None, None


def _inline_block(stmts, helpers, method_helpers, depth):
    out = []
    for st in stmts:
        repl = None
        if depth > 0:
            if isinstance(st, ast.Return) and isinstance(st.value, ast.Call):
                h, c = _resolve(st.value, helpers, method_helpers)
                if h is not None and _inlinable(h):
                    repl = _body_for(h, c, "return")
            elif isinstance(st, ast.Assign) and len(st.targets) == 1 and isinstance(st.value, ast.Call):
                h, c = _resolve(st.value, helpers, method_helpers)
                if h is not None and _inlinable(h):
                    repl = _body_for(h, c, "assign", st.targets[0])
            elif isinstance(st, ast.Expr) and isinstance(st.value, ast.Call):
                h, c = _resolve(st.value, helpers, method_helpers)
                if h is not None and _inlinable(h):
                    repl = _body_for(h, c, "expr")
        if repl is not None:
            out.extend(_inline_block(repl, helpers, method_helpers, depth - 1))
            continue
        for field in ("body", "orelse", "finalbody"):
            if hasattr(st, field) and isinstance(getattr(st, field), list) and not isinstance(st, (ast.FunctionDef, ast.AsyncFunctionDef, ast.ClassDef)):
                setattr(st, field, _inline_block(getattr(st, field), helpers, method_helpers, depth))
        if isinstance(st, ast.Try):
            for hd in st.handlers:
                hd.body = _inline_block(hd.body, helpers, method_helpers, depth)
        if isinstance(st, ast.Match):
            for cs in st.cases:
                cs.body = _inline_block(cs.body, helpers, method_helpers, depth)
        out.append(st)
    return out


def inline_helpers(fn, tree, cls=None, depth=3, exclude=()):
    """`fn` with statement-level calls of module-level functions of `tree` (and of methods of `cls`) inlined"""
    if fn is None:
        return None
    helpers = {n.name: n for n in tree.body if isinstance(n, ast.FunctionDef) and n.name not in exclude and n is not fn}
    method_helpers = {n.name: n for n in (cls.body if cls is not None else []) if isinstance(n, ast.FunctionDef) and n is not fn and n.name not in exclude}
    new = copy.deepcopy(fn)
    new.body = _inline_block(new.body, helpers, method_helpers, depth)
    ast.fix_missing_locations(new)
    return new
