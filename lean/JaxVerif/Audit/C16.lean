import JaxVerif.Properties.C16

#print axioms JV.C16_keys
#print axioms JV.C16_keys_rendered
#print axioms JV.C16_frame
#print axioms JV.C16_errors
#print axioms JV.C16_usable
#print axioms JV.C16_generated_good
#print axioms JV.C16_facts_matter
#print axioms JV.C16_source_label
#print axioms JV.C16_source_label_cell
#print axioms JV.C16_source_label_history
