/- driver commands for the import-hook models (C10 / C11 / C18) -/
import Lean.Data.Json
import Driver.Codec
import JaxVerif.Model.HookAst
import JaxVerif.Model.HookScope
import JaxVerif.Model.Cache

open Lean JV

namespace Drv

def kindOfStr (s : String) : NodeKind :=
  match s with
  | "module" => .module
  | "funcDef" => .funcDef
  | "asyncFuncDef" => .asyncFuncDef
  | "classDef" => .classDef
  | "futureImport" => .futureImport
  | "constExpr" => .constExpr
  | "importJaxtyping" => .importJaxtyping
  | "jaxtypedDecorator" => .jaxtypedDecorator
  | t => .other t

def kindStr : NodeKind → String
  | .module => "module" | .funcDef => "funcDef" | .asyncFuncDef => "asyncFuncDef" | .classDef => "classDef"
  | .futureImport => "futureImport" | .constExpr => "constExpr" | .importJaxtyping => "importJaxtyping"
  | .jaxtypedDecorator => "jaxtypedDecorator" | .other t => t

partial def parseNode (j : Json) : Except String Node := do
  match j with
  | .arr a =>
    match a.toList with
    | [k, l, ds, ks] =>
      let loc ← match l with
        | .arr la => match la.toList with
          | [a1, a2, a3, a4] => pure (⟨← a1.getNat?, ← a2.getNat?, ← a3.getNat?, ← a4.getNat?⟩ : Loc)
          | _ => throw "bad loc"
        | _ => throw "bad loc"
      let decos ← (← ds.getArr?).toList.mapM parseNode
      let kids ← (← ks.getArr?).toList.mapM parseNode
      return .mk (kindOfStr (← k.getStr?)) loc decos kids
    | _ => throw "bad node"
  | _ => throw "bad node"

partial def nodeJson : Node → Json
  | .mk k l ds ks =>
    jarr [jstr (kindStr k), jarr [jnat l.line, jnat l.col, jnat l.endLine, jnat l.endCol],
          jarr (ds.map nodeJson), jarr (ks.map nodeJson)]

def cmdTransform (j : Json) : Except String Json := do
  let n ← parseNode (← j.getObjVal? "tree")
  let t := transformModule n
  return Json.mkObj [("tree", nodeJson t), ("erased_equal", Json.bool (toString (repr (eraseModule t)) == toString (repr n)))]

def cmdShould (j : Json) : Except String Json := do
  let hooked ← getStrList j "hooked"
  let m ← getStr j "m"
  return Json.bool (shouldInstrument (hooked.map String.toList) m.toList)

def cmdImports (j : Json) : Except String Json := do
  let ops ← (← getArr j "ops").mapM fun o => do
    match ← getStr o "op" with
    | "install" => return ImportOp.install ((← getStrList o "names").map String.toList) (← getStr o "checker")
    | "uninstall" => return ImportOp.uninstall (← getNat o "id")
    | "import" => return ImportOp.importMod (← getStr o "m").toList
    | x => throw s!"bad import op {x}"
  let s := importRun {} ops
  return jarr (s.loaded.reverse.map fun (m, k) =>
    jarr [jstr (String.ofList m), match k with | .plain => Json.null | .instrumented c => jstr c])

def cmdCache (j : Json) : Except String Json := do
  let scope : PatchScope := match (getStr j "scope").toOption.getD "get_code" with
    | "exec_module" => .execModule
    | "get_code_if_writing" => .getCodeIfWriting
    | _ => .getCode
  let runs ← (← getArr j "runs").mapM fun r => do
    let vs ← (← r.getObjVal? "versions").getObj?
    let vlist ← vs.toList.mapM fun (k, v) => do return (k, ← v.getNat?)
    let loads ← (← getArr r "loads").mapM fun l => do
      let hw := match getOpt l "hooked" with | some (.str s) => some s | _ => none
      let ins := match getOpt l "inside" with | some (.str s) => some s | _ => none
      return ({ name := ← getStr l "name", hookedWith := hw, insideHooked := ins } : Load)
    let writes := match getOpt r "writes" with | some (.bool b) => b | _ => true
    return ({ versions := fun n => (vlist.lookup n).getD 0, writes := writes, loads := loads } : CacheRun)
  let (_, outs) := runHistory scope [] runs
  return jarr (outs.map fun o => jarr (o.map fun (n, c) =>
    jarr [jstr n, jnat c.version, match c.instr with | none => Json.null | some k => jstr k]))

end Drv
