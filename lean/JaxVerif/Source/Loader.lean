/-
`_JaxtypingLoader.source_to_code`, `get_code` and `exec_module`, translated from the current source on every run
(harness/translate_loader.py -> Generated/LoaderCode.lean). Used by Properties/C10 (what the hooked import compiles is
the decoded source, parsed, transformed) and C18 (which bytecode file it is looked up in). The proof scripts only split
on what the code can look at, so a meaning-preserving restructuring is re-proved as it is, while a change of meaning (a
path that compiles the module as it was read, a `compile` that inherits the hook's `__future__` flags, the patch skipped
in a run that writes no bytecode or held while the module body runs, another decoding of the bytes) makes them fail.
Core Lean only.
-/
import JaxVerif.Generated.LoaderCode

namespace JV
set_option linter.unusedSimpArgs false

/-- in every kind of run and whatever patch is in force, the only thing `source_to_code` returns is the tree of the
    source decoded by `decode_source`, transformed, compiled (both times) in isolation from the hook's own `__future__`
    flags, after `fix_missing_locations` -/
theorem source_loader_to_code (key : String) (writes : Bool) (gc : LSt → LRes) (active : Option String) :
    Generated.sourceToCodeCode.run key writes gc (LSt.fresh active) = .code ⟨true, true⟩ := by
  cases writes <;> simp [Generated.sourceToCodeCode, LStmt.run, LCond.eval, LSt.fresh]

/-- whether or not the run writes bytecode and whatever was in force on entry, the module's own bytecode is looked up
    and written under the hook's tag for this typechecker key, and the module body (hence every import nested in it)
    then runs with exactly the `cache_from_source` that was in force on entry, so with the interpreter's own at top
    level and, by induction over the nesting, everywhere: a module that is not hooked is looked up under the
    interpreter's own name -/
theorem source_loader_get_code (key : String) (writes : Bool) (active : Option String) (name : String) (inside : Option String) :
    Generated.getCodeCode.run key writes (fun _ => .crash) (LSt.fresh active) = .tag (tagFor .getCode writes ⟨name, some key, inside⟩) ∧
    Generated.execModuleCode.run key writes (Generated.getCodeCode.run key writes (fun _ => .crash)) (LSt.fresh active)
      = .norm { LSt.fresh active with got := some (tagFor .getCode writes ⟨name, some key, inside⟩), execActive := some active } ∧
    tagOfActive none = tagFor .getCode writes ⟨name, none, inside⟩ := by
  cases writes <;> cases active <;> cases inside <;>
    simp [Generated.getCodeCode, Generated.execModuleCode, LStmt.run, LCond.eval, LSt.fresh, tagFor, tagOfActive]

end JV
