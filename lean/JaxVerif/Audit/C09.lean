import JaxVerif.Properties.C09

#print axioms JV.C09_bind
#print axioms JV.C09_compose
#print axioms JV.C09_compose_two
#print axioms JV.C09_prefix
#print axioms JV.C09_suffix
#print axioms JV.C09_unbound
#print axioms JV.C09_validate
#print axioms JV.C09_validate_forms
