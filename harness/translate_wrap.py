"""(T1, translation) The bodies of the `jaxtyped` wrappers — new-style `wrapped_fn` and its helper frame
`wrapped_fn_impl`, the old-style / `typechecker=None` `wrapped_fn`, `_JaxtypingContext.__enter__` / `__exit__`
(jaxtyping/_decorator.py) — are translated statement by statement into the exception-aware language of
lean/JaxVerif/Model/WrapDsl.lean (`Generated/WrapperCode.lean`). JaxVerif/Source/Wrappers.lean then proves, on every
run, that running the translated code is the `call` / `ctx` step of the hand-written model for every argument list,
body, verdict and exit. Anything not recognised becomes `.unknown` (a crash in the interpreter), so the proof fails
rather than silently passing; statements that only assemble message text become `.message`."""
from __future__ import annotations

import ast
import os

from common import GEN, REPO, write_if_changed

CLASSES = {
    "AnnotationError": "annotationError", "TypeCheckError": "typeCheckError", "TypeError": "typeError", "Exception": "exception",
    "BaseException": "baseException", "AttributeError": "attributeError", "NameError": "nameError",
}
# calling one of these is never "only message text"
EFFECTFUL = {"fn", "param_fn", "full_fn", "push_shape_memo", "pop_shape_memo", "set_shape_memo", "_get_problem_arg", "wrapped_fn_impl",
             "jaxtyped", "update", "bind", "apply_defaults", "set_treepath_memo", "set_treeflatten_memo", "clear_treepath_memo",
             "clear_treeflatten_memo", "make_transparent", "exec", "eval", "setattr", "delattr"}
# helpers that only produce text (their own bodies are still scanned for effectful calls)
TEXT_HELPERS = {"_pformat", "_remove_typing", "shape_str", "get_shape_memo", "_no_jaxtyping_note", "_jaxtyping_note_str"}
STATE_NAMES = {"bound", "memos", "out", "args", "kwargs", "fn", "param_fn", "full_fn", "config"}


def _u(n):
    try:
        return ast.unparse(n)
    except Exception:  # noqa: BLE001
        return "?"


def _callee(c):
    f = c.func
    if isinstance(f, ast.Name):
        return f.id
    if isinstance(f, ast.Attribute):
        return f.attr
    return "?"


class WrapTranslator:
    def __init__(self, tree, signature_names=("param_signature", "signature")):
        self.tree = tree
        self.notes = []
        self.sig_names = set(signature_names)
        self.helpers = {n.name: n for n in tree.body if isinstance(n, ast.FunctionDef)}
        self.out_var = None
        self.bound_var = None
        self.exc_names = []      # names bound by the enclosing `except ... as <name>` clauses, innermost last

    # ---- purity ---------------------------------------------------------------------------------------------------
    def _pure_expr(self, e, depth=0):
        for c in ast.walk(e):
            if isinstance(c, ast.Call):
                name = _callee(c)
                if name in EFFECTFUL:
                    return False
                h = self.helpers.get(name) if isinstance(c.func, ast.Name) else None
                if h is not None and not self._text_only_helper(h, depth):
                    return False
            if isinstance(c, (ast.Yield, ast.YieldFrom, ast.Await, ast.NamedExpr)):
                return False
        return True

    def _text_only_helper(self, h, depth=0):
        """a module-level function that can only compute a value: no effectful call (followed two levels down), no
        `global` / `nonlocal`, no `raise`, no store into an attribute or an item, no generator"""
        if depth > 2:
            return False
        if h.decorator_list:
            return False
        for x in ast.walk(h):
            if isinstance(x, (ast.Global, ast.Nonlocal, ast.Raise, ast.Yield, ast.YieldFrom, ast.Await, ast.Delete, ast.With, ast.AsyncWith)):
                return False
            if isinstance(x, (ast.Attribute, ast.Subscript)) and isinstance(x.ctx, (ast.Store, ast.Del)):
                return False
            if isinstance(x, ast.Call):
                nm = _callee(x)
                if nm in EFFECTFUL:
                    return False
                g = self.helpers.get(nm) if isinstance(x.func, ast.Name) else None
                if g is not None and g is not h and not self._text_only_helper(g, depth + 1):
                    return False
        return True

    def _message_stmt(self, st, depth=0):
        """the statement can only influence the text of an error message / a note"""
        if isinstance(st, ast.Assign):
            ok_t = all(isinstance(t, ast.Name) and t.id not in STATE_NAMES for t in st.targets) or \
                all(isinstance(t, ast.Tuple) and all(isinstance(x, ast.Name) and x.id not in STATE_NAMES for x in t.elts) for t in st.targets)
            return ok_t and self._pure_expr(st.value, depth)
        if isinstance(st, ast.Expr):
            if isinstance(st.value, ast.Constant):
                return True
            return isinstance(st.value, ast.Call) and _callee(st.value) == "add_note" and self._pure_expr(st.value, depth)
        if isinstance(st, ast.If):
            return self._pure_expr(st.test, depth) and all(self._message_stmt(s, depth) for s in st.body + st.orelse)
        if isinstance(st, ast.Try):
            return not st.finalbody and all(self._message_stmt(s, depth) for s in st.body + st.orelse) and \
                all(h.type is not None and _u(h.type) in ("AttributeError", "KeyError") and all(self._message_stmt(s, depth) for s in h.body) for h in st.handlers)
        if isinstance(st, ast.Pass):
            return True
        return False

    @staticmethod
    def _strip(stmts):
        out = []
        for s in stmts:
            if isinstance(s, ast.Assert) or (isinstance(s, ast.Expr) and isinstance(s.value, ast.Constant)):
                continue
            if isinstance(s, ast.Assign) and len(s.targets) == 1 and isinstance(s.targets[0], ast.Name) and s.targets[0].id == "__tracebackhide__":
                continue
            out.append(s)
        return out

    # ---- conditions -----------------------------------------------------------------------------------------------
    def cond(self, t):
        names = {n.id for n in ast.walk(t) if isinstance(n, ast.Name)} | {n.attr for n in ast.walk(t) if isinstance(n, ast.Attribute)}
        consts = {n.value for n in ast.walk(t) if isinstance(n, ast.Constant) and isinstance(n.value, str)}
        if "jaxtyping_disable" in names:
            ok = isinstance(t, ast.BoolOp) and isinstance(t.op, ast.Or) and not any(isinstance(n, (ast.Not, ast.And)) for n in ast.walk(t)) \
                and "__no_type_check__" in consts and _u(t.values[0]) == "config.jaxtyping_disable" \
                and any(_u(v) == "getattr(fn, '__no_type_check__', False)" for v in t.values[1:]) \
                and all(isinstance(v, ast.Call) and _callee(v) == "getattr" and len(v.args) == 3 and _u(v.args[2]) == "False" for v in t.values[1:])
            if ok:
                return ".disabled"
            self.notes.append("disable test: " + _u(t)[:120])
            return ".unknown"
        src = _u(t)
        if src in ("full_signature.return_annotation is inspect.Signature.empty", "full_signature.return_annotation is inspect._empty",
                   "full_signature.return_annotation is inspect.Parameter.empty"):
            return ".hasNoRet"
        if src in ("full_signature.return_annotation is not inspect.Signature.empty", "full_signature.return_annotation is not inspect._empty",
                   "full_signature.return_annotation is not inspect.Parameter.empty"):
            return ".hasRet"
        if src == "config.jaxtyping_remove_typechecker_stack":
            return ".removeStack"
        if src == "sys.version_info >= (3, 11) and _no_jaxtyping_note(e)" or (src.startswith("sys.version_info >= (3, 11) and _no_jaxtyping_note(") and len(self.exc_names) > 0):
            return ".noteWanted"
        self.notes.append("condition: " + src[:120])
        return ".unknown"

    # ---- statements -----------------------------------------------------------------------------------------------
    def seq(self, stmts, outer=()):
        stmts = self._strip(stmts)
        items = []
        prev = list(outer)
        for st in stmts:
            items.append(self.stmt(st, prev))
            prev.append(st)
        # neighbouring message statements are one
        out = []
        for x in items:
            if x == ".message" and out and out[-1] == ".message":
                continue
            out.append(x)
        if not out:
            return ".skip"
        r = out[-1]
        for x in reversed(out[:-1]):
            r = f"(.seq {x} {r})"
        return r

    def _is_fn_call(self, e, name="fn", args="(*args, **kwargs)"):
        return isinstance(e, ast.Call) and isinstance(e.func, ast.Name) and e.func.id == name and _u(e)[len(name):] == args

    def _msg_facts(self, prev, var):
        """(text of everything the message variable was built from, whether it reads the CURRENT bindings)"""
        text, current = "", False
        for st in prev:
            if isinstance(st, ast.Assign) and any(isinstance(t, ast.Name) and t.id == var for t in st.targets):
                text = _u(st.value)
                e = st.value
                cur = "shape_str(get_shape_memo())" in text
                # built by a module-level helper: look inside it
                if isinstance(e, ast.Call) and isinstance(e.func, ast.Name) and e.func.id in self.helpers:
                    h = self.helpers[e.func.id]
                    text += " " + " ".join(_u(x) for x in h.body)
                    cur = cur or "shape_str(get_shape_memo())" in text
                current = cur
        return text, current

    def stmt(self, st, prev):
        if isinstance(st, ast.Return):
            v = st.value
            if v is not None and self._is_fn_call(v):
                return ".retFn"
            if v is not None and isinstance(v, ast.Call) and isinstance(v.func, ast.Name) and v.func.id == "wrapped_fn_impl" \
                    and _u(v) == f"wrapped_fn_impl(args, kwargs, {self.bound_var or 'bound'}, memos)":
                return ".retImpl"
            if v is not None and isinstance(v, ast.Name) and self.out_var is not None and v.id == self.out_var:
                return ".retOut"
            self.notes.append("return: " + _u(st)[:100])
            return ".unknown"
        if isinstance(st, ast.Raise):
            if st.exc is None and st.cause is None:
                return ".reraise"
            e = st.exc
            if isinstance(e, ast.Call) and _u(e.func) == "TypeCheckError" and len(e.args) == 1 and isinstance(e.args[0], ast.Name) and not e.keywords:
                cause_ok = st.cause is None or _u(st.cause) == "None" or (self.exc_names and _u(st.cause) in self.exc_names) or \
                    (isinstance(st.cause, ast.IfExp) and _u(st.cause.test) == "config.jaxtyping_remove_typechecker_stack")
                if not cause_ok and isinstance(st.cause, ast.Name):
                    # `cause = None` / `cause = e` in the branches of a preceding `if`: a local that only ever holds None or a caught exception
                    vals = [_u(a.value) for p_ in prev for a in ast.walk(p_) if isinstance(a, ast.Assign) and any(isinstance(t, ast.Name) and t.id == st.cause.id for t in a.targets)]
                    cause_ok = bool(vals) and all(v == "None" or v in (self.exc_names or []) for v in vals)
                text, current = self._msg_facts(prev, e.args[0].id)
                if "checking the parameters" in text and "checking the return value" not in text:
                    # the blamed parameter is the text of the caught TypeCheckError
                    inner = self.exc_names[-1] if self.exc_names else None
                    named = inner is not None and (f"str({inner})" in text or any(
                        isinstance(p, ast.Assign) and len(p.targets) == 1 and isinstance(p.targets[0], ast.Name) and _u(p.value) == f"str({inner})"
                        and p.targets[0].id in text for p in prev))
                    if cause_ok and named:
                        return f"(.raiseTce .params {'true' if current else 'false'})"
                elif "checking the return value" in text and "checking the parameters" not in text:
                    if cause_ok:
                        return f"(.raiseTce .ret {'true' if current else 'false'})"
            self.notes.append("raise: " + _u(st)[:100])
            return ".unknown"
        if isinstance(st, ast.Expr) and isinstance(st.value, ast.Call):
            c = st.value
            src = _u(c)
            if self.bound_var and src == f"{self.bound_var}.apply_defaults()":
                return ".applyDefaults"
            if src == "pop_shape_memo()":
                return ".pop"
            if src == "push_shape_memo({})":
                return ".pushEmpty"
            if self.bound_var and src == f"push_shape_memo({self.bound_var}.arguments)":
                return ".push"
            if src == "param_fn(*args, **kwargs)":
                return ".paramFn"
            if src == "full_fn(*args, **kwargs)":
                return ".fullFn"
        if isinstance(st, ast.Assign) and len(st.targets) == 1:
            t, v = st.targets[0], st.value
            if isinstance(t, ast.Name) and isinstance(v, ast.Call) and isinstance(v.func, ast.Attribute) and v.func.attr == "bind" \
                    and _u(v.func.value) in self.sig_names and _u(v)[len(_u(v.func)):] == "(*args, **kwargs)":
                self.bound_var = t.id
                return ".bind"
            if isinstance(t, ast.Name) and t.id == "memos" and self.bound_var and _u(v) == f"push_shape_memo({self.bound_var}.arguments)":
                return ".push"
            if isinstance(t, ast.Name) and self._is_fn_call(v):
                self.out_var = t.id
                return ".callFn"
            if isinstance(t, ast.Subscript) and _u(t) == "kwargs[output_name]" and self.out_var and _u(v) == self.out_var:
                return ".storeOut"
            if isinstance(t, ast.Name) and isinstance(v, ast.Call) and _callee(v) == "_get_problem_arg":
                if _u(v) == f"_get_problem_arg(param_signature, args, kwargs, {self.bound_var or 'bound'}.arguments, module, typechecker)":
                    return ".getProblemArg"
                self.notes.append("_get_problem_arg: " + _u(v)[:120])
                return ".unknown"
        if isinstance(st, ast.If):
            if self._message_stmt(st):
                return ".message"
            c = self.cond(st.test)
            if c == ".hasNoRet":
                return f"(.ite .hasRet {self.seq(st.orelse, prev)} {self.seq(st.body, prev)})"
            return f"(.ite {c} {self.seq(st.body, prev)} {self.seq(st.orelse, prev)})"
        if isinstance(st, ast.Try):
            if self._message_stmt(st):
                return ".message"
            if st.orelse:
                self.notes.append("try/else")
                return ".unknown"
            inner = self.seq(st.body, prev)
            if st.handlers:
                hs = ".endHandlers"
                chain = []
                for h in st.handlers:
                    if h.type is None:
                        cls = "baseException"
                    else:
                        cls = CLASSES.get(_u(h.type))
                    if cls is None:
                        self.notes.append("except " + _u(h.type)[:60])
                        chain.append(None)
                        continue
                    self.exc_names.append(h.name or "_")
                    body = self.seq(h.body, prev)
                    self.exc_names.pop()
                    chain.append((cls, body))
                if any(c is None for c in chain):
                    return ".unknown"
                for cls, body in reversed(chain):
                    hs = f"(.handler .{cls} {body} {hs})"
                inner = f"(.tryExcept {inner} {hs})"
            if st.finalbody:
                inner = f"(.tryFinally {inner} {self.seq(st.finalbody, prev)})"
            return inner
        if self._message_stmt(st):
            return ".message"
        self.notes.append("statement: " + _u(st)[:100].replace("\n", " "))
        return ".unknown"


class BlameTranslator(WrapTranslator):
    """`_get_problem_arg`: the body of its `for keep_name in …` loop and its `else` clause (Model/BlameDsl.lean)"""

    def __init__(self, tree, loop_var):
        super().__init__(tree)
        self.loop_var = loop_var
        self.fn_var = None

    def seq(self, stmts, outer=()):
        stmts = self._strip(stmts)
        # the group of statements that builds the one-parameter checker: everything up to and including
        # `<fn> = _apply_typechecker(typechecker, …)`, free of other effects, mentioning the loop variable
        k = next((i for i, st in enumerate(stmts) if isinstance(st, ast.Assign) and len(st.targets) == 1 and isinstance(st.targets[0], ast.Name)
                  and isinstance(st.value, ast.Call) and _callee(st.value) == "_apply_typechecker" and len(st.value.args) == 2 and _u(st.value.args[0]) == "typechecker"), None)
        items = []
        rest = stmts
        if k is not None and not outer:
            group = stmts[:k + 1]
            src = " ".join(_u(g) for g in group)
            calls = [_callee(c) for g in group for c in ast.walk(g) if isinstance(c, ast.Call)]
            ok = "_make_fn_with_signature" in calls or any(cn in self.helpers and "_make_fn_with_signature" in _u(self.helpers[cn]) for cn in calls)
            ok = ok and self.loop_var in {n.id for g in group for n in ast.walk(g) if isinstance(n, ast.Name)}
            ok = ok and not any(cn in EFFECTFUL - {"bind"} for cn in calls) and "output=False" in src.replace(" ", "") .replace("output=False", "output=False")
            ok = ok and not any(isinstance(n, (ast.Raise, ast.Return, ast.Try, ast.Global, ast.Nonlocal)) for g in group for n in ast.walk(g))
            if ok:
                self.fn_var = stmts[k].targets[0].id
                items.append(".buildChecker")
                rest = stmts[k + 1:]
            else:
                self.notes.append("checker construction not recognised")
        prev = list(outer)
        for st in rest:
            items.append(self.stmt(st, prev))
            prev.append(st)
        out = []
        for x in items:
            if x == ".message" and out and out[-1] == ".message":
                continue
            out.append(x)
        if not out:
            return ".skip"
        r = out[-1]
        for x in reversed(out[:-1]):
            r = f"(.seq {x} {r})"
        return r

    def stmt(self, st, prev):
        if isinstance(st, ast.Expr) and isinstance(st.value, ast.Call) and self.fn_var and _u(st.value) == f"{self.fn_var}(*args, **kwargs)":
            return ".callChecker"
        if isinstance(st, ast.Raise) and st.exc is None and st.cause is None:
            return ".reraise"
        if isinstance(st, ast.Raise) and isinstance(st.exc, ast.Call) and _u(st.exc.func) == "TypeCheckError" and len(st.exc.args) == 1 and not st.exc.keywords:
            a = st.exc.args[0]
            if isinstance(a, ast.Constant) and a.value == "" and st.cause is None:
                return ".raiseNone"
            names = {n.id for n in ast.walk(a) if isinstance(n, ast.Name)}
            text = "".join(c.value for c in ast.walk(a) if isinstance(c, ast.Constant) and isinstance(c.value, str))
            cause_ok = st.cause is None or (self.exc_names and _u(st.cause) in self.exc_names) or _u(st.cause) == "None"
            if self.loop_var in names and "parameter" in text and cause_ok and self.exc_names:
                return ".raiseBlame"
            self.notes.append("raise: " + _u(st)[:100])
            return ".unknown"
        if isinstance(st, ast.Try):
            if st.orelse or st.finalbody:
                self.notes.append("try with else / finally in _get_problem_arg")
                return ".unknown"
            inner = self.seq(st.body, prev)
            hs = ".endHandlers"
            chain = []
            for h in st.handlers:
                cls = "baseException" if h.type is None else CLASSES.get(_u(h.type))
                if cls is None:
                    self.notes.append("except " + _u(h.type)[:60])
                    return ".unknown"
                self.exc_names.append(h.name or "_")
                body = self.seq(h.body, prev)
                self.exc_names.pop()
                chain.append((cls, body))
            for cls, body in reversed(chain):
                hs = f"(.handler .{cls} {body} {hs})"
            return f"(.tryExcept {inner} {hs})"
        if self._message_stmt(st):
            return ".message"
        self.notes.append("statement: " + _u(st)[:100].replace("\n", " "))
        return ".unknown"


def translate_problem_arg(tree, notes):
    from inline import inline_helpers

    fn = next((n for n in tree.body if isinstance(n, ast.FunctionDef) and n.name == "_get_problem_arg"), None)
    if fn is None or [a.arg for a in fn.args.args] != ["param_signature", "args", "kwargs", "arguments", "module", "typechecker"]:
        notes.append("_get_problem_arg not found / unexpected parameters")
        return ".unknown", ".unknown"
    body = WrapTranslator._strip(fn.body)
    # one loop; what runs when it ends is its `else:` block or — the loop has no `break` (checked below) — what follows it
    if not body or not isinstance(body[0], ast.For) or (len(body) > 1 and body[0].orelse):
        notes.append("_get_problem_arg is not one for / else loop")
        return ".unknown", ".unknown"
    loop = body[0]
    after = body[1:]
    it = _u(loop.iter)
    if it in ("param_signature.parameters.keys()", "param_signature.parameters") and isinstance(loop.target, ast.Name):
        var = loop.target.id
    elif it == "param_signature.parameters.items()" and isinstance(loop.target, ast.Tuple) and len(loop.target.elts) == 2 and isinstance(loop.target.elts[0], ast.Name):
        var = loop.target.elts[0].id
    else:
        notes.append("loop of _get_problem_arg: " + it[:80])
        return ".unknown", ".unknown"
    if any(isinstance(n, (ast.Break, ast.Continue)) for n in ast.walk(loop)):
        notes.append("break / continue in _get_problem_arg")
        return ".unknown", ".unknown"
    t = BlameTranslator(tree, var)
    b = t.seq(loop.body)
    t2 = BlameTranslator(tree, var)
    e = t2.seq(loop.orelse) if loop.orelse else (t2.seq(after) if after else ".skip")
    notes.extend(t.notes + t2.notes)
    return b, e


def _find_wrappers(tree):
    jt = None
    for node in tree.body:
        if isinstance(node, ast.FunctionDef) and node.name == "jaxtyped":
            jt = node
    new = old = impl = None
    if jt is not None:
        for n in ast.walk(jt):
            if isinstance(n, ast.FunctionDef) and n.name == "wrapped_fn_impl":
                impl = n
            if isinstance(n, ast.FunctionDef) and n.name == "wrapped_fn":
                if any(isinstance(c, ast.Call) and isinstance(c.func, ast.Name) and c.func.id == "wrapped_fn_impl" for c in ast.walk(n)):
                    new = n
                else:
                    old = n
    return new, impl, old


def _sig_ok(fn, params):
    a = fn.args
    if params == "*":
        return a.vararg is not None and a.vararg.arg == "args" and a.kwarg is not None and a.kwarg.arg == "kwargs" and not a.args and not a.kwonlyargs and not a.posonlyargs
    return [p.arg for p in a.args] == params and not a.vararg and not a.kwarg and not a.kwonlyargs and not a.defaults


def run():
    from inline import inline_helpers

    with open(os.path.join(REPO, "jaxtyping", "_decorator.py")) as fh:
        tree = ast.parse(fh.read())
    new, impl, old = _find_wrappers(tree)
    notes = []

    def tr(fn, params, bound_var=None):
        if fn is None or not _sig_ok(fn, params):
            notes.append("wrapper not found / unexpected parameter list")
            return ".unknown"
        t = WrapTranslator(tree)
        t.bound_var = bound_var
        fn2 = inline_helpers(fn, tree, exclude=("_get_problem_arg", "_pformat", "_remove_typing", "shape_str", "_no_jaxtyping_note"))
        # decorators of the wrapper itself must be `ft.wraps(fn)` only
        r = t.seq(fn2.body)
        notes.extend(t.notes)
        return r

    new_code = tr(new, "*")
    impl_code = tr(impl, ["args", "kwargs", "bound", "memos"], bound_var="bound")
    old_code = tr(old, "*")
    ctx = None
    for node in tree.body:
        if isinstance(node, ast.ClassDef) and node.name == "_JaxtypingContext":
            ctx = node
    enter = exit_ = ".unknown"
    if ctx is not None:
        for m in ctx.body:
            if isinstance(m, ast.FunctionDef) and m.name == "__enter__" and [p.arg for p in m.args.args] == ["self"]:
                t = WrapTranslator(tree)
                enter = t.seq(inline_helpers(m, tree, ctx).body)
                notes.extend(t.notes)
            if isinstance(m, ast.FunctionDef) and m.name == "__exit__" and len(m.args.args) == 4 and not m.decorator_list:
                t = WrapTranslator(tree)
                exit_ = t.seq(inline_helpers(m, tree, ctx).body)
                notes.extend(t.notes)
    pa_body, pa_else = translate_problem_arg(tree, notes)
    note = ("(" + "; ".join(notes)[:400].replace("-/", "- /") + ")") if notes else ""
    txt = f"""/- GENERATED by harness/translate_wrap.py from {REPO}/jaxtyping/_decorator.py on every run. Do not edit. -/
import JaxVerif.Model.WrapDsl
import JaxVerif.Model.BlameDsl

namespace JV.Generated

/-- new-style `wrapped_fn(*args, **kwargs)` {note} -/
def newWrapperCode : WStmt :=
  {new_code}

/-- its helper frame `wrapped_fn_impl(args, kwargs, bound, memos)` -/
def newImplCode : WStmt :=
  {impl_code}

/-- old-style / `typechecker=None` `wrapped_fn(*args, **kwargs)` -/
def oldWrapperCode : WStmt :=
  {old_code}

/-- `_JaxtypingContext.__enter__` / `__exit__` -/
def ctxEnterCode : WStmt := {enter}
def ctxExitCode : WStmt := {exit_}

/-- `_get_problem_arg`: the body of `for keep_name in param_signature.parameters…:` and its `else:` clause -/
def problemArgBody : BStmt :=
  {pa_body}
def problemArgElse : BStmt :=
  {pa_else}

end JV.Generated
"""
    write_if_changed(os.path.join(GEN, "WrapperCode.lean"), txt)
    return {"wrapper_notes": notes, "problem_arg": [pa_body, pa_else], "new": new_code, "impl": impl_code, "old": old_code, "enter": enter, "exit": exit_}


if __name__ == "__main__":
    import json

    print(json.dumps(run(), indent=1))
