/-
Helper lemmas for C01: the greedy per-axis walk, the `*name` history, the whole shape check
and `__instancecheck_str__` against the declarative meaning in Spec/Array.lean.
Core Lean only.
-/
import JaxVerif.Spec.Array
import JaxVerif.Lemmas.Bcast

namespace JV

/-! `Walk` derives only `Repr` in Model/Core.lean; the `by decide` non-vacuity examples of
Properties/C01.lean compare `Walk` values, so decidable equality is supplied here (in a
sub-namespace, so the instance name cannot clash with one derived in the model later). -/

/-! ### association lists -/

theorem lookup_cons_eq {β : Type} (k key : Key) (n : β) (σ : List (Key × β)) :
    List.lookup k ((key, n) :: σ) = if k = key then some n else σ.lookup k := by
  rw [List.lookup_cons]
  by_cases h : k = key
  · simp [h]
  · have : (k == key) = false := by simpa using h
    simp [this, h]

theorem lookup_setVar (k : Key) (v : Bool × List Nat) (k' : Key) : ∀ ν : Variadic,
    (setVar k v ν).lookup k' = if k' = k then some v else ν.lookup k'
  | [] => by
    simp only [setVar, lookup_cons_eq, List.lookup_nil]
  | (k0, v0) :: rest => by
    simp only [setVar]
    by_cases h0 : k0 = k
    · subst h0
      simp only [if_true, lookup_cons_eq]
      split <;> rfl
    · simp only [h0, if_false, lookup_cons_eq, lookup_setVar k v k' rest]
      by_cases h1 : k' = k0
      · have : ¬ k' = k := by rw [h1]; exact h0
        simp only [h1, if_true, h0, if_false]
      · simp only [h1, if_false]

/-! ### pointwise relation -/

theorem All2.length_eq {α β : Type} {R : α → β → Prop} {as : List α} {bs : List β}
    (h : All2 R as bs) : as.length = bs.length := by
  induction h with
  | nil => rfl
  | cons _ _ ih => simp [ih]

theorem All2.zip {α β : Type} {R : α → β → Prop} {as : List α} {bs : List β}
    (h : All2 R as bs) : ∀ p ∈ as.zip bs, R p.1 p.2 := by
  induction h with
  | nil => intro p hp; simp at hp
  | cons hab _ ih =>
    intro p hp
    simp only [List.zip_cons_cons, List.mem_cons] at hp
    rcases hp with rfl | hp
    · exact hab
    · exact ih p hp

theorem All2.of_zip {α β : Type} {R : α → β → Prop} : ∀ (as : List α) (bs : List β),
    as.length = bs.length → (∀ p ∈ as.zip bs, R p.1 p.2) → All2 R as bs
  | [], [], _, _ => .nil
  | [], _ :: _, h, _ => by simp at h
  | _ :: _, [], h, _ => by simp at h
  | a :: as, b :: bs, h, hp =>
    .cons (hp (a, b) (by simp))
      (All2.of_zip as bs (by simpa using h) (fun p hpm => hp p (by simp [hpm])))

/-! ### symbolic axes: partial memo versus total assignment -/

theorem bind2_agree {β : Type} (ra ra' rb rb' : Res Int) (f : Int → Int → Res β)
    (ha : ra = .annErr ∨ ra = ra') (hb : rb = .annErr ∨ rb = rb') :
    (ra >>= fun x => rb >>= fun y => f x y) = .annErr ∨
      (ra >>= fun x => rb >>= fun y => f x y) = (ra' >>= fun x => rb' >>= fun y => f x y) := by
  rcases ha with rfl | rfl
  · left; rfl
  · cases ra with
    | ok x =>
      rcases hb with rfl | rfl
      · left; rfl
      · right; rfl
    | fail => right; rfl
    | annErr => left; rfl
    | exc e => right; rfl

theorem bind1_agree {β : Type} (ra ra' : Res Int) (f : Int → Res β)
    (ha : ra = .annErr ∨ ra = ra') :
    (ra >>= f) = .annErr ∨ (ra >>= f) = (ra' >>= f) := by
  rcases ha with rfl | rfl
  · left; rfl
  · right; rfl

/-- under an assignment extending the memo, evaluation over the memo either stops at an unbound
    name or agrees with evaluation under the assignment -/
theorem evalCore_agree (args : Args) (α : Key → Nat) (σ : Single) (h : ExtendsSingle α σ) :
    ∀ e : Expr, e.evalCore args σ = .annErr ∨ e.evalCore args σ = e.evalTCore args α
  | .lit n => Or.inr rfl
  | .var x => by
    simp only [Expr.evalCore, Expr.evalTCore]
    cases hx : σ.lookup (.plain x) with
    | none => left; rfl
    | some n => right; rw [h _ _ hx]
  | .hole x => Or.inr rfl
  | .neg a => by
    simp only [Expr.evalCore, Expr.evalTCore]
    exact bind1_agree _ _ _ (evalCore_agree args α σ h a)
  | .add a b => by
    simp only [Expr.evalCore, Expr.evalTCore]
    exact bind2_agree _ _ _ _ _ (evalCore_agree args α σ h a) (evalCore_agree args α σ h b)
  | .sub a b => by
    simp only [Expr.evalCore, Expr.evalTCore]
    exact bind2_agree _ _ _ _ _ (evalCore_agree args α σ h a) (evalCore_agree args α σ h b)
  | .mul a b => by
    simp only [Expr.evalCore, Expr.evalTCore]
    exact bind2_agree _ _ _ _ _ (evalCore_agree args α σ h a) (evalCore_agree args α σ h b)
  | .fdiv a b => by
    simp only [Expr.evalCore, Expr.evalTCore]
    exact bind2_agree _ _ _ _ _ (evalCore_agree args α σ h a) (evalCore_agree args α σ h b)

theorem eval_agree (args : Args) (α : Key → Nat) (σ : Single) (h : ExtendsSingle α σ) (e : Expr) :
    e.eval args σ = .annErr ∨ e.eval args σ = e.evalT args α := by
  unfold Expr.eval Expr.evalT
  cases holesPass args e.holes with
  | ok _ => exact evalCore_agree args α σ h e
  | fail => right; rfl
  | annErr => left; rfl
  | exc x => right; rfl

theorem eval_ok_agree (args : Args) (α : Key → Nat) (σ : Single) (h : ExtendsSingle α σ)
    (e : Expr) (v : Int) (hv : e.eval args σ = .ok v) : e.evalT args α = .ok v := by
  rcases eval_agree args α σ h e with h1 | h1
  · rw [h1] at hv; cases hv
  · rw [← h1]; exact hv

/-! ### one axis -/

theorem skip_iff (b : Bool) (n : Nat) : (b && n == 1) = true ↔ (b = true ∧ n = 1) := by simp

theorem skip_false (b : Bool) (n : Nat) (h : ¬ (b = true ∧ n = 1)) : (b && n == 1) = false := by
  cases hh : (b && n == 1) with
  | false => rfl
  | true => exact absurd ((skip_iff b n).mp hh) h

theorem keyOf_cases (tp : TreePath) (x : String) (isTp : Bool) :
    (∃ key, keyOf tp x isTp = .ok key) ∨ (keyOf tp x isTp = .annErr ∧ isTp = true ∧ tp = none) := by
  cases isTp with
  | false => left; exact ⟨_, rfl⟩
  | true =>
    cases tp with
    | none => right; exact ⟨rfl, rfl, rfl⟩
    | some it => left; exact ⟨.leaf it.1 it.2 x, rfl⟩

theorem checkDim_skip (tp : TreePath) (args : Args) (σ : Single) (d : Dim) (n : Nat)
    (h : match d with
      | .anon => True
      | .fixed _ b => b = true ∧ n = 1
      | .named _ b _ => b = true ∧ n = 1
      | .sym _ b => b = true ∧ n = 1) : checkDim tp args σ d n = .ok σ := by
  cases d with
  | anon => rfl
  | fixed k b => simp only [checkDim, (skip_iff b n).mpr h, if_true]
  | named x b t => simp only [checkDim, (skip_iff b n).mpr h, if_true]
  | sym e b => simp only [checkDim, (skip_iff b n).mpr h, if_true]

theorem checkDim_fixed (tp : TreePath) (args : Args) (σ : Single) (k : Int) (b : Bool) (n : Nat)
    (h : ¬ (b = true ∧ n = 1)) :
    checkDim tp args σ (.fixed k b) n = if k = (n : Int) then .ok σ else .fail := by
  have : (b && n == 1) = false := skip_false b n h
  simp only [checkDim, this, Bool.false_eq_true, if_false]

theorem checkDim_sym (tp : TreePath) (args : Args) (σ : Single) (e : Expr) (b : Bool) (n : Nat)
    (h : ¬ (b = true ∧ n = 1)) :
    checkDim tp args σ (.sym e b) n =
      match e.eval args σ with
      | .ok v => if v = (n : Int) then .ok σ else .fail
      | .fail => .fail
      | .annErr => .annErr
      | .exc x => .exc x σ := by
  have : (b && n == 1) = false := skip_false b n h
  simp only [checkDim, this, Bool.false_eq_true, if_false]
  cases e.eval args σ <;> rfl

theorem checkDim_named_ok (tp : TreePath) (args : Args) (σ : Single) (x : String) (b t : Bool)
    (n : Nat) (key : Key) (h : ¬ (b = true ∧ n = 1)) (hk : keyOf tp x t = .ok key) :
    checkDim tp args σ (.named x b t) n =
      match σ.lookup key with
      | none => .ok ((key, n) :: σ)
      | some m => if m = n then .ok σ else .fail := by
  have : (b && n == 1) = false := skip_false b n h
  simp only [checkDim, this, Bool.false_eq_true, if_false, hk]
  cases σ.lookup key <;> rfl

theorem checkDim_named_ann (tp : TreePath) (args : Args) (σ : Single) (x : String) (b t : Bool)
    (n : Nat) (h : ¬ (b = true ∧ n = 1)) (hk : keyOf tp x t = .annErr) :
    checkDim tp args σ (.named x b t) n = .annErr := by
  have : (b && n == 1) = false := skip_false b n h
  simp only [checkDim, this, Bool.false_eq_true, if_false, hk]

/-- an accepted step only adds bindings, and every total assignment extending the new memo
    satisfies the axis -/
theorem checkDim_sound (tp : TreePath) (args : Args) (σ σ1 : Single) (d : Dim) (n : Nat)
    (hd : checkDim tp args σ d n = .ok σ1) :
    (∀ k m, σ.lookup k = some m → σ1.lookup k = some m) ∧
      ∀ α, ExtendsSingle α σ1 → SatDim tp args α d n := by
  cases d with
  | anon =>
    simp only [checkDim] at hd; cases hd
    exact ⟨fun _ _ h => h, fun _ _ => trivial⟩
  | fixed k b =>
    by_cases hb : b = true ∧ n = 1
    · rw [checkDim_skip tp args σ _ n hb] at hd; cases hd
      exact ⟨fun _ _ h => h, fun _ _ => Or.inl hb⟩
    · rw [checkDim_fixed tp args σ k b n hb] at hd
      split at hd
      · next hk => cases hd; exact ⟨fun _ _ h => h, fun _ _ => Or.inr hk⟩
      · cases hd
  | sym e b =>
    by_cases hb : b = true ∧ n = 1
    · rw [checkDim_skip tp args σ _ n hb] at hd; cases hd
      exact ⟨fun _ _ h => h, fun _ _ => Or.inl hb⟩
    · rw [checkDim_sym tp args σ e b n hb] at hd
      split at hd
      · next v hv =>
        split at hd
        · next hvn =>
          cases hd
          refine ⟨fun _ _ h => h, fun α hα => Or.inr ?_⟩
          rw [← hvn]; exact eval_ok_agree args α σ hα e v hv
        · cases hd
      · cases hd
      · cases hd
      · cases hd
  | named x b t =>
    by_cases hb : b = true ∧ n = 1
    · rw [checkDim_skip tp args σ _ n hb] at hd; cases hd
      exact ⟨fun _ _ h => h, fun _ _ => Or.inl hb⟩
    · rcases keyOf_cases tp x t with ⟨key, hk⟩ | ⟨hk, _, _⟩
      · rw [checkDim_named_ok tp args σ x b t n key hb hk] at hd
        split at hd
        · next hnone =>
          cases hd
          refine ⟨fun k m hkm => ?_, fun α hα => Or.inr ⟨key, hk, ?_⟩⟩
          · rw [lookup_cons_eq]
            split
            · next heq => subst heq; rw [hnone] at hkm; cases hkm
            · exact hkm
          · exact hα key n (by rw [lookup_cons_eq]; simp)
        · next m hm =>
          split at hd
          · next hmn =>
            cases hd
            refine ⟨fun _ _ h => h, fun α hα => Or.inr ⟨key, hk, ?_⟩⟩
            rw [← hmn]; exact hα key m hm
          · cases hd
      · rw [checkDim_named_ann tp args σ x b t n hb hk] at hd; cases hd

/-- if a total assignment consistent with the memo satisfies the axis, the step accepts and stays
    consistent, or stops at an unbound symbolic name -/
theorem checkDim_complete (tp : TreePath) (args : Args) (α : Key → Nat) (σ : Single) (d : Dim)
    (n : Nat) (hα : ExtendsSingle α σ) (hs : SatDim tp args α d n) :
    (∃ σ', checkDim tp args σ d n = .ok σ' ∧ ExtendsSingle α σ') ∨
      checkDim tp args σ d n = .annErr := by
  cases d with
  | anon => left; exact ⟨σ, rfl, hα⟩
  | fixed k b =>
    left
    by_cases hb : b = true ∧ n = 1
    · exact ⟨σ, checkDim_skip tp args σ _ n hb, hα⟩
    · have hk : k = (n : Int) := by
        rcases hs with h | h
        · exact absurd h hb
        · exact h
      exact ⟨σ, by rw [checkDim_fixed tp args σ k b n hb, if_pos hk], hα⟩
  | sym e b =>
    by_cases hb : b = true ∧ n = 1
    · left; exact ⟨σ, checkDim_skip tp args σ _ n hb, hα⟩
    · have he : e.evalT args α = .ok (n : Int) := by
        rcases hs with h | h
        · exact absurd h hb
        · exact h
      rw [checkDim_sym tp args σ e b n hb]
      rcases eval_agree args α σ hα e with h1 | h1
      · right; rw [h1]
      · left; rw [h1, he]; exact ⟨σ, by simp, hα⟩
  | named x b t =>
    left
    by_cases hb : b = true ∧ n = 1
    · exact ⟨σ, checkDim_skip tp args σ _ n hb, hα⟩
    · have hx : ∃ key, keyOf tp x t = .ok key ∧ α key = n := by
        rcases hs with h | h
        · exact absurd h hb
        · exact h
      obtain ⟨key, hk, hkn⟩ := hx
      rw [checkDim_named_ok tp args σ x b t n key hb hk]
      cases hl : σ.lookup key with
      | none =>
        refine ⟨(key, n) :: σ, rfl, fun k m hkm => ?_⟩
        rw [lookup_cons_eq] at hkm
        split at hkm
        · next heq => subst heq; cases hkm; exact hkn
        · exact hα k m hkm
      | some m =>
        have : m = n := by rw [← hkn]; exact (hα key m hl).symm
        exact ⟨σ, by simp [this], hα⟩

/-- when a single step raises AnnotationError -/
theorem checkDim_annErr_iff (tp : TreePath) (args : Args) (σ : Single) (d : Dim) (n : Nat) :
    checkDim tp args σ d n = .annErr ↔
      ((∃ e b, d = .sym e b ∧ ¬(b = true ∧ n = 1) ∧ e.eval args σ = .annErr) ∨
       (∃ x b, d = .named x b true ∧ ¬(b = true ∧ n = 1) ∧ tp = none)) := by
  cases d with
  | anon =>
    constructor
    · intro h; cases h
    · rintro (⟨_, _, h, _⟩ | ⟨_, _, h, _⟩) <;> cases h
  | fixed k b =>
    constructor
    · intro h
      by_cases hb : b = true ∧ n = 1
      · rw [checkDim_skip tp args σ _ n hb] at h; cases h
      · rw [checkDim_fixed tp args σ k b n hb] at h
        split at h <;> cases h
    · rintro (⟨_, _, h, _⟩ | ⟨_, _, h, _⟩) <;> cases h
  | sym e b =>
    constructor
    · intro h
      by_cases hb : b = true ∧ n = 1
      · rw [checkDim_skip tp args σ _ n hb] at h; cases h
      · rw [checkDim_sym tp args σ e b n hb] at h
        left
        refine ⟨e, b, rfl, hb, ?_⟩
        split at h
        · split at h <;> cases h
        · cases h
        · assumption
        · cases h
    · rintro (⟨e', b', h, hb, he⟩ | ⟨_, _, h, _⟩)
      · cases h
        rw [checkDim_sym tp args σ e b n hb, he]
      · cases h
  | named x b t =>
    constructor
    · intro h
      by_cases hb : b = true ∧ n = 1
      · rw [checkDim_skip tp args σ _ n hb] at h; cases h
      · rcases keyOf_cases tp x t with ⟨key, hk⟩ | ⟨_, ht, htp⟩
        · rw [checkDim_named_ok tp args σ x b t n key hb hk] at h
          split at h
          · cases h
          · split at h <;> cases h
        · right; subst ht; exact ⟨x, b, rfl, hb, htp⟩
    · rintro (⟨_, _, h, _⟩ | ⟨x', b', h, hb, htp⟩)
      · cases h
      · cases h
        subst htp
        exact checkDim_named_ann none args σ x b true n hb rfl

/-! ### the walk over all axes -/

theorem checkDims_cons (tp : TreePath) (args : Args) (σ : Single) (d : Dim) (n : Nat)
    (rest : List (Dim × Nat)) :
    checkDims tp args σ ((d, n) :: rest) =
      match checkDim tp args σ d n with
      | .ok σ' => checkDims tp args σ' rest
      | .fail => .fail
      | .annErr => .annErr
      | .exc e l => .exc e l := by
  cases h : checkDim tp args σ d n <;> simp only [checkDims, h]

theorem checkDims_cons_ok (tp : TreePath) (args : Args) (σ σ1 : Single) (d : Dim) (n : Nat)
    (rest : List (Dim × Nat)) (h : checkDim tp args σ d n = .ok σ1) :
    checkDims tp args σ ((d, n) :: rest) = checkDims tp args σ1 rest := by
  simp only [checkDims, h]

theorem checkDims_cons_annErr (tp : TreePath) (args : Args) (σ : Single) (d : Dim) (n : Nat)
    (rest : List (Dim × Nat)) (h : checkDim tp args σ d n = .annErr) :
    checkDims tp args σ ((d, n) :: rest) = .annErr := by
  simp only [checkDims, h]

theorem checkDims_sound (tp : TreePath) (args : Args) (σ σ' : Single) (l : List (Dim × Nat))
    (h : checkDims tp args σ l = .ok σ') :
    (∀ k n, σ.lookup k = some n → σ'.lookup k = some n) ∧
    ∀ α, ExtendsSingle α σ' → ∀ p ∈ l, SatDim tp args α p.1 p.2 := by
  induction l generalizing σ with
  | nil =>
    simp only [checkDims] at h; cases h
    exact ⟨fun _ _ h => h, fun _ _ p hp => by simp at hp⟩
  | cons p rest ih =>
    obtain ⟨d, n⟩ := p
    cases hd : checkDim tp args σ d n with
    | fail => simp [checkDims, hd] at h
    | annErr => simp [checkDims, hd] at h
    | exc e lk => simp [checkDims, hd] at h
    | ok σ1 =>
      rw [checkDims_cons_ok tp args σ σ1 d n rest hd] at h
      obtain ⟨hmono, hsat⟩ := ih σ1 h
      obtain ⟨hstep1, hstep2⟩ := checkDim_sound tp args σ σ1 d n hd
      refine ⟨fun k m hk => hmono k m (hstep1 k m hk), ?_⟩
      intro α hα q hq
      rcases List.mem_cons.mp hq with rfl | hq
      · exact hstep2 α (fun k m hk => hα k m (hmono k m hk))
      · exact hsat α hα q hq

theorem checkDims_complete (tp : TreePath) (args : Args) (α : Key → Nat) (σ : Single)
    (l : List (Dim × Nat)) (hα : ExtendsSingle α σ) (hs : ∀ p ∈ l, SatDim tp args α p.1 p.2) :
    (∃ σ', checkDims tp args σ l = .ok σ' ∧ ExtendsSingle α σ') ∨
      checkDims tp args σ l = .annErr := by
  induction l generalizing σ with
  | nil => left; exact ⟨σ, rfl, hα⟩
  | cons p rest ih =>
    obtain ⟨d, n⟩ := p
    rcases checkDim_complete tp args α σ d n hα (hs (d, n) (by simp)) with ⟨σ1, h1, hα1⟩ | herr
    · rw [checkDims_cons_ok tp args σ σ1 d n rest h1]
      exact ih σ1 hα1 (fun q hq => hs q (by simp [hq]))
    · right; exact checkDims_cons_annErr tp args σ d n rest herr

/-- the canonical total assignment of a memo -/
def asgOfSingle (σ : Single) : Key → Nat := fun k => (σ.lookup k).getD 0

theorem asgOfSingle_extends (σ : Single) : ExtendsSingle (asgOfSingle σ) σ := by
  intro k n hk; simp [asgOfSingle, hk]

theorem checkDims_iff (tp : TreePath) (args : Args) (σ : Single) (l : List (Dim × Nat))
    (hne : checkDims tp args σ l ≠ .annErr) :
    (∃ σ', checkDims tp args σ l = .ok σ') ↔
      ∃ α, ExtendsSingle α σ ∧ ∀ p ∈ l, SatDim tp args α p.1 p.2 := by
  constructor
  · rintro ⟨σ', h⟩
    obtain ⟨hmono, hsat⟩ := checkDims_sound tp args σ σ' l h
    refine ⟨asgOfSingle σ', ?_, hsat _ (asgOfSingle_extends σ')⟩
    intro k n hk
    exact asgOfSingle_extends σ' k n (hmono k n hk)
  · rintro ⟨α, hα, hs⟩
    rcases checkDims_complete tp args α σ l hα hs with ⟨σ', h, _⟩ | h
    · exact ⟨σ', h⟩
    · exact absurd h hne

theorem checkDims_annErr_iff (tp : TreePath) (args : Args) (σ : Single) (l : List (Dim × Nat)) :
    checkDims tp args σ l = .annErr ↔
      ∃ l1 d n l2 σ1, l = l1 ++ (d, n) :: l2 ∧ checkDims tp args σ l1 = .ok σ1 ∧
        ((∃ e b, d = .sym e b ∧ ¬(b = true ∧ n = 1) ∧ e.eval args σ1 = .annErr) ∨
         (∃ x b, d = .named x b true ∧ ¬(b = true ∧ n = 1) ∧ tp = none)) := by
  constructor
  · intro h
    induction l generalizing σ with
    | nil => simp [checkDims] at h
    | cons p rest ih =>
      obtain ⟨d, n⟩ := p
      cases hd : checkDim tp args σ d n with
      | fail => simp [checkDims, hd] at h
      | exc e lk => simp [checkDims, hd] at h
      | annErr =>
        exact ⟨[], d, n, rest, σ, rfl, rfl, (checkDim_annErr_iff tp args σ d n).mp hd⟩
      | ok σ1 =>
        rw [checkDims_cons_ok tp args σ σ1 d n rest hd] at h
        obtain ⟨l1, d', n', l2, σ2, hl, hc, hcase⟩ := ih σ1 h
        refine ⟨(d, n) :: l1, d', n', l2, σ2, by rw [hl]; rfl, ?_, hcase⟩
        rw [checkDims_cons_ok tp args σ σ1 d n l1 hd]; exact hc
  · rintro ⟨l1, d, n, l2, σ1, hl, hc, hcase⟩
    subst hl
    induction l1 generalizing σ with
    | nil =>
      simp only [checkDims] at hc; cases hc
      exact checkDims_cons_annErr tp args _ d n l2 ((checkDim_annErr_iff tp args _ d n).mpr hcase)
    | cons p rest ih =>
      obtain ⟨d0, n0⟩ := p
      cases hd : checkDim tp args σ d0 n0 with
      | fail => simp [checkDims, hd] at hc
      | exc e lk => simp [checkDims, hd] at hc
      | annErr => simp [checkDims, hd] at hc
      | ok σ0 =>
        rw [checkDims_cons_ok tp args σ σ0 d0 n0 rest hd] at hc
        rw [List.cons_append, checkDims_cons_ok tp args σ σ0 d0 n0 _ hd]
        exact ih σ0 hc

/-! ### one `*name`: the four-way branch -/

theorem SatV_true (v n : List Nat) : SatV v (true, n) ↔ BroadcastsTo n v := Iff.rfl
theorem SatV_false (v n : List Nat) : SatV v (false, n) ↔ n = v := Iff.rfl

theorem ExtV_some_iff (v : List Nat) (b : Bool) (s : List Nat) :
    ExtV v (some (b, s)) ↔ if b then BroadcastsTo s v else s = v := by
  cases b <;> exact Iff.rfl

theorem vstep_complete (v : List Nat) (st : Option (Bool × List Nat)) (b : Bool) (n : List Nat)
    (hst : ExtV v st) (hs : SatV v (b, n)) :
    ∃ st', vstep st b n = some st' ∧ ExtV v (some st') := by
  match st, b with
  | none, b => exact ⟨(b, n), rfl, (ExtV_some_iff v b n).mpr hs⟩
  | some (true, s), true =>
    have hs' : BroadcastsTo n v := hs
    have hst' : BroadcastsTo s v := hst
    obtain ⟨j, hj, hjv, _, _⟩ := bt_lub n s v hs' hst'
    exact ⟨(true, j), by simp [vstep, hj], hjv⟩
  | some (true, s), false =>
    have hn : n = v := hs
    have hst' : BroadcastsTo s v := hst
    subst hn
    have : bcast n s = some n := by rw [bcast_comm]; exact hst'
    exact ⟨(false, n), by simp [vstep, this], rfl⟩
  | some (false, s), true =>
    have hs' : BroadcastsTo n v := hs
    have hst' : s = v := hst
    subst hst'
    have : bcast n s = some s := hs'
    exact ⟨(false, s), by simp [vstep, this], rfl⟩
  | some (false, s), false =>
    have hn : n = v := hs
    have hst' : s = v := hst
    subst hst'
    exact ⟨(false, s), by simp [vstep, hn], rfl⟩

/-- every `v` compatible with the new memo is compatible with the old one and satisfies the use -/
theorem vstep_sound (st : Option (Bool × List Nat)) (st' : Bool × List Nat) (b : Bool)
    (n : List Nat) (h : vstep st b n = some st') (v : List Nat) (hv : ExtV v (some st')) :
    ExtV v st ∧ SatV v (b, n) := by
  match st, b with
  | none, b =>
    simp only [vstep, Option.some.injEq] at h; subst h
    exact ⟨trivial, (ExtV_some_iff v b n).mp hv⟩
  | some (true, s), b =>
    simp only [vstep] at h
    cases hj : bcast n s with
    | none => simp [hj] at h
    | some j =>
      simp only [hj] at h
      obtain ⟨hnj, hsj⟩ := bcast_upper n s j hj
      cases b with
      | true =>
        simp at h; subst h
        have hv' : BroadcastsTo j v := hv
        exact ⟨bt_trans _ _ _ hsj hv', bt_trans _ _ _ hnj hv'⟩
      | false =>
        simp at h
        obtain ⟨hjn, rfl⟩ := h
        have hv' : j = v := hv
        subst hv'; subst hjn
        exact ⟨hsj, rfl⟩
  | some (false, s), true =>
    simp only [vstep] at h
    cases hj : bcast n s with
    | none => simp [hj] at h
    | some j =>
      simp [hj] at h
      obtain ⟨rfl, rfl⟩ := h
      have hv' : j = v := hv
      subst hv'
      exact ⟨rfl, hj⟩
  | some (false, s), false =>
    simp [vstep] at h
    obtain ⟨rfl, rfl⟩ := h
    have hv' : n = v := hv
    subst hv'
    exact ⟨rfl, rfl⟩

/-- a step that ends in an exact memo after a `#` use started from an exact memo -/
theorem vstep_false_origin (st : Option (Bool × List Nat)) (n s1 : List Nat)
    (h : vstep st true n = some (false, s1)) : ∃ s, st = some (false, s) := by
  match st with
  | none => simp [vstep] at h
  | some (true, s) =>
    simp only [vstep] at h
    cases hj : bcast n s with
    | none => simp [hj] at h
    | some j => simp [hj] at h
  | some (false, s) => exact ⟨s, rfl⟩

/-- a step that ends in a `#` memo was a `#` use on an empty or `#` memo -/
theorem vstep_true_origin (st : Option (Bool × List Nat)) (b : Bool) (n s1 : List Nat)
    (h : vstep st b n = some (true, s1)) :
    b = true ∧ (st = none ∨ ∃ s, st = some (true, s)) := by
  match st with
  | none =>
    simp [vstep] at h
    exact ⟨h.1, Or.inl rfl⟩
  | some (true, s) =>
    simp only [vstep] at h
    cases hj : bcast n s with
    | none => simp [hj] at h
    | some j =>
      simp only [hj] at h
      split at h
      · cases h
      · simp at h
        exact ⟨h.1, Or.inr ⟨s, rfl⟩⟩
  | some (false, s) =>
    simp only [vstep] at h
    split at h
    · cases hj : bcast n s with
      | none => simp [hj] at h
      | some j =>
        simp only [hj] at h
        split at h
        · cases h
        · simp at h
    · split at h
      · cases h
      · simp at h

/-! ### histories of one `*name` -/

theorem vrun_cons_some (st : Option (Bool × List Nat)) (b : Bool) (n : List Nat)
    (rest : List (Bool × List Nat)) (st1 : Bool × List Nat) (h : vstep st b n = some st1) :
    vrun st ((b, n) :: rest) = vrun (some st1) rest := by
  simp only [vrun, h]

theorem vrun_cons_none (st : Option (Bool × List Nat)) (b : Bool) (n : List Nat)
    (rest : List (Bool × List Nat)) (h : vstep st b n = none) :
    vrun st ((b, n) :: rest) = none := by
  simp only [vrun, h]

theorem ExtV_witness : ∀ st : Option (Bool × List Nat), ∃ v, ExtV v st
  | none => ⟨[], trivial⟩
  | some (true, s) => ⟨s, bt_refl s⟩
  | some (false, s) => ⟨s, rfl⟩

theorem vrun_sound (st st' : Option (Bool × List Nat)) (us : List (Bool × List Nat))
    (h : vrun st us = some st') (v : List Nat) (hv : ExtV v st') :
    ExtV v st ∧ ∀ u ∈ us, SatV v u := by
  induction us generalizing st with
  | nil =>
    simp only [vrun, Option.some.injEq] at h; subst h
    exact ⟨hv, fun u hu => by simp at hu⟩
  | cons u rest ih =>
    obtain ⟨b, n⟩ := u
    cases hs : vstep st b n with
    | none => rw [vrun_cons_none st b n rest hs] at h; cases h
    | some st1 =>
      rw [vrun_cons_some st b n rest st1 hs] at h
      obtain ⟨hv1, hall⟩ := ih (some st1) h
      obtain ⟨h0, h1⟩ := vstep_sound st st1 b n hs v hv1
      refine ⟨h0, fun u hu => ?_⟩
      rcases List.mem_cons.mp hu with rfl | hu
      · exact h1
      · exact hall u hu

theorem vrun_complete (v : List Nat) (st : Option (Bool × List Nat))
    (us : List (Bool × List Nat)) (hv : ExtV v st) (hall : ∀ u ∈ us, SatV v u) :
    ∃ st', vrun st us = some st' ∧ ExtV v st' := by
  induction us generalizing st with
  | nil => exact ⟨st, rfl, hv⟩
  | cons u rest ih =>
    obtain ⟨b, n⟩ := u
    obtain ⟨st1, hs, hv1⟩ := vstep_complete v st b n hv (hall (b, n) (by simp))
    rw [vrun_cons_some st b n rest st1 hs]
    exact ih (some st1) hv1 (fun u hu => hall u (by simp [hu]))

theorem vrun_iff (st : Option (Bool × List Nat)) (us : List (Bool × List Nat)) :
    (∃ st', vrun st us = some st') ↔ ∃ v, ExtV v st ∧ ∀ u ∈ us, SatV v u := by
  constructor
  · rintro ⟨st', h⟩
    obtain ⟨v, hv⟩ := ExtV_witness st'
    exact ⟨v, vrun_sound st st' us h v hv⟩
  · rintro ⟨v, hv, hall⟩
    obtain ⟨st', h, _⟩ := vrun_complete v st us hv hall
    exact ⟨st', h⟩

theorem vrun_false_origin (st : Option (Bool × List Nat)) (us : List (Bool × List Nat))
    (S : List Nat) (h : vrun st us = some (some (false, S))) :
    (∃ s, st = some (false, s)) ∨ ∃ u ∈ us, u.1 = false := by
  induction us generalizing st with
  | nil =>
    simp only [vrun, Option.some.injEq] at h
    exact Or.inl ⟨S, h⟩
  | cons u rest ih =>
    obtain ⟨b, n⟩ := u
    cases b with
    | false => exact Or.inr ⟨(false, n), by simp, rfl⟩
    | true =>
      cases hs : vstep st true n with
      | none => rw [vrun_cons_none st true n rest hs] at h; cases h
      | some st1 =>
        rw [vrun_cons_some st true n rest st1 hs] at h
        rcases ih (some st1) h with ⟨s, hs1⟩ | ⟨u, hu, hu1⟩
        · injection hs1 with hs1; subst hs1
          exact Or.inl (vstep_false_origin st n s hs)
        · exact Or.inr ⟨u, by simp [hu], hu1⟩

theorem vrun_true_origin (st : Option (Bool × List Nat)) (us : List (Bool × List Nat))
    (S : List Nat) (h : vrun st us = some (some (true, S))) :
    (st = none ∨ ∃ s, st = some (true, s)) ∧ ∀ u ∈ us, u.1 = true := by
  induction us generalizing st with
  | nil =>
    simp only [vrun, Option.some.injEq] at h
    exact ⟨Or.inr ⟨S, h⟩, fun u hu => by simp at hu⟩
  | cons u rest ih =>
    obtain ⟨b, n⟩ := u
    cases hs : vstep st b n with
    | none => rw [vrun_cons_none st b n rest hs] at h; cases h
    | some st1 =>
      rw [vrun_cons_some st b n rest st1 hs] at h
      obtain ⟨hor, hall⟩ := ih (some st1) h
      rcases hor with h0 | ⟨s, hs1⟩
      · cases h0
      · injection hs1 with hs1; subst hs1
        obtain ⟨hb, hst⟩ := vstep_true_origin st b n s hs
        refine ⟨hst, fun u hu => ?_⟩
        rcases List.mem_cons.mp hu with rfl | hu
        · exact hb
        · exact hall u hu

theorem vrun_state (us : List (Bool × List Nat)) (b : Bool) (S : List Nat)
    (h : vrun none us = some (some (b, S))) :
    (b = false → (∃ u ∈ us, u.1 = false) ∧ ∀ u ∈ us, SatV S u) ∧
    (b = true → (∀ u ∈ us, u.1 = true ∧ BroadcastsTo u.2 S) ∧
      ∀ v, (∀ u ∈ us, BroadcastsTo u.2 v) → BroadcastsTo S v) := by
  constructor
  · intro hb; subst hb
    refine ⟨?_, (vrun_sound none _ us h S rfl).2⟩
    rcases vrun_false_origin none us S h with ⟨s, hs⟩ | hex
    · cases hs
    · exact hex
  · intro hb; subst hb
    obtain ⟨_, htrue⟩ := vrun_true_origin none us S h
    have hsat := (vrun_sound none _ us h S (bt_refl S)).2
    refine ⟨fun u hu => ⟨htrue u hu, ?_⟩, fun v hv => ?_⟩
    · have := hsat u hu
      unfold SatV at this
      rw [htrue u hu] at this
      exact this
    · obtain ⟨st', h', hv'⟩ := vrun_complete v none us trivial (fun u hu => by
        unfold SatV; rw [htrue u hu]; exact hv u hu)
      rw [h] at h'
      injection h' with h'; subst h'
      exact hv'

/-! ### splitting a shape around the multi-axis specifier -/

theorem shape_split (shape : List Nat) (i s : Nat) (h : i + s ≤ shape.length) :
    shape = shape.take i ++ (shape.drop i).take (shape.length - i - s) ++
      shape.drop (shape.length - s) := by
  have : shape.drop (shape.length - s) = (shape.drop i).drop (shape.length - i - s) := by
    rw [List.drop_drop]; congr 1; omega
  rw [this, List.append_assoc, List.take_append_drop, List.take_append_drop]

theorem split_take (p m s : List Nat) : (p ++ m ++ s).take p.length = p := by
  rw [List.append_assoc, List.take_left]

theorem split_drop (p m s : List Nat) :
    (p ++ m ++ s).drop ((p ++ m ++ s).length - s.length) = s := by
  have : (p ++ m ++ s).length - s.length = (p ++ m).length := by
    simp only [List.length_append]; omega
  rw [this, List.drop_left]

theorem split_mid (p m s : List Nat) :
    ((p ++ m ++ s).drop p.length).take ((p ++ m ++ s).length - p.length - s.length) = m := by
  have : (p ++ m ++ s).length - p.length - s.length = m.length := by
    simp only [List.length_append]; omega
  rw [this, List.append_assoc, List.drop_left, List.take_left]

/-! ### the multi-axis memo -/

theorem extV_of_extendsVar (α : Key → List Nat) (ν : Variadic) (h : ExtendsVar α ν) (k : Key) :
    ExtV (α k) (ν.lookup k) := by
  cases hl : ν.lookup k with
  | none => trivial
  | some bs =>
    obtain ⟨b, s⟩ := bs
    exact (ExtV_some_iff (α k) b s).mpr (h k b s hl)

theorem extendsVar_setVar (α : Key → List Nat) (ν : Variadic) (key : Key) (st : Bool × List Nat)
    (h : ExtendsVar α ν) (hst : ExtV (α key) (some st)) : ExtendsVar α (setVar key st ν) := by
  intro k b s hl
  rw [lookup_setVar] at hl
  split at hl
  · next heq =>
    subst heq
    injection hl with hl; subst hl
    exact (ExtV_some_iff (α k) b s).mp hst
  · exact h k b s hl

theorem extendsVar_of_setVar (α : Key → List Nat) (ν : Variadic) (key : Key)
    (st : Bool × List Nat) (h : ExtendsVar α (setVar key st ν))
    (hold : ExtV (α key) (ν.lookup key)) : ExtendsVar α ν := by
  intro k b s hl
  by_cases hk : k = key
  · subst hk
    rw [hl] at hold
    exact (ExtV_some_iff (α k) b s).mp hold
  · exact h k b s (by rw [lookup_setVar, if_neg hk]; exact hl)

theorem extV_of_setVar (α : Key → List Nat) (ν : Variadic) (key : Key)
    (st : Bool × List Nat) (h : ExtendsVar α (setVar key st ν)) : ExtV (α key) (some st) := by
  obtain ⟨b, s⟩ := st
  exact (ExtV_some_iff (α key) b s).mpr (h key b s (by rw [lookup_setVar, if_pos rfl]))

/-! ### the whole shape check -/

/-- what an accepted `_check_shape` with a multi-axis specifier went through -/
theorem checkShape_some_ok (tp : TreePath) (args : Args) (pre : List Dim) (v : VDim)
    (suf : List Dim) (shape : List Nat) (σ σ' : Single) (ν ν' : Variadic)
    (h : checkShape tp args ⟨pre, some (v, suf)⟩ shape σ ν = .ok (σ', ν')) :
    pre.length + suf.length ≤ shape.length ∧
    ∃ σ1, checkDims tp args σ (pre.zip (shape.take pre.length)) = .ok σ1 ∧
      checkDims tp args σ1 (suf.zip (shape.drop (shape.length - suf.length))) = .ok σ' ∧
      match v with
      | .anonVar => ν' = ν
      | .namedVar x b t => ∃ key st, keyOf tp x t = .ok key ∧
          vstep (ν.lookup key) b
            ((shape.drop pre.length).take (shape.length - pre.length - suf.length)) = some st ∧
          ν' = setVar key st ν := by
  simp only [checkShape] at h
  split at h
  · cases h
  · next hlen =>
    refine ⟨by omega, ?_⟩
    cases hc1 : checkDims tp args σ (pre.zip (shape.take pre.length)) with
    | fail => simp [hc1] at h
    | annErr => simp [hc1] at h
    | exc e l => simp [hc1] at h
    | ok σ1 =>
      simp only [hc1] at h
      cases hc2 : checkDims tp args σ1 (suf.zip (shape.drop (shape.length - suf.length))) with
      | fail => simp [hc2] at h
      | annErr => simp [hc2] at h
      | exc e l => simp [hc2] at h
      | ok σ2 =>
        simp only [hc2] at h
        cases v with
        | anonVar =>
          simp only [Walk.ok.injEq, Prod.mk.injEq] at h
          obtain ⟨rfl, rfl⟩ := h
          exact ⟨σ1, rfl, hc2, rfl⟩
        | namedVar x b t =>
          simp only at h
          cases hk : keyOf tp x t with
          | fail => simp [hk] at h
          | annErr => simp [hk] at h
          | exc e => simp [hk] at h
          | ok key =>
            simp only [hk] at h
            cases hv : vstep (ν.lookup key) b
              ((shape.drop pre.length).take (shape.length - pre.length - suf.length)) with
            | none => simp [hv] at h
            | some st =>
              simp only [hv, Walk.ok.injEq, Prod.mk.injEq] at h
              obtain ⟨rfl, rfl⟩ := h
              exact ⟨σ1, rfl, hc2, key, st, hk, hv, rfl⟩

theorem checkShape_sound (tp : TreePath) (args : Args) (sh : Shape) (shape : List Nat)
    (σ σ' : Single) (ν ν' : Variadic) (h : checkShape tp args sh shape σ ν = .ok (σ', ν')) :
    ∀ α, Extends α σ' ν' → Extends α σ ν ∧ Matches tp args α sh shape := by
  obtain ⟨pre, var⟩ := sh
  cases var with
  | none =>
    simp only [checkShape] at h
    split at h
    · cases h
    · next hlen =>
      have hlen' : pre.length = shape.length := by
        have : ¬ shape.length ≠ pre.length := by simpa using hlen
        omega
      cases hc : checkDims tp args σ (pre.zip shape) with
      | fail => simp [hc] at h
      | annErr => simp [hc] at h
      | exc e l => simp [hc] at h
      | ok σ1 =>
        simp only [hc, Walk.ok.injEq, Prod.mk.injEq] at h
        obtain ⟨rfl, rfl⟩ := h
        obtain ⟨hmono, hsat⟩ := checkDims_sound tp args σ _ _ hc
        rintro α ⟨hσ, hν⟩
        refine ⟨⟨fun k n hk => hσ k n (hmono k n hk), hν⟩, ?_⟩
        exact All2.of_zip pre shape hlen' (hsat α.single hσ)
  | some vs =>
    obtain ⟨v, suf⟩ := vs
    obtain ⟨hlen, σ1, hc1, hc2, hvar⟩ := checkShape_some_ok tp args pre v suf shape σ σ' ν ν' h
    obtain ⟨hmono1, hsat1⟩ := checkDims_sound tp args σ σ1 _ hc1
    obtain ⟨hmono2, hsat2⟩ := checkDims_sound tp args σ1 σ' _ hc2
    rintro α ⟨hσ, hν⟩
    have hσ1 : ExtendsSingle α.single σ1 := fun k n hk => hσ k n (hmono2 k n hk)
    have hσ0 : ExtendsSingle α.single σ := fun k n hk => hσ1 k n (hmono1 k n hk)
    have hpre : All2 (SatDim tp args α.single) pre (shape.take pre.length) :=
      All2.of_zip _ _ (by rw [List.length_take]; omega) (hsat1 α.single hσ1)
    have hsuf : All2 (SatDim tp args α.single) suf (shape.drop (shape.length - suf.length)) :=
      All2.of_zip _ _ (by rw [List.length_drop]; omega) (hsat2 α.single hσ)
    have hsplit := shape_split shape pre.length suf.length hlen
    cases v with
    | anonVar =>
      have hνeq : ν' = ν := hvar
      subst hνeq
      exact ⟨⟨hσ0, hν⟩, _, _, _, hsplit, hpre, hsuf, trivial⟩
    | namedVar x b t =>
      obtain ⟨key, st, hk, hv, hνeq⟩ := hvar
      subst hνeq
      have hst := extV_of_setVar α.var ν key st hν
      obtain ⟨hold, hsatv⟩ := vstep_sound _ st b _ hv (α.var key) hst
      exact ⟨⟨hσ0, extendsVar_of_setVar α.var ν key st hν hold⟩, _, _, _, hsplit, hpre, hsuf,
        key, hk, hsatv⟩

theorem checkShape_complete (tp : TreePath) (args : Args) (sh : Shape) (shape : List Nat)
    (σ : Single) (ν : Variadic) (α : Asg) (hα : Extends α σ ν) (hm : Matches tp args α sh shape) :
    (∃ σ' ν', checkShape tp args sh shape σ ν = .ok (σ', ν') ∧ Extends α σ' ν') ∨
      checkShape tp args sh shape σ ν = .annErr := by
  obtain ⟨pre, var⟩ := sh
  obtain ⟨hσ, hν⟩ := hα
  cases var with
  | none =>
    have hm' : All2 (SatDim tp args α.single) pre shape := hm
    have hlen : (shape.length != pre.length) = false := by
      simp [hm'.length_eq]
    simp only [checkShape, hlen, Bool.false_eq_true, if_false]
    rcases checkDims_complete tp args α.single σ _ hσ hm'.zip with ⟨σ1, hc, hσ1⟩ | hc
    · left; exact ⟨σ1, ν, by simp only [hc], hσ1, hν⟩
    · right; simp only [hc]
  | some vs =>
    obtain ⟨v, suf⟩ := vs
    obtain ⟨p, m, s, hsh, hp, hs, hv⟩ := hm
    subst hsh
    have hp : All2 (SatDim tp args α.single) pre p := hp
    have hpl : pre.length = p.length := hp.length_eq
    have hsl : suf.length = s.length := hs.length_eq
    have hlen : ¬ (p ++ m ++ s).length < pre.length + suf.length := by
      simp only [List.length_append]; omega
    simp only [checkShape, hlen, if_false]
    rw [hpl, hsl, split_take, split_drop, split_mid]
    rcases checkDims_complete tp args α.single σ _ hσ hp.zip with ⟨σ1, hc1, hσ1⟩ | hc1
    · simp only [hc1]
      rcases checkDims_complete tp args α.single σ1 _ hσ1 hs.zip with ⟨σ2, hc2, hσ2⟩ | hc2
      · simp only [hc2]
        cases v with
        | anonVar => left; exact ⟨σ2, ν, rfl, hσ2, hν⟩
        | namedVar x b t =>
          obtain ⟨key, hk, hsat⟩ := hv
          obtain ⟨st, hst, hext⟩ := vstep_complete (α.var key) (ν.lookup key) b m
            (extV_of_extendsVar α.var ν hν key) hsat
          left
          exact ⟨σ2, setVar key st ν, by simp only [hk, hst], hσ2,
            extendsVar_setVar α.var ν key st hν hext⟩
      · right; simp only [hc2]
    · right; simp only [hc1]

/-! ### rank -/

theorem matches_rank (tp : TreePath) (args : Args) (α : Asg) (sh : Shape) (shape : List Nat)
    (h : Matches tp args α sh shape) :
    match sh.var with
    | none => shape.length = sh.pre.length
    | some (_, suf) => sh.pre.length + suf.length ≤ shape.length := by
  obtain ⟨pre, var⟩ := sh
  cases var with
  | none =>
    have h' : All2 (SatDim tp args α.single) pre shape := h
    exact h'.length_eq.symm
  | some vs =>
    obtain ⟨v, suf⟩ := vs
    obtain ⟨p, m, s, hsh, hp, hs, _⟩ := h
    subst hsh
    show pre.length + suf.length ≤ (p ++ m ++ s).length
    rw [hp.length_eq, hs.length_eq]
    simp only [List.length_append]; omega

/-! ### `__instancecheck_str__` -/

/-- the canonical total assignment of a context -/
def asgOfMemo (σ : Single) (ν : Variadic) : Asg where
  single := asgOfSingle σ
  var := fun k => ((ν.lookup k).map (·.2)).getD []

theorem asgOfMemo_extends (σ : Single) (ν : Variadic) : Extends (asgOfMemo σ ν) σ ν := by
  refine ⟨asgOfSingle_extends σ, ?_⟩
  intro k b s hl
  have : (asgOfMemo σ ν).var k = s := by simp [asgOfMemo, hl]
  rw [this]
  cases b
  · simp
  · simpa using bt_refl s

theorem instancecheck_verdict (c : Catch) (tp : TreePath) (a : Ann) (o : ArrObj) (m : Memo)
    (ht : a.transparent = false) (hi : o.isInst = true)
    (hd : a.dtypes.accepts o.dtype = true) :
    (instancecheck c false tp a o m).1 =
      match checkShape tp m.args a.shape o.shape m.single m.variadic with
      | .ok _ => .T
      | .fail => .F
      | .annErr => .ANN
      | .exc e _ => .EXC e := by
  simp only [instancecheck, ht, hi, hd, Bool.false_eq_true, if_false, Bool.not_true]
  cases hc : checkShape tp m.args a.shape o.shape m.single m.variadic with
  | ok r => rfl
  | fail => rfl
  | annErr => rfl
  | exc e l =>
    simp only
    split <;> rfl

theorem instancecheck_iff (c : Catch) (tp : TreePath) (a : Ann) (o : ArrObj) (m : Memo)
    (ht : a.transparent = false)
    (hann : (instancecheck c false tp a o m).1 ≠ .ANN) :
    (instancecheck c false tp a o m).1 = .T ↔
      (o.isInst = true ∧ a.dtypes.accepts o.dtype = true ∧
        ∃ α, Extends α m.single m.variadic ∧ Matches tp m.args α a.shape o.shape) := by
  cases hi : o.isInst with
  | false =>
    simp [instancecheck, ht, hi]
  | true =>
    cases hd : a.dtypes.accepts o.dtype with
    | false =>
      simp [instancecheck, ht, hi, hd]
    | true =>
      rw [instancecheck_verdict c tp a o m ht hi hd] at hann ⊢
      have hcomp := fun α hα hm =>
        checkShape_complete tp m.args a.shape o.shape m.single m.variadic α hα hm
      cases hc : checkShape tp m.args a.shape o.shape m.single m.variadic with
      | ok r =>
        obtain ⟨σ', ν'⟩ := r
        simp only [true_and, true_iff]
        have hs := checkShape_sound tp m.args a.shape o.shape m.single σ' m.variadic ν' hc
          (asgOfMemo σ' ν') (asgOfMemo_extends σ' ν')
        exact ⟨asgOfMemo σ' ν', hs⟩
      | fail =>
        simp only [true_and]
        constructor
        · intro h; cases h
        · rintro ⟨α, hα, hm⟩
          rcases hcomp α hα hm with ⟨_, _, h, _⟩ | h <;> rw [hc] at h <;> cases h
      | annErr =>
        rw [hc] at hann
        exact absurd rfl hann
      | exc e l =>
        simp only [true_and]
        constructor
        · intro h; cases h
        · rintro ⟨α, hα, hm⟩
          rcases hcomp α hα hm with ⟨_, _, h, _⟩ | h <;> rw [hc] at h <;> cases h

end JV
