"""C12 — a check's verdict never depends on earlier, unrelated activity in the process.

Fault enumeration: every operation of a catalogue x every point where jaxtyping calls out into
user / third-party code during it x {Exception, BaseException}; after each run the probes
(wrong-dtype array rejected, '?' outside a PyTree raises AnnotationError, top level prints
nothing) and the residual thread state are evaluated directly. Random histories of public-API
operations followed by the same probes. Correspondence with the Lean model on the modelled part.
"""

import copy
import json
import os
import pickle
import textwrap
import typing

import extract
import gen_prog
import impl
import impl_prog
import jaxtyping
from common import Rng
from gen_prog import ANY, arr_type, arr_val, ival
from impl import UserBaseExc, UserExc
from impl_prog import Duck
from jaxtyping import Float, PyTree, jaxtyped

LEVEL = "proof"
THEOREMS = ["C12_source_flag_cell", "C12_rest_invariant", "C12_check_flags", "C12_pure_verdict", "C12_generated_good", "C12_facts_matter", "C12_no_other_state", "C12_source_flags",]
RULE = (
    "fault runs = catalogue operation (array check, PyTree check with/without structure name, nested "
    "PyTree, decorated call of 3 flavours, context block) x call-out point (argument formatting in a "
    "symbolic axis, array attribute access, array-type __instancecheck__, custom flattener at 3 tree "
    "positions, leaf __instancecheck__ during flattening / during the leaf loop, wrapped function, "
    "typechecker) x {Exception, BaseException}, each followed by the probe set; plus random histories "
    "of <=12 public-API operations (programs, decorating other functions with the same annotation "
    "object incl. old-style generator functions, pickling / copying annotations, hook install/uninstall) "
    "followed by the probes; non-trivial = the fault fired inside jaxtyping (an exception crossed a "
    "jaxtyping frame); distinct by (operation, point, class) / history text"
)
TRUSTED = ["harness/translate_storage.py (recognisers of the statements of the label / flag functions of _storage.py) and the interpreter Model/CellDsl.lean", 
    "Lean 4 kernel",
    "harness/extract.py: recognition of the try/finally around the flatten-mode flag and the leaf label",
    "the probe set observes every piece of per-thread state (also peeked at through jaxtyping._storage)",
    "harness/translate_tree.py (recognisers of the statements of _MetaPyTree.__instancecheck__ / _check) and the interpreter Model/TreeDsl.lean (flatten and the structure block are primitives)",
]


def leaf_fault_type(cls):
    return {"t": "user", "accept": ["A"], "faults": {"B": cls}}


def catalogue():
    """(name, point, class, program)"""
    out = []
    for cls, rf in (("EXC", "raises:exception"), ("BASEEXC", "raises:base")):
        call = lambda body, params=None, kind="none", exit_="ret", ret=None: [{  # noqa: E731
            "op": "call", "kind": kind, "params": params or [], "ret": ret, "bindok": True, "notc": False, "body": body, "exit": exit_}]
        pparam = [{"name": "p", "ty": ANY, "val": {"t": "opaque", "tag": rf}}]
        # 1. array check, argument formatting raises in a symbolic axis
        for dims in ("a {p}", "*v a {p}", "{p}"):
            out.append(("array-check", "format-argument:" + dims, cls, call([{"op": "check", "l": arr_type(dims), "x": arr_val([2, 3, 4][: len(dims.split())])}], pparam)))
        # 2. PyTree: custom flattener raises at three positions
        bad = {"t": "custom", "tag": "CN", "fault": cls, "xs": []}
        good = arr_val([2, 3])
        for pos, tree in (("root", bad), ("second-child", {"t": "tuple", "xs": [good, bad]}), ("nested", {"t": "list", "xs": [good, {"t": "dict", "keys": ["k"], "vals": [bad]}]})):
            for s in (None, "T"):
                out.append(("pytree-check" + ("-structured" if s else ""), "custom-flattener:" + pos, cls,
                            [{"op": "ctx", "body": [{"op": "check", "l": {"t": "pytree", "l": arr_type("a b"), "s": s}, "x": tree}], "exit": "ret"}]))
        # 3. leaf __instancecheck__ raises while flattening (is_leaf)
        lt = {"t": "union", "ts": [arr_type("a b"), leaf_fault_type(cls)]}
        tree = {"t": "tuple", "xs": [good, {"t": "opaque", "tag": "B"}]}
        for s in (None, "T"):
            out.append(("pytree-check" + ("-structured" if s else ""), "leaf-instancecheck:flatten", cls,
                        [{"op": "ctx", "body": [{"op": "check", "l": {"t": "pytree", "l": lt, "s": s}, "x": tree}], "exit": "ret"}]))
        # 4. leaf full check raises in the leaf loop (label set when structured)
        for s in (None, "T"):
            out.append(("pytree-check" + ("-structured" if s else ""), "leaf-check:leaf-loop", cls,
                        call([{"op": "check", "l": {"t": "pytree", "l": arr_type("?a {p}" if s else "a {p}"), "s": s},
                               "x": {"t": "tuple", "xs": [good, good]}}], pparam)))
        # 5. nested PyTree whose inner check raises
        inner = {"t": "pytree", "l": lt, "s": None}
        out.append(("nested-pytree", "leaf-instancecheck:inner", cls,
                    [{"op": "ctx", "body": [{"op": "check", "l": {"t": "pytree", "l": inner, "s": "T"}, "x": tree}], "exit": "ret"}]))
        # 6. decorated calls: parameter check raises / body raises / return check raises
        for kind in ("new", "old", "none"):
            ex = "exc" if cls == "EXC" else "base"
            out.append((f"call-{kind}", "wrapped-function", cls, call([{"op": "check", "l": arr_type("a"), "x": arr_val([3])}], kind=kind, exit_=ex)))
            if kind != "none":
                out.append((f"call-{kind}", "parameter-check", cls,
                            call([], [{"name": "x", "ty": arr_type("a"), "val": arr_val([3])}, {"name": "y", "ty": leaf_fault_type(cls), "val": {"t": "opaque", "tag": "B"}}], kind=kind)))
                out.append((f"call-{kind}", "return-check", cls,
                            call([], [{"name": "x", "ty": arr_type("a"), "val": arr_val([3])}], kind=kind, ret={"ty": leaf_fault_type(cls), "val": {"t": "opaque", "tag": "B"}})))
                out.append((f"call-{kind}", "pytree-parameter:custom-flattener", cls,
                            call([], [{"name": "x", "ty": {"t": "pytree", "l": arr_type("a b"), "s": "T"}, "val": {"t": "tuple", "xs": [good, bad]}}], kind=kind)))
        # 7. context block whose body raises after binding
        out.append(("context-block", "body", cls, [{"op": "ctx", "body": [{"op": "check", "l": arr_type("a"), "x": arr_val([3])}], "exit": "exc" if cls == "EXC" else "base"}]))
    return out


def direct_ops():
    """call-outs the model does not represent (array attribute access, array-type
    __instancecheck__, a raising typechecker): implementation + probes only"""
    ops = []
    for cls, E in (("EXC", UserExc), ("BASEEXC", UserBaseExc)):
        class RaisingShape:
            dtype = "float32"

            @property
            def shape(self, E=E):
                raise E("shape")

        class RaisingDtype:
            shape = (2, 3)

            @property
            def dtype(self, E=E):
                raise E("dtype")

        class MetaRaises(type):
            def __instancecheck__(cls, x, E=E):
                raise E("array type instancecheck")

        Arr = MetaRaises("Arr", (), {})

        def bad_tc(fn, E=E):
            def w(*a, **k):
                raise E("typechecker")
            return w

        def op_shape(RS=RaisingShape):
            with jaxtyped("context"):
                isinstance(Duck((2,), "float32"), Float[Duck, "a"])
                isinstance(RS(), Float[typing.Any, "a b"])

        def op_dtype(RD=RaisingDtype):
            with jaxtyped("context"):
                isinstance(RD(), Float[typing.Any, "a b"])

        def op_pytree_shape(RS=RaisingShape):
            with jaxtyped("context"):
                isinstance((Duck((2, 3), "float32"), RS()), PyTree[Float[typing.Any, "?a b"], "T"])

        class RaisingLater:
            """fine while the tree is being flattened (first look at `.shape`), raises when the leaf is checked in earnest"""
            dtype = "float32"

            def __init__(self):
                self.n = 0

            @property
            def shape(self, E=E):
                self.n += 1
                if self.n > 2:
                    raise E("shape, later")
                return (2, 3)

        def op_pytree_shape_late(RL=RaisingLater):
            with jaxtyped("context"):
                isinstance((Duck((2, 3), "float32"), RL()), PyTree[Float[typing.Any, "?a b"], "T"])

        def op_pytree_unbound_symbolic():
            with jaxtyped("context"):
                isinstance((Duck((2, 3), "float32"), Duck((2, 3), "float32")), PyTree[Float[Duck, "rows+cols b"], "T"])

        def op_arrtype(Arr=Arr):
            with jaxtyped("context"):
                isinstance(Duck((2,), "float32"), Float[Arr, "a"])

        def op_pytree_arrtype(Arr=Arr):
            isinstance((1, 2), PyTree[Float[Arr, "a"]])

        def op_tc(bad_tc=bad_tc):
            @jaxtyped(typechecker=bad_tc)
            def f(x: Float[Duck, "a"]):
                return x

            f(Duck((2,), "float32"))

        for nm, f in (("array-attribute:shape", op_shape), ("array-attribute:dtype", op_dtype), ("array-attribute:shape-in-pytree-leaf", op_pytree_shape),
                      ("array-attribute:shape-in-pytree-leaf-loop", op_pytree_shape_late), ("unbound-symbolic-axis-in-pytree-leaf-loop", op_pytree_unbound_symbolic),
                      ("array-type-instancecheck", op_arrtype), ("array-type-instancecheck:while-flattening", op_pytree_arrtype), ("typechecker", op_tc)):
            ops.append((nm, cls, f))
    return ops


def evaluate_after(out, key, what, replay):
    resid = impl_prog.residual_state(reset=False)
    probes = impl_prog.probe_clean()
    bad = [k for k, v in probes.items() if not v]
    if resid["depth"] != 0 or resid["flatten"] or resid["tp"] or bad:
        out.violation(
            key + ":" + ",".join(bad or [k for k, v in resid.items() if v]),
            f"{what}: afterwards probes failing={bad} residual state={resid}",
            dict(replay, probes=probes, residual=resid),
        )
    impl_prog.residual_state(reset=True)


def history_ops(rng):
    """one extra public-API operation on a fresh probe annotation X; returns (name, fn(X))"""
    def decorate_new(X):
        import typeguard

        @jaxtyped(typechecker=typeguard.typechecked)
        def f(a: X) -> X:
            return a
        try:
            f(Duck((2,), "float32"))
            f(Duck((2,), "int32"))
        except Exception:
            pass

    def decorate_old_function(X):
        import typeguard

        @jaxtyped
        @typeguard.typechecked
        def f(a: X) -> X:
            return a
        try:
            f(Duck((2,), "float32"))
        except Exception:
            pass

    def decorate_old_generator(X):
        import typeguard

        @jaxtyped
        @typeguard.typechecked
        def g(a: X) -> typing.Iterator[X]:
            yield a
        try:
            list(g(Duck((2,), "float32")))
        except Exception:
            pass

    def decorate_new_generator(X):
        import typeguard

        @jaxtyped(typechecker=typeguard.typechecked)
        def g(a: X) -> typing.Iterator[X]:
            yield a
        try:
            list(g(Duck((2,), "float32")))
        except Exception:
            pass

    def pickle_it(X):
        pickle.loads(pickle.dumps(X))
        copy.deepcopy(X)
        copy.copy(X)

    def hook(X):
        h = jaxtyping.install_import_hook("nonexistent_module_for_verif", "typeguard.typechecked")
        h.uninstall()

    def dataclass_it(X):
        import dataclasses

        import typeguard

        @jaxtyped(typechecker=typeguard.typechecked)
        @dataclasses.dataclass
        class D:
            a: X
        try:
            D(Duck((2,), "float32"))
            D(Duck((3,), "float32"))
        except Exception:
            pass

    return [("decorate-new-style", decorate_new), ("decorate-old-style-function", decorate_old_function),
            ("decorate-old-style-generator", decorate_old_generator), ("decorate-new-style-generator", decorate_new_generator),
            ("pickle-copy", pickle_it), ("hook-install-uninstall", hook), ("decorate-dataclass", dataclass_it)]


def probe_annotation(X):
    """the verdicts of the probe annotation X = Float[Duck, '2'] must be those of a fresh process"""
    return {
        "accepts_right": impl.check_once(Duck((2,), "float32"), X) == "T",
        "rejects_wrong_dtype": impl.check_once(Duck((2,), "int32"), X) == "F",
        "rejects_wrong_shape": impl.check_once(Duck((3,), "float32"), X) == "F",
        "rejects_non_array": impl.check_once("a string", X) == "F",
    }


def run(tier, seed, out, drv, facts):
    rng = Rng(seed, "C12")
    thorough = tier == "thorough"
    skel, wrap = extract.skel_request(facts)
    impl_prog.residual_state(reset=True)
    # --- fault enumeration (modelled operations)
    for name, point, cls, prog in catalogue():
        w = drv.ask({"cmd": "prog", "prog": prog, "skel": skel, "wrap": wrap})
        got, _ = impl_prog.run_program(prog, "typeguard", rng, reset=False)
        fired = any(o.get("v") in ("EXC", "BASEEXC", "exc", "baseexc", "tceParams", "tceReturn", "checkerError") for o in got)
        out.case(("fault", name, point, cls), fired, sample={"operation": name, "fault_point": point, "class": cls, "observed": [o.get("v") for o in got if "v" in o]})
        out.count("fault_" + cls)
        evaluate_after(out, f"fault:{name}:{point}:{cls}", f"fault of class {cls} at {point} during {name}", {"program": prog})
        if "skip" not in w:
            want = impl_prog.canon_model_obs(w["obs"])
            g2 = [o for o in got if o["o"] != "tcebindings"]
            w2 = [o for o in want if o["o"] != "tcebindings"]
            if g2 != w2:
                out.model_diff(f"fault:{name}:{point}:{cls}", f"transcripts differ: impl {g2} model {w2}", {"program": prog})
            if w["flatten"] or w["tp"] or w["depth"] != 0:
                out.model_diff(f"model-rest:{name}:{point}:{cls}", f"the model's own state is not at rest: {w}", {"program": prog})
    # --- call-outs outside the model
    for name, cls, f in direct_ops():
        held = None      # the handler KEEPS the exception object (a log record, `pytest.raises(...) as info`, `sys.last_exc`): its
        try:             # traceback keeps every frame of the failed check alive while the probes run
            f()
            fired = False
        except BaseException as e:  # noqa: BLE001
            if isinstance(e, (SystemExit, MemoryError, KeyboardInterrupt)):
                raise
            fired = True
            held = e
        out.case(("direct", name, cls), fired, sample={"operation": name, "class": cls, "raised": fired})
        evaluate_after(out, f"direct:{name}:{cls}", f"fault of class {cls} at {name} (the exception object still referenced)", {"operation": name, "class": cls})
        held = None  # noqa: F841
        evaluate_after(out, f"direct:{name}:{cls}:released", f"fault of class {cls} at {name} (the exception object released)", {"operation": name, "class": cls})
    other_thread_cases(out)
    same_context_continues(out)
    recursion_limit_sweep(out)
    after_failed_hooked_import(out)
    base_class_transparency_case(out)
    decoration_inside_context(out)
    annotation_reuse_cases(out)
    pickling_cases(out)
    # --- random histories of public-API operations, then probes
    n = 30000 if thorough else 200
    extra = history_ops(rng)
    for i in range(n):
        X = Float[Duck, "2"]
        hist = []
        for _ in range(rng.rng(1, 12 if thorough else 6)):
            if rng.chance(1, 3):
                nm, f = rng.choice(extra)
                hist.append(nm)
                try:
                    f(X)
                except Exception:  # noqa: BLE001
                    pass
            else:
                prog = gen_prog.rand_prog(rng, 2, max_stmts=3)
                hist.append(prog)
                obs_, resid = impl_prog.run_program(prog, "typeguard", rng, reset=False)
                internal = [o["v"] for o in obs_ if str(o.get("v", "")).startswith("internal:")]
                if internal:
                    out.violation(f"history:{internal[0]}", f"leaving a context block failed inside the library ({internal[0]}): an earlier operation of the program took the "
                                  f"block's frame away", {"program": prog})
                if resid != {"depth": 0, "flatten": False, "tp": False}:
                    break
        out.case(("history", json.dumps(hist, sort_keys=True)), any(isinstance(h, str) for h in hist),
                 sample={"history": [h if isinstance(h, str) else "<program of %d statements>" % gen_prog.prog_size(h) for h in hist]})
        pa = probe_annotation(X)
        if not all(pa.values()):
            names = [h for h in hist if isinstance(h, str)]
            culprit = "decorate-old-style-generator" if "decorate-old-style-generator" in names else ",".join(sorted(set(names)))
            out.violation(f"history:annotation-changed:{culprit}", f"after the history (API operations {names}) the probe annotation answers {pa}", {"history": hist, "probe": pa})
        evaluate_after(out, "history:state", "random history of public-API operations", {"history": hist})


def same_context_continues(out):
    """a check aborted by an exception that the caller CATCHES inside the same context block / decorated call: the block
    goes on, and everything it had bound before (axis sizes, variadic axes, structure names, the call's arguments for
    `{n}` axes) is what later checks in it are compared with"""
    class RaisingShape:
        dtype = "float32"

        @property
        def shape(self):
            raise UserExc("shape")

    class RaisingShapeBase:
        dtype = "float32"

        @property
        def shape(self):
            raise UserBaseExc("shape")

    raisers = [
        ("array .shape raises Exception", lambda: isinstance(RaisingShape(), Float[typing.Any, "a b"])),
        ("array .shape raises BaseException", lambda: isinstance(RaisingShapeBase(), Float[typing.Any, "a b"])),
        ("unbound symbolic axis", lambda: isinstance(Duck((3, 4), "float32"), Float[Duck, "a unbound+1"])),
        ("? axis outside a structured PyTree", lambda: isinstance(Duck((3,), "float32"), Float[Duck, "?q"])),
        ("leaf check raises inside a PyTree", lambda: isinstance((Duck((3,), "float32"), RaisingShape()), PyTree[Float[typing.Any, "a"], "T"])),
    ]

    def probes():
        return [impl.check_once([1, 2, 3], PyTree[int, "T"]), impl.check_once((5, 6), PyTree[int, "T"]),
                impl.check_once(Duck((3,), "float32"), Float[Duck, "a"]), impl.check_once(Duck((4,), "float32"), Float[Duck, "a"]),
                impl.check_once(Duck((3, 2, 5), "float32"), Float[Duck, "a *v"]), impl.check_once(Duck((3, 2), "float32"), Float[Duck, "a *v"])]

    want = ["F", "T", "T", "F", "T", "F"]
    for rname, raiser in raisers:
        for scope in ("block", "call"):
            res = {}

            def body(n=None, x=None):
                isinstance((1, 2), PyTree[int, "T"])
                isinstance(Duck((3, 2, 5), "float32"), Float[Duck, "a *v"])
                res["before"] = probes()
                if n is not None:
                    res["before"] += [impl.check_once(Duck((n,), "float32"), Float[Duck, "{n}"]), impl.check_once(Duck((n + 1,), "float32"), Float[Duck, "{n}"])]
                try:
                    raiser()
                    res["raised"] = "nothing"
                except BaseException as e:  # noqa: BLE001
                    res["raised"] = type(e).__name__
                res["after"] = probes()
                if n is not None:
                    res["after"] += [impl.check_once(Duck((n,), "float32"), Float[Duck, "{n}"]), impl.check_once(Duck((n + 1,), "float32"), Float[Duck, "{n}"])]

            try:
                if scope == "block":
                    with jaxtyped("context"):
                        body()
                    w = want
                else:
                    jaxtyped(typechecker=None)(body)(7, None)
                    w = want + ["T", "F"]
            finally:
                impl_prog.residual_state(reset=True)
            out.case(("same-context", rname, scope), res.get("raised") != "nothing", sample={"aborted_check": rname, "scope": scope, **res})
            if res.get("before") != w or res.get("after") != w:
                out.violation(f"same-context:{scope}", f"inside one {scope} (T bound to a pair, a=3, *v=(2, 5){', n=7 an argument' if scope == 'call' else ''}) the probes must give {w}; "
                              f"before the aborted check ({rname}: {res.get('raised')}, caught) they give {res.get('before')}, after it {res.get('after')}", {"same_context": [rname, scope]})
                return


def recursion_limit_sweep(out):
    """a check started with almost no stack left: wherever the RecursionError strikes — inside the flattening, inside a
    leaf check, between setting and clearing a flag — the thread is at rest afterwards (probes as on a fresh thread).
    Swept over every stack depth near the limit on a scratch thread, for PyTrees with and without a structure name, for
    `Any` leaves (no wrapper is built before the flag is set) and array leaves, for plain array checks and blocks."""
    import sys
    import threading

    checks = [
        ("PyTree[Any]", lambda: isinstance([1, (2, 3), {"k": 4}], PyTree[typing.Any])),
        ("PyTree[Any, 'T']", lambda: isinstance([1, (2, 3)], PyTree[typing.Any, "T"])),
        ("PyTree[Float['?n'], 'T']", lambda: isinstance((Duck((2,), "float32"), Duck((3,), "float32")), PyTree[Float[Duck, "?n"], "T"])),
        ("PyTree[int]", lambda: isinstance([1, 2], PyTree[int])),
        ("array check in a block", lambda: _block_check()),
    ]

    def _block_check():
        with jaxtyped("context"):
            return isinstance(Duck((2, 3), "float32"), Float[Duck, "a b"])

    def pad(k, thunk):
        return thunk() if k == 0 else pad(k - 1, thunk)

    result = {}

    def body():
        old = sys.getrecursionlimit()
        try:
            for cname, chk in checks:
                # find the deepest padding at which the check still succeeds, then sweep from there to where even the call fails
                sys.setrecursionlimit(220)
                hit = 0
                for k in range(60, 215):
                    try:
                        pad(k, chk)
                        how = "ok"
                    except RecursionError:
                        how = "RecursionError"
                        hit += 1
                    except BaseException as e:  # noqa: BLE001
                        how = type(e).__name__
                    sys.setrecursionlimit(max(old, 1000))
                    resid = impl_prog.residual_state(reset=False)
                    probes = impl_prog.probe_clean()
                    bad = [p_ for p_, v in probes.items() if not v]
                    impl_prog.residual_state(reset=True)
                    sys.setrecursionlimit(220)
                    if how != "ok" and (bad or resid["depth"] != 0 or resid["flatten"] or resid["tp"]):
                        result.setdefault("violations", []).append((cname, k, how, bad, resid))
                        break
                result[cname] = hit
        finally:
            sys.setrecursionlimit(old)

    t = threading.Thread(target=body)
    t.start()
    t.join(300)
    for cname, _ in checks:
        out.case(("recursion-sweep", cname), result.get(cname, 0) > 0, sample={"check": cname, "depths_with_RecursionError": result.get(cname, 0)})
    for cname, k, how, bad, resid in result.get("violations", [])[:1]:
        out.violation(f"recursion-sweep:{','.join(bad) or 'state'}", f"{cname} run under {k} padding frames with a recursion limit of 220 ended with {how}; afterwards probes failing={bad}, "
                      f"residual thread state={resid}", {"recursion_sweep": cname, "depth": k})


def after_failed_hooked_import(out):
    """an import under the hook that FAILS inside the loader (a module that does not compile), caught by the program: the
    interpreter's import machinery is what it was — a module imported afterwards without the hook is cached under the
    interpreter's own name and runs unmodified, one imported under the hook is instrumented"""
    import subprocess

    from common import PY, REPO, scratch_dir

    runner = textwrap.dedent('''
        import sys, json, importlib
        root, repo = sys.argv[1], sys.argv[2]
        sys.dont_write_bytecode = False
        sys.path[:0] = [root, repo]
        import jaxtyping
        import importlib._bootstrap_external as be
        res = {"name_before": be.cache_from_source("/x/m.py")}
        with jaxtyping.install_import_hook(["c12good", "c12broken"], "typeguard.typechecked"):
            import c12good
            try:
                import c12broken
                res["broken"] = "imported"
            except SyntaxError:
                res["broken"] = "SyntaxError"
        res["name_after"] = be.cache_from_source("/x/m.py")
        import c12plain
        res["plain_cached"] = "jaxtyping" in (c12plain.__cached__ or "")
        def verdict(m):
            try:
                m.f("not an int"); return "accepted"
            except jaxtyping.TypeCheckError:
                return "rejected"
        res["plain"] = verdict(c12plain); res["good"] = verdict(c12good)
        print(json.dumps(res))
    ''')
    body = "def f(x: int) -> int:\n    return x\n"
    with scratch_dir("jaxverif_c12imp_") as root:
        for name, src in (("c12good", body), ("c12plain", body), ("c12broken", "def f(x: int) -> int:\n    return x +\n")):
            with open(os.path.join(root, name + ".py"), "w") as fh:
                fh.write(src)
        r = subprocess.run([PY, "-c", runner, root, REPO], capture_output=True, text=True, timeout=300,
                           env={k: v for k, v in os.environ.items() if k != "PYTHONDONTWRITEBYTECODE"})
    try:
        got = json.loads(r.stdout.strip().splitlines()[-1])
    except Exception:  # noqa: BLE001
        out.violation("failed-hooked-import:run-failed", f"the run failed: {r.stderr[-400:]}", {"failed_hooked_import": True})
        return
    out.case(("failed-hooked-import",), got.get("broken") == "SyntaxError", sample=got)
    if got.get("name_before") != got.get("name_after") or got.get("plain_cached") or got.get("plain") != "accepted" or got.get("good") != "rejected":
        out.violation("failed-hooked-import", f"after a hooked import that failed with {got.get('broken')} (caught): the bytecode name of /x/m.py is {got.get('name_after')} "
                      f"(before: {got.get('name_before')}), a module imported plainly afterwards is cached under the hook's name: {got.get('plain_cached')}, an ill-typed call "
                      f"into it is {got.get('plain')} (accepted), into the hooked module {got.get('good')} (rejected)", {"failed_hooked_import": True})


def base_class_transparency_case(out):
    """F2 with the base class as the annotation (known finding F2b), in a fresh interpreter because it changes every
    annotation of the process"""
    import subprocess

    from common import PY, REPO

    code = textwrap.dedent('''
        import sys, json, typing
        sys.path.insert(0, sys.argv[1])
        import numpy as np, typeguard, jaxtyping
        from jaxtyping import Float, jaxtyped
        probe = lambda: [isinstance(np.zeros(3, np.int32), Float[np.ndarray, "2"]), isinstance(np.zeros(2, np.float32), Float[np.ndarray, "2"])]
        before = probe()
        @jaxtyped
        @typeguard.typechecked
        def g() -> typing.Iterator[jaxtyping.AbstractArray]:
            yield np.zeros(2)
        print(json.dumps({"before": before, "after": probe()}))
    ''')
    r = subprocess.run([PY, "-c", code, REPO], capture_output=True, text=True, timeout=300)
    try:
        got = json.loads(r.stdout.strip().splitlines()[-1])
    except Exception:  # noqa: BLE001
        out.count("base_class_transparency_not_run")
        return
    out.case(("base-class-transparency",), True, sample=got)
    if got["before"] != [False, True] or got["after"] != [False, True]:
        out.violation("history:annotation-changed:base-class-transparent", f"decorating (old style) a generator function annotated `-> Iterator[jaxtyping.AbstractArray]`: a wrong-dtype, "
                      f"wrong-shape array against Float[ndarray, '2'] is {got['before'][0]} before and {got['after'][0]} after (a right one: {got['before'][1]} / {got['after'][1]})",
                      {"base_class_transparency": True})


_DECO_COUNTER = [0]


def decoration_inside_context(out):
    """DECORATING a function is not a check: done inside a live context block / a running decorated call (a nested `def`,
    what the import hook produces for every nested definition), with typeguard or beartype (which probes each new hint once
    when it decorates), for annotations never seen before — the context's bindings are what they were, and a structure
    name the decorated function merely MENTIONS is still free for its first real use"""
    import beartype
    import typeguard

    for ck, tc in (("typeguard", typeguard.typechecked), ("beartype", beartype.beartype)):
        for where in ("block", "call"):
            _DECO_COUNTER[0] += 1
            name = f"X{_DECO_COUNTER[0]}q"
            res = {}

            def body():
                isinstance(Duck((3,), "float32"), Float[Duck, "a"])
                res["before"] = impl.canon_bindings(impl.bindings())

                @jaxtyped(typechecker=tc)
                def helper(x: PyTree[complex, name], y: Float[Duck, "a zz"]) -> PyTree[int, name + " " + name]:
                    return x

                res["after"] = impl.canon_bindings(impl.bindings())
                res["first_use"] = impl.check_once((1, 2), PyTree[int, name])
                res["then"] = [impl.check_once((3, 4), PyTree[int, name]), impl.check_once((1, 2, 3), PyTree[int, name])]

            try:
                if where == "block":
                    with jaxtyped("context"):
                        body()
                else:
                    jaxtyped(typechecker=None)(body)()
            finally:
                impl_prog.residual_state(reset=True)
            out.case(("decoration-inside-context", ck, where), True, sample={"checker": ck, "where": where, **{k: str(v) for k, v in res.items()}})
            if res.get("before") != res.get("after") or res.get("first_use") != "T" or res.get("then") != ["T", "F"]:
                out.violation(f"decoration-inside-context:{ck}", f"decorating a (never called) function with {ck} inside a live {where}: bindings {res.get('before')} -> {res.get('after')}; "
                              f"the first real use of the structure name it mentions gives {res.get('first_use')} (T), then an equal / another structure {res.get('then')} (T, F)",
                              {"decoration_inside_context": [ck, where]})
                return


def annotation_reuse_cases(out):
    """one annotation OBJECT checked again in another context: the verdict depends on that context's bindings and on the
    current call's arguments, never on what the object answered earlier for the same shape"""
    import typeguard
    from jaxtyping import jaxtyped

    def verdict(ann, n, size):
        with jaxtyped("context"):
            impl.check_once(Duck((n,), "float32"), Float[Duck, "n"])
            return impl.check_once(Duck((size,), "float32"), ann)

    for dims, f in (("n+1", lambda n: n + 1), ("2*n", lambda n: 2 * n), ("n-1 _", None), ("#n+1", lambda n: n + 1)):
        for first, second in ((3, 5), (5, 3), (2, 2)):
            ann = Float[Duck, dims]          # one object, used in both contexts
            if f is None:
                continue
            size = f(first)
            v1 = verdict(ann, first, size)
            v2 = verdict(ann, second, size)
            want2 = "T" if f(second) == size else "F"
            out.case(("annotation-reuse", dims, first, second), True, sample={"dims": dims, "first_n": first, "second_n": second, "size": size, "verdicts": [v1, v2]})
            if v1 != "T" or v2 != want2:
                out.violation(f"annotation-reuse:{dims}", f"Float[Duck, {dims!r}] (one object) on an axis of size {size}: with n={first} it answers {v1} (must be T), then in a fresh "
                              f"context with n={second} it answers {v2} (must be {want2})", {"scenario": "annotation-reuse", "dims": dims, "first": first, "second": second})
    # the call's arguments: `{size}`
    @jaxtyped(typechecker=typeguard.typechecked)
    def f(size: int, x: Float[Duck, "{size}"]):
        return "ok"

    def call(size, n):
        try:
            return f(size, Duck((n,), "float32"))
        except jaxtyping.TypeCheckError:
            return "tce"

    seq = [(3, 3, "ok"), (4, 3, "tce"), (3, 3, "ok"), (4, 4, "ok"), (3, 4, "tce")]
    got = [call(s_, n) for s_, n, _ in seq]
    out.case(("annotation-reuse", "{size}"), True, sample={"calls": seq, "observed": got})
    if got != [w for _, _, w in seq]:
        out.violation("annotation-reuse:{size}", f"calls (size, length) {[(a, b) for a, b, _ in seq]} of one decorated function give {got}, must give {[w for _, _, w in seq]}",
                      {"scenario": "annotation-reuse", "dims": "{size}"})


def pickling_cases(out):
    """pickling is unrelated activity too: a round trip of one annotation changes no other annotation, loaded before or after"""
    from jaxtyping import Shaped

    nested = Shaped[Float[Duck, "cols"], "rows"]
    plain = Shaped[Duck, "rows cols"]
    i32, f32 = Duck((2, 3), "int32"), Duck((2, 3), "float32")

    def verdicts(a):
        return [impl.check_once(i32, a), impl.check_once(f32, a)]

    for order in ("plain-first", "nested-first"):
        before = verdicts(plain), verdicts(nested)
        if order == "plain-first":
            p1 = pickle.loads(pickle.dumps(plain))
            n1 = pickle.loads(pickle.dumps(nested))
        else:
            n1 = pickle.loads(pickle.dumps(nested))
            p1 = pickle.loads(pickle.dumps(plain))
        after = verdicts(plain), verdicts(nested)
        loaded = verdicts(p1), verdicts(n1)
        want = (["T", "T"], ["F", "T"])
        out.case(("pickling", order), True, sample={"order": order, "before": before, "after": after, "loaded": loaded})
        if before != want or after != want or loaded != want:
            out.violation(f"pickling:{order}", f"Shaped[Duck,'rows cols'] / Shaped[Float[Duck,'cols'],'rows'] on (int32, float32) arrays: before the round trips {before}, "
                          f"after {after}, the loaded copies {loaded}; all must be {want}", {"scenario": "pickling", "order": order})


def other_thread_cases(out):
    """activity that is still going on in ANOTHER thread is unrelated activity too: a context open there (a call in
    progress, a thread parked inside `with jaxtyped("context")`) must not be visible to the probes here. Made
    deterministic with events, no timing involved."""
    import threading

    import typeguard
    from jaxtyping import jaxtyped

    def probes():
        r = impl_prog.probe_clean()
        r["n_is_free_3"] = impl.check_once(Duck((3,), "float32"), Float[Duck, "n"]) == "T"
        r["n_is_free_4"] = impl.check_once(Duck((4,), "float32"), Float[Duck, "n"]) == "T"
        return r

    # (1) main thread inside a decorated call that bound n=5; a fresh thread probes
    seen = {}

    @jaxtyped(typechecker=typeguard.typechecked)
    def busy(x: Float[Duck, "n"]):
        t = threading.Thread(target=lambda: seen.update(probes()))
        t.start()
        t.join()

    busy(Duck((5,), "float32"))
    out.case(("other-thread", "call-in-progress"), True, sample={"probes": dict(seen)})
    if not seen or not all(seen.values()):
        out.violation("other-thread:call-in-progress", f"while another thread is inside a decorated call (n=5 bound there), the probes of a fresh thread give {seen}",
                      {"scenario": "call-in-progress", "probes": dict(seen)})
    # (2) a worker parked inside a context block that bound n=7; the main thread probes
    inside, leave = threading.Event(), threading.Event()

    def worker():
        with jaxtyped("context"):
            impl.check_once(Duck((7,), "float32"), Float[Duck, "n"])
            inside.set()
            leave.wait(30)

    t = threading.Thread(target=worker)
    t.start()
    inside.wait(30)
    try:
        got = probes()
    finally:
        leave.set()
        t.join()
    out.case(("other-thread", "parked-in-context"), True, sample={"probes": got})
    if not all(got.values()):
        out.violation("other-thread:parked-in-context", f"while another thread is parked inside `with jaxtyped(\"context\")` (n=7 bound there), the probes here give {got}",
                      {"scenario": "parked-in-context", "probes": got})
    after = probes()
    if not all(after.values()):
        out.violation("other-thread:afterwards", f"after the other threads finished the probes give {after}", {"scenario": "afterwards", "probes": after})


def replay(rep, out, drv, facts):
    if "decoration_inside_context" in rep:
        decoration_inside_context(out)
        return
    if "base_class_transparency" in rep:
        base_class_transparency_case(out)
        return
    if "recursion_sweep" in rep:
        recursion_limit_sweep(out)
        return
    if "failed_hooked_import" in rep:
        after_failed_hooked_import(out)
        return
    if "same_context" in rep:
        same_context_continues(out)
        return
    if "scenario" in rep:
        other_thread_cases(out)
        annotation_reuse_cases(out)
        pickling_cases(out)
        return
    if "program" in rep:
        got, _ = impl_prog.run_program(rep["program"], "typeguard", None, reset=False)
        out.case("replay", True, sample=rep["program"])
        evaluate_after(out, "replay", "replayed program", {"program": rep["program"]})
    else:
        run("quick", 0, out, drv, facts)
