"""Running the real jaxtyping (imported from REPO) on generated inputs and canonicalising
what the properties observe."""
from __future__ import annotations

import ast
import warnings

from common import REPO, capture_stdout  # noqa: F401  (puts REPO first on sys.path)

import numpy as np

import jaxtyping
from jaxtyping import AnnotationError, jaxtyped, print_bindings

assert jaxtyping.__file__.startswith(REPO), (jaxtyping.__file__, REPO)

warnings.filterwarnings("ignore", message="As of jaxtyping version 0.2.24")
warnings.filterwarnings("ignore", message="no type annotations present")


class Duck:
    """Duck-typed array: only `shape` and `dtype`."""

    def __init__(self, shape, dtype="float32"):
        self.shape = tuple(shape)
        self.dtype = dtype

    def __repr__(self):
        return f"Duck({self.shape},{self.dtype})"


class NotArray:
    pass


class RaisingFormat:
    """A call argument whose formatting (f-string hole) raises."""

    def __init__(self, exc):
        self.exc = exc

    def __format__(self, spec):
        raise self.exc("raised by user code while formatting an argument")

    def __repr__(self):
        return f"RaisingFormat({self.exc.__name__})"


class UserExc(Exception):
    pass


class UserBaseExc(BaseException):
    pass


def parse_bindings(text: str):
    """print_bindings() output -> (single: dict, variadic: dict, structures: dict)."""
    single, variadic, struct = {}, {}, {}
    mode = None
    for line in text.splitlines():
        if line.startswith("The current values for each jaxtyping axis annotation"):
            mode = "axis"
            continue
        if line.startswith("The current values for each jaxtyping PyTree structure"):
            mode = "struct"
            continue
        if not line.strip():
            continue
        k, _, v = line.partition("=")
        if mode == "axis":
            v = v.strip()
            if v.startswith("("):
                variadic[k] = tuple(ast.literal_eval(v))
            else:
                single[k] = int(v)
        elif mode == "struct":
            struct[k] = v.strip()
    return single, variadic, struct


def bindings():
    with capture_stdout() as buf:
        print_bindings()
    return parse_bindings(buf.getvalue())


def canon_bindings(b):
    single, variadic, struct = b
    return {
        "single": sorted([k, v] for k, v in single.items()),
        "variadic": sorted([k, list(v)] for k, v in variadic.items()),
        "struct": sorted([k, v] for k, v in struct.items()),
    }


def classify_exc(e: BaseException) -> str:
    if isinstance(e, AnnotationError):
        return "ANN"
    if isinstance(e, jaxtyping.TypeCheckError):
        return "TCE"
    if isinstance(e, Exception):
        return "EXC"
    return "BASEEXC"


def check_once(value, ann) -> str:
    try:
        return "T" if isinstance(value, ann) else "F"
    except BaseException as e:  # noqa: BLE001 - the class is the observation
        if isinstance(e, (SystemExit, MemoryError)):
            raise
        return classify_exc(e)


def make_value(op, use_numpy=False):
    if not op.get("isinst", True):
        return NotArray()
    shape = tuple(op["shape"])
    if use_numpy:
        return np.zeros(shape, dtype=np.float32)
    return Duck(shape, "float32")


def make_ann(op, use_numpy=False):
    """Annotation for a history op; ValueError at build is the observation 'VAL'."""
    cat = jaxtyping.Float if op.get("dtypeok", True) else jaxtyping.Int
    at = np.ndarray if use_numpy else Duck
    if op.get("split") is not None:
        # the same axes as a nested annotation: the first `split` axes outside, the rest inside
        toks = op["dims"].split()
        k = op["split"]
        return cat[cat[at, " ".join(toks[k:])], " ".join(toks[:k])]
    return cat[at, op["dims"]]


def run_history(ops, args=None, use_numpy=False, observe_bindings=True):
    """Run `ops` inside one checking context whose call arguments are `args`.
    Returns a list of {"v": verdict, "b": canonical bindings after the op}."""
    args = args or {}
    out = []

    def body(**kw):
        for op in ops:
            try:
                ann = make_ann(op, use_numpy)
            except ValueError:
                out.append({"v": "VAL"})
                continue
            except BaseException as e:  # noqa: BLE001
                out.append({"v": "BUILD-" + type(e).__name__})
                continue
            v = check_once(make_value(op, use_numpy), ann)
            rec = {"v": v}
            if observe_bindings:
                rec["b"] = canon_bindings(bindings())
            out.append(rec)

    pyargs = {}
    for k, v in args.items():
        if v == "EXC":
            pyargs[k] = RaisingFormat(UserExc)
        elif v == "BASEEXC":
            pyargs[k] = RaisingFormat(UserBaseExc)
        else:
            pyargs[k] = v
    if pyargs:
        params = ", ".join(pyargs)
        scope = {}
        exec(f"def f({params}):\n    return body()", {"body": body}, scope)
        fn = jaxtyped(typechecker=None)(scope["f"])
        fn(**pyargs)
    else:
        with jaxtyped("context"):
            body()
    return out


def model_history_req(ops, args=None, catch="exception"):
    req = {"cmd": "hist", "ops": ops, "catch": catch}
    if args:
        req["args"] = args
    return req


def canon_model_memo(memo):
    return {
        "single": sorted([k, v] for k, v in memo["single"]),
        "variadic": sorted([k, list(s)] for k, _b, s in memo["variadic"]),
    }
