import JaxVerif.Properties.C01

#print axioms JV.C01_dims_sound
#print axioms JV.C01_dims_complete
#print axioms JV.C01_dims_iff
#print axioms JV.C01_variadic_iff
#print axioms JV.C01_variadic_state
#print axioms JV.C01_shape_sound
#print axioms JV.C01_shape_complete
#print axioms JV.C01_annerr_iff
#print axioms JV.C01_instancecheck
#print axioms JV.C01_rank
#print axioms JV.C01_bcast_spec
#print axioms JV.C01_source_check_dims
#print axioms JV.C01_source_variadic
#print axioms JV.C01_source_variadic_first
#print axioms JV.C01_source_stages
#print axioms JV.C01_source_slices
#print axioms JV.C01_source_rank_tests
#print axioms JV.C01_source_slices_lists
#print axioms JV.C01_source_arguments
