"""C18 — cached bytecode never makes a module run with the wrong instrumentation.

Real histories of interpreter runs (subprocesses, bytecode writing enabled) over one cache
directory: each run hooks a subset of the modules a / b / c (a imports b at top level) with one of
the spy typecheckers or None, imports them in some order, optionally after a source edit.
Observed per run and module: instrumented or not, by which typechecker, and whether the executed
code reflects the current source.
"""
import json
import os
import subprocess
import sys
import textwrap
import time
from concurrent.futures import ThreadPoolExecutor

from common import PY, REPO, Rng, scratch_dir

LEVEL = "proof"
THEOREMS = ["C18_history", "C18_init", "C18_tags", "C18_generated_good", "C18_execmodule_violates", "C18_nowrite_skip_violates",
            "C18_source_to_code", "C18_source_get_code"]
RULE = (
    "histories of 2..4 interpreter runs over one cache directory; per run: the hooked subset of {a, b, c} "
    "(a imports b at its top level), the typechecker (two spies or None), the import order, and optionally "
    "a source edit of one module before the run (changing the mtime, or changing only the size), optionally a "
    "hooked module that does not compile imported (and caught) first, optionally no bytecode writing in that run (-B; it still reads); quick: 11 fixed histories that cover hooked->unhooked, "
    "unhooked->hooked, nested imports in both directions, checker change and edit, plus seeded random "
    "ones; non-trivial = the run re-reads a module cached by an earlier run under a different "
    "configuration; distinct by history"
)
TRUSTED = [
    "Lean 4 kernel",
    "importlib's SourceLoader.get_code (mtime/size validation of .pyc files) and the file system, as modelled by JV.loadModule",
    "md5 collision-freeness of the typechecker key",
    "harness/translate_loader.py (recognisers of the statements of _JaxtypingLoader.source_to_code / get_code / exec_module) and the interpreter Model/LoaderDsl.lean (unittest.mock.patch restores what it found; compile rejects nodes without a location)",
]

MOD_SRC = {
    "a": "import {P}b\nVERSION = {V}\ndef f(x: int) -> int:\n    return VERSION\n",
    "b": "VERSION = {V}\ndef f(x: int) -> int:\n    return VERSION\n",
    "c": "VERSION = {V}\ndef f(x: int) -> int:\n    return VERSION\n",
    # a deeply nested expression: walking its tree needs much more stack than compiling or running it
    "d": "VERSION = {V}\ndef f(x: int) -> int:\n    return VERSION\nDEEP = " + "(0 if VERSION else " * 70 + "1" + ")" * 70 + "\n",
}
SPY = ("import os\nSEEN = []\ndef check(fn, *a, **k):\n    SEEN.append(fn.__module__)\n    return fn\n"
       "def make(n):\n    return check\n")

RUNNER = textwrap.dedent('''
    import sys, json, importlib
    root, repo, prefix, spec = sys.argv[1], sys.argv[2], sys.argv[3], json.loads(sys.argv[4])
    sys.dont_write_bytecode = bool(spec.get("nowrite"))
    sys.path[:0] = [root, repo]
    import jaxtyping
    hook = None
    hook2 = None
    second = spec.get("second")   # another hook in the same process, for other modules, with its own typechecker
    if second and second.get("first"):
        hook2 = jaxtyping.install_import_hook([prefix + m for m in second["mods"]], second["checker"])
    # "LOCAL": a typechecker that lives in the project itself, in a module that imports other project modules
    checker = (prefix + "spy.check") if spec["checker"] == "LOCAL" else spec["checker"]
    if spec["hooked"] or spec.get("broken"):
        hook = jaxtyping.install_import_hook([prefix + m for m in spec["hooked"]] + ([prefix + "broken"] if spec.get("broken") else []), checker)
    if second and not second.get("first"):
        hook2 = jaxtyping.install_import_hook([prefix + m for m in second["mods"]], second["checker"])
    if spec.get("broken"):
        # a hooked module whose source does not compile: the program catches the error and carries on
        try:
            importlib.import_module(prefix + "broken")
        except SyntaxError:
            pass
    def deep_import(name):
        # the import happens deep inside a recursion (a plugin loader, a long chain of nested imports): the program
        # catches RecursionError and retries with more room; the first attempt that succeeds is the one that counts
        limit = sys.getrecursionlimit()
        def down(k, then):
            return then() if k <= 0 else down(k - 1, then)
        for headroom in range(30, 400, 10):
            try:
                down(limit - headroom - 60, lambda: importlib.import_module(name))
                return headroom
            except RecursionError:
                for k in [k for k in sys.modules if k == name]:
                    del sys.modules[k]
        return None
    for m in spec["order"]:
        if spec.get("deep") and m == "d":
            deep_import(prefix + m)
        else:
            importlib.import_module(prefix + m)
    if hook: hook.uninstall()
    if hook2: hook2.uninstall()
    out = {}
    spies = {n: sys.modules.get(n) for n in ("spy_a", "spy_b", prefix + "spy")}
    for m in ("a", "b", "c", "d"):
        mod = sys.modules.get(prefix + m)
        if mod is None: continue
        who = [n for n, s in spies.items() if s is not None and (prefix + m) in s.SEEN]
        wrapped = hasattr(mod.f, "__wrapped__")
        who = ["LOCAL" if n == prefix + "spy" else n + ".check" for n in who]
        out[m] = {"version": mod.f(0), "instr": (who[0] if who else ("none" if wrapped else None)), "wrapped": wrapped, "who": who}
    print("RESULT " + json.dumps(out))
''')


def write_sources(root, prefix, versions, mtimes=None):
    for m, src in MOD_SRC.items():
        path = os.path.join(root, prefix + m + ".py")
        with open(path, "w") as fh:
            fh.write(src.replace("{P}", prefix).replace("{V}", str(versions[m])))
        # make the edit visible to the pyc validation whatever the mtime granularity; an edit that keeps
        # the mtime (same second, or a tool that pins mtimes) changes the SIZE of the source instead
        t = 1_600_000_000 + 10 * (mtimes or versions)[m]
        os.utime(path, (t, t))
    with open(os.path.join(root, prefix + "broken.py"), "w") as fh:
        fh.write("def f(x: int) -> int:\n    return (x\n")
    # the project's own typechecker module: importing it imports module c (after `check` is defined, so that c may itself
    # be decorated with it)
    with open(os.path.join(root, prefix + "spy.py"), "w") as fh:
        fh.write(SPY + f"import {prefix}c\n")


def run_history(root, prefix, history):
    versions = {"a": 1, "b": 1, "c": 1, "d": 1}
    mtimes = dict(versions)
    write_sources(root, prefix, versions, mtimes)
    outs = []
    env = {k: v for k, v in os.environ.items() if k != "PYTHONDONTWRITEBYTECODE"}
    env["PYTHONPYCACHEPREFIX"] = ""
    env.pop("PYTHONPYCACHEPREFIX")
    for run in history:
        if run.get("edit"):
            versions[run["edit"]] += 1
            mtimes[run["edit"]] = versions[run["edit"]]
            write_sources(root, prefix, versions, mtimes)
        if run.get("edit_keep_mtime"):
            m = run["edit_keep_mtime"]
            versions[m] = versions[m] * 10 + 7      # one more digit: the size changes, the mtime does not
            write_sources(root, prefix, versions, mtimes)
        env_run = dict(env, PYTHONDONTWRITEBYTECODE="1") if run.get("nowrite") else dict(env)
        if run.get("disabled"):
            env_run["JAXTYPING_DISABLE"] = "1"     # checking switched off for this run: the hook still instruments (the wrappers do nothing)
        p = subprocess.run([PY, "-c", RUNNER, root, REPO, prefix, json.dumps(run)], env=env_run, capture_output=True, text=True, timeout=300)
        line = next((l for l in p.stdout.splitlines() if l.startswith("RESULT ")), None)
        if line is None:
            outs.append({"error": p.stderr[-800:]})
        else:
            outs.append(json.loads(line[7:]))
        outs[-1]["_versions"] = dict(versions)
    return outs


def loads_of(run):
    """the load events of a run, in order, for the model"""
    second = run.get("second") or {"mods": [], "checker": None}

    def key(m):
        if m in run["hooked"]:
            return run["checker"] or "none"
        if m in second["mods"]:
            return second["checker"] or "none"
        return None

    loads = []
    seen = set()
    state = {"spy": False}

    def load(m, inside):
        if m in seen:
            return
        seen.add(m)
        loads.append({"name": m, "hooked": key(m), "inside": inside})
        if m == "a":
            load("b", key("a"))          # `import b` is a's first statement
        # m's decorator runs now and resolves the typechecker string: the project's own typechecker module imports c
        if run["checker"] == "LOCAL" and m in run["hooked"] and not state["spy"]:
            state["spy"] = True
            load("c", key(m))

    for m in run["order"]:
        load(m, None)
    return loads


FIXED = [
    # F1: run 1 hooks only a (which imports b), run 2 hooks both
    [{"hooked": ["a"], "checker": "spy_a.check", "order": ["a"]}, {"hooked": ["a", "b"], "checker": "spy_a.check", "order": ["a"]}],
    # converse: b cached instrumented-free under the hook's tag, later run with no hook at all
    [{"hooked": ["a", "b"], "checker": "spy_a.check", "order": ["a"]}, {"hooked": ["a"], "checker": "spy_a.check", "order": ["a"]}, {"hooked": [], "checker": None, "order": ["a", "c"]}],
    # checker change
    [{"hooked": ["c"], "checker": "spy_a.check", "order": ["c"]}, {"hooked": ["c"], "checker": "spy_b.check", "order": ["c"]}, {"hooked": ["c"], "checker": None, "order": ["c"]}],
    # hooked -> unhooked -> hooked with an edit in between
    [{"hooked": ["b"], "checker": "spy_a.check", "order": ["b"]}, {"hooked": [], "checker": None, "order": ["b"], "edit": "b"}, {"hooked": ["b"], "checker": "spy_a.check", "order": ["b"]}],
    # b first on its own, then through a
    [{"hooked": [], "checker": None, "order": ["b", "a"]}, {"hooked": ["b"], "checker": "spy_b.check", "order": ["a"]}, {"hooked": ["a"], "checker": "spy_b.check", "order": ["b", "a"]}],
    # a hooked module that does not compile is attempted first; the un-hooked c is imported afterwards in the
    # same process; the next run hooks c
    [{"hooked": [], "broken": True, "checker": "spy_a.check", "order": ["c"]}, {"hooked": ["c"], "checker": "spy_a.check", "order": ["c"]}],
    [{"hooked": ["a"], "broken": True, "checker": "spy_b.check", "order": ["a", "c"]}, {"hooked": ["b", "c"], "checker": "spy_b.check", "order": ["a", "c"]}, {"hooked": [], "checker": None, "order": ["b", "a"]}],
    # an edit that changes the size of the source but not its mtime, hooked and un-hooked
    [{"hooked": ["c"], "checker": "spy_a.check", "order": ["c", "b"]}, {"hooked": ["c"], "checker": "spy_a.check", "order": ["c", "b"], "edit_keep_mtime": "c"},
     {"hooked": ["c"], "checker": "spy_a.check", "order": ["c", "b"], "edit_keep_mtime": "b"}],
    # runs that write no bytecode (-B) still read it: un-hooked writing run, then hooked read-only run, and the converse
    [{"hooked": [], "checker": None, "order": ["a", "c"]}, {"hooked": ["a", "c"], "checker": "spy_a.check", "order": ["a", "c"], "nowrite": True},
     {"hooked": ["b"], "checker": "spy_a.check", "order": ["a", "c"], "nowrite": True}],
    [{"hooked": ["b", "c"], "checker": "spy_b.check", "order": ["a", "c"]}, {"hooked": [], "checker": None, "order": ["a", "c"], "nowrite": True},
     {"hooked": ["c"], "checker": "spy_a.check", "order": ["c"], "nowrite": True}, {"hooked": ["c"], "checker": "spy_a.check", "order": ["c"]}],
    # two hooks in one process (a library hooking itself, the application hooking its own modules), installed in a
    # different order in the next run over the same cache
    [{"hooked": ["a"], "checker": "spy_a.check", "order": ["a", "c"], "second": {"mods": ["c"], "checker": "spy_b.check", "first": False}},
     {"hooked": ["a"], "checker": "spy_a.check", "order": ["c", "a"], "second": {"mods": ["c"], "checker": "spy_b.check", "first": True}}],
    [{"hooked": ["c"], "checker": "spy_b.check", "order": ["c", "b"], "second": {"mods": ["b"], "checker": "spy_a.check", "first": True}},
     {"hooked": ["c"], "checker": "spy_b.check", "order": ["c", "b"]}, {"hooked": ["b"], "checker": "spy_a.check", "order": ["b", "c"]}],
    # the hooked module is first imported from deep inside a recursion (the import may fail there and be retried with more
    # room): whatever that run ends up executing, the next run gets what its own configuration calls for
    [{"hooked": ["d"], "checker": "spy_a.check", "order": ["d"], "deep": True}, {"hooked": ["d"], "checker": "spy_a.check", "order": ["d"]},
     {"hooked": [], "checker": None, "order": ["d"]}],
    # the typechecker lives in a project module that imports c: run 1 hooks a only (c is imported on the way to the
    # typechecker), run 2 hooks c as well; and the converse
    [{"hooked": ["a"], "checker": "LOCAL", "order": ["a"]}, {"hooked": ["a", "c"], "checker": "LOCAL", "order": ["a"]}, {"hooked": ["c"], "checker": "LOCAL", "order": ["c", "a"]}],
    [{"hooked": ["b", "c"], "checker": "LOCAL", "order": ["a"]}, {"hooked": ["b"], "checker": "LOCAL", "order": ["a", "c"]}, {"hooked": [], "checker": None, "order": ["c"]}],
    # a run with checking switched off (JAXTYPING_DISABLE=1) writes the cache first; later runs have it on
    [{"hooked": ["c"], "checker": "spy_a.check", "order": ["c"], "disabled": True}, {"hooked": ["c"], "checker": "spy_a.check", "order": ["c"]}],
    [{"hooked": ["a", "b"], "checker": "spy_b.check", "order": ["a"], "disabled": True}, {"hooked": ["a", "b"], "checker": "spy_b.check", "order": ["a"]},
     {"hooked": [], "checker": None, "order": ["a"], "disabled": True}],
    [{"hooked": ["c"], "checker": None, "order": ["c"], "disabled": True}, {"hooked": ["c"], "checker": None, "order": ["c"]}],
    # None checker then a real spy
    [{"hooked": ["a", "b", "c"], "checker": None, "order": ["c", "a"]}, {"hooked": ["a", "b", "c"], "checker": "spy_a.check", "order": ["a", "c"]}],
]


def gen_history(rng):
    h = []
    for _ in range(rng.rng(2, 4)):
        hooked = [m for m in "abc" if rng.chance(1, 2)]
        order = rng.shuffle([m for m in "abc" if rng.chance(2, 3)]) or ["a"]
        run = {"hooked": hooked, "checker": rng.choice(["spy_a.check", "spy_b.check", None, "LOCAL"]), "order": order}
        if rng.chance(1, 4):
            run["edit"] = rng.choice(["a", "b", "c"])
        elif rng.chance(1, 5):
            run["edit_keep_mtime"] = rng.choice(["a", "b", "c"])
        if rng.chance(1, 5):
            run["broken"] = True
        if rng.chance(1, 4):
            run["nowrite"] = True
        if rng.chance(1, 5):
            run["disabled"] = True
        if rng.chance(1, 3):
            rest = [m for m in "abc" if m not in hooked]
            if rest:
                run["second"] = {"mods": rng.sample(rest, rng.rng(1, len(rest))), "checker": rng.choice(["spy_a.check", "spy_b.check"]), "first": rng.chance(1, 2)}
        h.append(run)
    return h


def evaluate(out, drv, facts, history, outs, idx):
    versions_seq = []
    runs_model = []
    for run, o in zip(history, outs):
        runs_model.append({"versions": o["_versions"], "loads": loads_of(run), "writes": not run.get("nowrite")})
    scope = facts["hook"]["patchScope"] if facts["hook"]["patchScope"] in ("get_code", "exec_module", "get_code_if_writing") else "get_code"
    w = drv.ask({"cmd": "cache", "scope": scope, "runs": runs_model})
    reread = any(set(history[i]["order"]) & set(history[j]["order"]) or "a" in history[i]["order"] for i in range(len(history)) for j in range(i))
    out.case(json.dumps(history, sort_keys=True), reread, sample={"history": history, "observed": [{k: v for k, v in o.items() if not k.startswith("_")} for o in outs]})
    for ri, (run, o, wm) in enumerate(zip(history, outs, w)):
        if "error" in o:
            out.violation(f"run-failed", f"run {ri} of the history failed: {o['error'][-300:]}", {"history": history})
            return
        model = {n: {"version": v, "instr": k} for n, v, k in wm}
        for m, got in o.items():
            if m.startswith("_"):
                continue
            second = run.get("second") or {"mods": [], "checker": None}
            want_instr = ((run["checker"] or "none") if m in run["hooked"] else (second["checker"] or "none") if m in second["mods"] else None)
            want_version = o["_versions"][m]
            out.count("load_" + ("hooked" if want_instr else "plain"))
            rep = {"history": history, "run": ri, "module": m, "observed": got, "required": {"version": want_version, "instr": want_instr}}
            if got["version"] != want_version:
                out.violation(f"stale-source:{m}", f"run {ri}: module {m} executes code of source version {got['version']} but the current source is version {want_version}", rep)
            elif got["instr"] != want_instr:
                prev = [i for i in range(ri) if m in history[i]["order"] or (m == "b" and "a" in history[i]["order"])]
                how = "uninstrumented" if got["instr"] is None else f"instrumented by {got['instr']}"
                out.violation(f"wrong-instrumentation:{m}:{want_instr}->{got['instr']}",
                              f"run {ri}: module {m} runs {how} but the current hook configuration calls for {want_instr!r} (cached by run(s) {prev})", rep)
            if m in model and (model[m]["version"], model[m]["instr"]) != (got["version"], got["instr"]):
                out.model_diff(f"cache-model:{m}", f"run {ri}: implementation {got} vs cache model {model[m]}", rep)


def tag_collisions(out, n):
    """different typechecker strings never share a bytecode file name (C18_tags on the real naming function): the names
    the implementation gives to the cached bytecode of one module under `n` different typechecker strings are distinct"""
    from jaxtyping._import_hook import Typechecker, _optimized_cache_from_source

    before = set(Typechecker.lookup) if isinstance(Typechecker.lookup, dict) else None
    names = {}
    clash = None
    try:
        for i in range(n):
            s_ = f"spy_a.make({i})"
            p = _optimized_cache_from_source(Typechecker(s_).get_hash(), "/x/mod.py")
            if p in names and clash is None:
                clash = (names[p], s_, p)
            names.setdefault(p, s_)
    finally:
        if before is not None and isinstance(Typechecker.lookup, dict):
            for k in set(Typechecker.lookup) - before:
                del Typechecker.lookup[k]
    out.case(("tag-collisions", n), True, sample={"typechecker_strings": n, "distinct_cache_names": len(names)})
    return clash


INPROC = textwrap.dedent('''
    import sys, json, os, time, importlib
    root, repo, name, script = sys.argv[1], sys.argv[2], sys.argv[3], json.loads(sys.argv[4])
    sys.dont_write_bytecode = False
    sys.path[:0] = [root, repo]
    import jaxtyping
    path = os.path.join(root, name + ".py")
    SRC = "VERSION = {V}\\ndef f(x: int) -> int:\\n    return VERSION\\n{PAD}"
    out, hook, stamp = [], None, 1_600_000_000
    def write(v):
        global stamp
        stamp += 1000
        with open(path, "w") as fh:
            fh.write(SRC.format(V=v, PAD="# pad\\n" * v))
        os.utime(path, (stamp, stamp))
        importlib.invalidate_caches()
    import spy_a
    for step in script:
        if step[0] == "write":
            write(step[1])
        elif step[0] == "hook":
            hook = jaxtyping.install_import_hook([name], step[1])
        elif step[0] == "unhook":
            hook.uninstall(); hook = None
        elif step[0] in ("import", "reload", "reimport"):
            spy_a.SEEN.clear()
            try:
                if step[0] == "reload":
                    mod = importlib.reload(sys.modules[name])
                else:
                    if step[0] == "reimport":
                        sys.modules.pop(name, None)
                    mod = importlib.import_module(name)
                out.append({"step": step[0], "version": mod.VERSION, "instr": name in spy_a.SEEN})
            except BaseException as e:
                out.append({"step": step[0], "error": type(e).__name__ + ": " + str(e)[:200]})
    print(json.dumps(out))
''')


def in_process_cases(out, seed):
    """histories inside ONE interpreter over one cache directory (reload, delete-and-import-again, the hook taken down
    and installed again, an edit in between): every load executes the source as it is now, instrumented iff the hook in
    force at that moment calls for it — whatever the process has loaded before"""
    scripts = {
        "edit-then-reload": [["write", 1], ["hook", "spy_a.check"], ["import"], ["write", 2], ["reload"], ["write", 3], ["reimport"]],
        "unhook-then-reimport": [["write", 1], ["hook", "spy_a.check"], ["import"], ["unhook"], ["reimport"], ["hook", "spy_a.check"], ["reimport"]],
        "plain-then-hooked": [["write", 1], ["import"], ["hook", "spy_a.check"], ["reimport"], ["write", 2], ["reload"], ["unhook"], ["write", 3], ["reload"]],
        "same-source-reload": [["write", 1], ["hook", "spy_a.check"], ["import"], ["reload"], ["reimport"]],
    }
    with scratch_dir("jaxverif_c18ip_") as root:
        with open(os.path.join(root, "spy_a.py"), "w") as fh:
            fh.write(SPY)
        for sname, script in scripts.items():
            name = f"ip{seed}_{sname.replace('-', '_')}"
            r = subprocess.run([PY, "-c", INPROC, root, REPO, name, json.dumps(script)], capture_output=True, text=True, timeout=300,
                               env={k: v for k, v in os.environ.items() if k not in ("PYTHONDONTWRITEBYTECODE",)})
            try:
                got = json.loads(r.stdout.strip().splitlines()[-1])
            except Exception:  # noqa: BLE001
                out.violation("in-process:run-failed", f"the in-process history {sname} failed: {r.stderr[-300:]}", {"in_process": sname})
                continue
            # what the configuration calls for at each load
            want, version, hooked = [], None, False
            for step in script:
                if step[0] == "write":
                    version = step[1]
                elif step[0] == "hook":
                    hooked = True
                elif step[0] == "unhook":
                    hooked = False
                else:
                    want.append({"step": step[0], "version": version, "instr": hooked})
            out.case(("in-process", sname), True, sample={"history": sname, "script": script, "observed": got})
            if got != want:
                k = next((i for i, (a, b) in enumerate(zip(got, want)) if a != b), min(len(got), len(want)))
                out.violation(f"in-process:{sname}", f"one interpreter, history {script}: load {k} gives {got[k] if k < len(got) else None}, the current source and hook call for "
                              f"{want[k] if k < len(want) else None}", {"in_process": sname, "script": script})


def run(tier, seed, out, drv, facts):
    rng = Rng(seed, "C18")
    in_process_cases(out, seed)
    thorough = tier == "thorough"
    histories = list(FIXED) + [gen_history(rng) for _ in range(140 if thorough else 6)]
    clash = tag_collisions(out, 800000 if thorough else 220000)
    if clash is not None:
        # two typechecker strings with one cache name: the second run finds the first run's bytecode
        s1, s2, p = clash
        histories.append([{"hooked": ["c"], "checker": s1, "order": ["c"]}, {"hooked": ["c"], "checker": s2, "order": ["c"]}])
        out.count("tag_collision_found")
    with scratch_dir("jaxverif_c18_") as root:
        for nm in ("spy_a", "spy_b"):
            with open(os.path.join(root, nm + ".py"), "w") as fh:
                fh.write(SPY)
        with ThreadPoolExecutor(max_workers=12) as ex:
            futs = [ex.submit(run_history, root, f"m{seed}_{i}_", h) for i, h in enumerate(histories)]
            results = [f.result() for f in futs]
        for i, (h, outs) in enumerate(zip(histories, results)):
            evaluate(out, drv, facts, h, outs, i)


def replay(rep, out, drv, facts):
    if "in_process" in rep:
        in_process_cases(out, 0)
        return
    with scratch_dir("jaxverif_c18_") as root:
        for nm in ("spy_a", "spy_b"):
            with open(os.path.join(root, nm + ".py"), "w") as fh:
                fh.write(SPY)
        outs = run_history(root, "replay_", rep["history"])
        evaluate(out, drv, facts, rep["history"], outs, 0)
