"""C13 — type-check errors are raised iff violated and describe the failure truthfully."""
import json

import extract
import gen_dims
import gen_prog
import impl
import impl_prog
import jaxtyping
from common import Rng
from gen_prog import arr_type, arr_val
from jaxtyping import jaxtyped

LEVEL = "proof"
THEOREMS = [
    "C13_iff",
    "C13_stage",
    "C13_annotation_error",
    "C13_blame",
    "C13_bindings",
    "C13_generated_good",
    "C13_source_wrapper",
    "C13_source_blame",
]
RULE = (
    "ill- and well-typed calls of jaxtyped(typechecker=tc) functions with 1..4 parameters (arrays with "
    "named / variadic / symbolic axes, unions whose first alternative fails, tuples, PyTrees with and "
    "without structure names) and an optional return annotation, the failure planted at every parameter "
    "position or at the return value; typeguard for all, beartype for class-only annotations; both values "
    "of the remove-typechecker-stack switch; observed: exception class, stage sentence, blamed parameter, "
    "name=value lines, __cause__; directed: misuse ({name} parts naming no argument, unbound symbolic names, '?' outside a structured "
    "PyTree) in parameter and return annotations, one identifier used both as plain axis and as multi-axis name, and structure names bound by PyTrees "
    "whose leaf type is a union some leaves of which need the second alternative; non-trivial = a TypeCheckError or AnnotationError was raised after at "
    "least one accepted parameter; distinct by call"
)
TRUSTED = [
    "Lean 4 kernel",
    "harness/extract.py: handler order and the memo the message formats",
    "the message format parsed by harness/impl_prog.parse_tce (stage sentence, parameter name, name=value lines)",
    "harness/translate_wrap.py (recognisers of the statements of the jaxtyped wrappers, _JaxtypingContext and _get_problem_arg) and the interpreters Model/WrapDsl.lean / Model/BlameDsl.lean (the typechecker passes, the one-parameter checker and message-text statements are primitives)",
]


def gen_call(rng, thorough):
    alpha = {nm: rng.rng(0, 4) for nm in gen_dims.NAMES}
    valpha = {nm: [rng.rng(0, 3) for _ in range(rng.below(3))] for nm in gen_dims.VNAMES}
    n = rng.rng(1, 4)
    bad_at = rng.below(n + 2)  # n = return value, n+1 = nothing planted
    params = []
    bound = set()
    class_only = True
    for i in range(n):
        r = rng.below(10)
        if r < 6:
            for _ in range(10):
                dims = gen_dims.rand_dims(rng, max_axes=3, holes=())
                if gen_dims.sym_names(dims) <= bound:
                    break
            else:
                dims = "a b"
            lt = arr_type(dims)
            if len(dims.split()) >= 2 and rng.chance(1, 4):
                lt = gen_prog.nested(lt, rng.rng(1, len(dims.split()) - 1))
            bound |= {t for t in dims.split() if t in gen_dims.NAMES}
        elif r < 7:
            lt = {"t": "union", "ts": [arr_type("a 9"), arr_type("a b")]}  # first alternative fails
            class_only = False
        elif r < 8:
            lt = {"t": "tuple", "ts": [arr_type("a"), arr_type("b")]}
            class_only = False
        elif r < 9:
            lt = {"t": "pytree", "l": arr_type("a b"), "s": rng.choice([None, "T", "T"])}
        else:
            lt = {"t": "pytree", "l": gen_prog.INT, "s": rng.choice(["T", "S T", "T ..."])}
        if lt["t"] == "pytree":
            leaf_t = lt["l"]
            val = gen_prog.rand_tree(rng, 2, lambda: gen_prog.leaf_value_for(rng, leaf_t, alpha, valpha, True), kinds=("tuple", "list", "leaf", "leaf"))
            if bad_at == i:
                val = {"t": "tuple", "xs": [val, gen_prog.leaf_value_for(rng, leaf_t, alpha, valpha, False)]}
        else:
            val = gen_prog.leaf_value_for(rng, lt, alpha, valpha, bad_at != i)
        params.append({"name": f"p{i}", "ty": lt, "val": val})
    ret = None
    if rng.chance(3, 4) or bad_at == n:
        for _ in range(10):
            dims = gen_dims.rand_dims(rng, max_axes=3, holes=())
            if gen_dims.sym_names(dims) <= bound:
                break
        else:
            dims = "a"
        lt = arr_type(dims)
        ret = {"ty": lt, "val": gen_prog.leaf_value_for(rng, lt, alpha, valpha, bad_at != n)}
    return {"op": "call", "kind": "new", "params": params, "ret": ret, "bindok": True, "notc": False, "body": [], "exit": "ret"}, class_only


def blamed_really_fails(call, blame):
    """independent re-evaluation: in a fresh context holding the bindings of the parameters
    before the blamed one (those that pass), the blamed parameter does not match"""
    with jaxtyped("context"):
        for p in call["params"]:
            ty = impl_prog.to_type(p["ty"])
            x = impl_prog.to_obj(p["val"])
            v = impl_prog.manual_check(x, ty)
            if p["name"] == blame:
                return v != "T"
    return False


def run_call(out, drv, facts, call, checker, remove_stack, rng, tag):
    skel, wrap = extract.skel_request(facts)
    prog = [call]
    w = drv.ask({"cmd": "prog", "prog": prog, "skel": skel, "wrap": wrap})
    jaxtyping.config.update("jaxtyping_remove_typechecker_stack", remove_stack)
    try:
        it = impl_prog.Interp(checker, rng)
        it.last_exc = None
        got = it.run(prog)
    finally:
        jaxtyping.config.update("jaxtyping_remove_typechecker_stack", False)
        impl_prog.residual_state(reset=True)
    outcome = [o for o in got if o["o"] == "outcome"][-1]
    listed = next((o["m"] for o in got if o["o"] == "tcebindings"), None)
    nontriv = outcome["v"] in ("tceParams", "tceReturn", "ann")
    out.case(json.dumps(call, sort_keys=True) + checker, nontriv, sample={"call": call, "checker": checker, "outcome": outcome, "listed": listed})
    out.count("outcome_" + outcome["v"])
    rep = {"program": prog, "checker": checker, "remove_typechecker_stack": remove_stack, "observed": got}
    e = it.last_exc
    if outcome["v"] in ("tceParams", "tceReturn"):
        if not isinstance(e, TypeError):
            out.violation(f"{tag}:not-a-TypeError", "TypeCheckError is not a TypeError", rep)
        fn_named = "fn" in str(e).split("\n", 1)[0]
        if not fn_named:
            out.violation(f"{tag}:function-not-named", f"the message does not name the function: {str(e)[:200]}", rep)
        has_cause = e.__cause__ is not None
        if has_cause == bool(remove_stack):
            out.violation(f"{tag}:cause:{remove_stack}", f"__cause__ present={has_cause} with remove_typechecker_stack={remove_stack}", rep)
        if outcome["v"] == "tceParams" and outcome.get("blame") is not None:
            if not blamed_really_fails(call, outcome["blame"]):
                out.violation(f"{tag}:blame-does-not-fail", f"blamed parameter {outcome['blame']} satisfies its annotation given the parameters before it", rep)
    if "skip" in w:
        out.count("unmodelled")
        return
    want = impl_prog.canon_model_obs(w["obs"])
    woutcome = [o for o in want if o["o"] == "outcome"][-1]
    wlisted = next((o["m"] for o in want if o["o"] == "tcebindings"), None)
    kind = lambda v: {"tceParams": "tce", "tceReturn": "tce"}.get(v, v)  # noqa: E731
    if kind(outcome["v"]) != kind(woutcome["v"]):
        what = f"the call must end as {woutcome['v']} but ended as {outcome['v']}"
        if "ann" in (outcome["v"], woutcome["v"]) and outcome["v"] in ("tceParams", "tceReturn"):
            out.violation(f"{tag}:annotation-error-swallowed", what + " (misuse of the annotation language turned into a TypeCheckError)", rep)
        elif checker == "typeguard":
            out.violation(f"{tag}:raised-iff:{woutcome['v']}->{outcome['v']}", what, dict(rep, required=woutcome))
        else:
            out.model_diff(f"{tag}:outcome", what, dict(rep, required=woutcome))
        return
    if outcome["v"] != woutcome["v"]:
        out.violation(f"{tag}:stage:{woutcome['v']}->{outcome['v']}", f"the error says {outcome['v']} but the failure was detected at {woutcome['v']}", dict(rep, required=woutcome))
        return
    if outcome["v"] == "tceParams" and checker == "typeguard" and outcome.get("blame") != woutcome.get("blame"):
        out.violation(f"{tag}:blame", f"blamed parameter {outcome.get('blame')} but the first parameter violating its annotation given the earlier ones is {woutcome.get('blame')}", dict(rep, required=woutcome))
    if listed is not None and wlisted is not None and checker == "typeguard" and listed != wlisted:
        extra = [b for k in listed for b in listed[k] if b not in wlisted[k]]
        missing = [b for k in wlisted for b in wlisted[k] if b not in listed[k]]
        out.violation(
            f"{tag}:bindings:{'stale' if extra else ''}{'missing' if missing else ''}",
            f"the error lists bindings {listed} but the bindings in force when the failure was detected are {wlisted} "
            f"(listed but not in force: {extra}; in force but not listed: {missing})",
            dict(rep, required_bindings=wlisted),
        )


def annotation_error_cases():
    """misuse must surface as AnnotationError"""
    mk = lambda params, ret=None: {"op": "call", "kind": "new", "params": params, "ret": ret, "bindok": True, "notc": False, "body": [], "exit": "ret"}  # noqa: E731
    a = lambda d, s: {"ty": arr_type(d), "val": arr_val(s)}  # noqa: E731
    cases = [
        mk([dict(name="x", **a("a", [2])), dict(name="y", **a("q+1", [3]))]),
        mk([dict(name="x", **a("a", [2]))], a("a q*2", [2, 4])),
        mk([dict(name="x", **a("?a", [2]))]),
        mk([dict(name="x", ty={"t": "pytree", "l": gen_prog.INT, "s": "S T"}, val={"t": "tuple", "xs": [gen_prog.ival(1)]})]),
        mk([dict(name="x", **a("a", [2])), dict(name="y", ty={"t": "pytree", "l": {"t": "pytree", "l": arr_type("?a"), "s": "S"}, "s": "T"},
                                                     val={"t": "tuple", "xs": [arr_val([2])]})]),
    ]
    # a `{name}` part that names nothing the call was given (a typo, a local variable, a forgotten `self.`), in a
    # parameter annotation and in the return annotation, alone and after accepted parameters
    cases += [
        mk([dict(name="x", **a("{sizes}", [3]))]),
        mk([dict(name="x", **a("a", [2])), dict(name="y", **a("a {k}", [2, 3]))]),
        mk([dict(name="x", **a("a", [2]))], a("{n}*a", [4])),
        mk([dict(name="x", **a("a", [2])), dict(name="y", **a("b", [3]))], a("a {x.size}+{nope}", [2, 4])),
    ]
    return cases


def same_name_cases():
    """one identifier used both as a plain axis and as a multi-axis name: two independent bindings, both listed"""
    mk = lambda params, ret=None: {"op": "call", "kind": "new", "params": params, "ret": ret, "bindok": True, "notc": False, "body": [], "exit": "ret"}  # noqa: E731
    a = lambda d, s: {"ty": arr_type(d), "val": arr_val(s)}  # noqa: E731
    return [
        mk([dict(name="w", **a("a b", [5, 4])), dict(name="x", **a("*a b", [2, 3, 4])), dict(name="bias", **a("b", [7]))]),
        mk([dict(name="w", **a("*a b", [2, 3, 4])), dict(name="x", **a("a b", [5, 4])), dict(name="bias", **a("b", [7]))]),
        mk([dict(name="w", **a("v *v", [5, 2, 3])), dict(name="x", **a("#*v", [1, 3]))], a("v 9", [5, 4])),
        mk([dict(name="w", **a("a *#a", [2, 1, 3])), dict(name="x", **a("*a a", [4, 3, 2]))], a("a a", [2, 3])),
    ]


def nested_cases():
    """nested annotations whose outer part names no axis: what the inner axes bound before a later axis failed is not in force"""
    mk = lambda params, ret=None: {"op": "call", "kind": "new", "params": params, "ret": ret, "bindok": True, "notc": False, "body": [], "exit": "ret"}  # noqa: E731
    n = lambda d, k, s: {"ty": gen_prog.nested(arr_type(d), k), "val": arr_val(s)}  # noqa: E731
    a = lambda d, s: {"ty": arr_type(d), "val": arr_val(s)}  # noqa: E731
    return [
        mk([dict(name="x", **n("3 a a", 1, [3, 4, 5]))]),
        mk([dict(name="w", **a("b", [7])), dict(name="x", **n("_ a a b", 1, [9, 4, 4, 8]))]),
        mk([dict(name="x", **a("a", [2]))], n("2 c c", 1, [2, 5, 6])),
        mk([dict(name="x", ty={"t": "union", "ts": [gen_prog.nested(arr_type("3 a a"), 1), arr_type("_ _ a")]}, val=arr_val([3, 4, 5])), dict(name="y", **a("a", [5]))]),
    ]


def structure_union_cases():
    """a structure name bound by a PyTree whose leaf type is a union: leaves that need the second alternative make the
    first one fail at the shape stage (a rollback swaps the dictionaries) — the name must be in force afterwards, be
    listed by a later error, and make a later parameter / the return value of another structure an error"""
    mk = lambda params, ret=None: {"op": "call", "kind": "new", "params": params, "ret": ret, "bindok": True, "notc": False, "body": [], "exit": "ret"}  # noqa: E731
    U = {"t": "union", "ts": [arr_type("a"), arr_type("a b")]}
    PU = {"t": "pytree", "l": U, "s": "T"}
    PI = {"t": "pytree", "l": gen_prog.INT, "s": "T"}
    two = {"t": "dict", "keys": ["p", "q"], "vals": [arr_val([3]), arr_val([3, 4])]}
    first_only = {"t": "dict", "keys": ["p", "q"], "vals": [arr_val([3]), arr_val([3])]}
    second_only = {"t": "tuple", "xs": [arr_val([3, 4]), arr_val([3, 4])]}
    ints2 = {"t": "dict", "keys": ["p", "q"], "vals": [gen_prog.ival(1), gen_prog.ival(2)]}
    ints3 = {"t": "tuple", "xs": [gen_prog.ival(1), gen_prog.ival(2), gen_prog.ival(3)]}
    out = []
    for tree in (two, first_only, second_only):
        same = ints2 if tree["t"] == "dict" else {"t": "tuple", "xs": [gen_prog.ival(1), gen_prog.ival(2)]}
        out.append(mk([dict(name="x", ty=PU, val=tree), dict(name="y", ty=gen_prog.INT, val=gen_prog.sval("no"))]))
        out.append(mk([dict(name="x", ty=PU, val=tree), dict(name="y", ty=PI, val=ints3)]))
        out.append(mk([dict(name="x", ty=PU, val=tree), dict(name="y", ty=PI, val=same)]))
        out.append(mk([dict(name="x", ty=PU, val=tree)], {"ty": PI, "val": ints3}))
        out.append(mk([dict(name="x", ty=PU, val=tree)], {"ty": PI, "val": same}))
        out.append(mk([dict(name="x", ty=PU, val=tree), dict(name="y", ty={"t": "pytree", "l": gen_prog.INT, "s": "T T"}, val={"t": tree["t"], **({"keys": ["p", "q"], "vals": [same, same]} if tree["t"] == "dict" else {"xs": [same, same]})})]))
    # `?` axes: what each leaf position bound is listed by a later error like any other binding
    Q = {"t": "pytree", "l": arr_type("?n 2"), "s": "T"}
    QV = {"t": "pytree", "l": arr_type("*?v"), "s": "T"}
    qtree = {"t": "tuple", "xs": [arr_val([3, 2]), arr_val([5, 2])]}
    out.append(mk([dict(name="x", ty=Q, val=qtree), dict(name="y", ty=gen_prog.INT, val=gen_prog.sval("no"))]))
    out.append(mk([dict(name="x", ty=Q, val=qtree)], {"ty": arr_type("k"), "val": arr_val([1, 1])}))
    out.append(mk([dict(name="x", ty=QV, val=qtree), dict(name="w", ty=arr_type("m"), val=arr_val([4])), dict(name="y", ty=gen_prog.INT, val=gen_prog.sval("no"))]))
    return out


def after_misuse_cases(out):
    """misuse surfaces as AnnotationError — and afterwards violated annotations are still reported: each scenario in a fresh
    thread (ill-typed calls before, one misuse that raises from inside a check, the same ill-typed calls after)"""
    import threading

    import typeguard
    from impl_prog import Duck
    from jaxtyping import Float, PyTree

    @jaxtyped(typechecker=typeguard.typechecked)
    def f(x: Float[Duck, "a"], y: Float[Duck, "a 3"]) -> Float[Duck, "a"]:
        return x

    @jaxtyped(typechecker=typeguard.typechecked)
    def g(x: Float[Duck, "a"]) -> Float[Duck, "a a"]:
        return x

    @jaxtyped(typechecker=typeguard.typechecked)
    def h(t: PyTree[Float[Duck, "a"], "T"], u: PyTree[Float[Duck, "?b"], "T"]):
        return "ok"

    d2 = Duck((2,), "float32")

    def probes():
        res = []
        try:
            res.append(h((d2, d2), (Duck((5,), "float32"), d2)))          # well typed: returns
        except BaseException as e:  # noqa: BLE001
            res.append("well-typed call raised " + type(e).__name__)
        for fn, args in ((f, (Duck((2,), "float32"), Duck((5, 3), "float32"))), (f, (Duck((2,), "float32"), Duck((2, 3), "int32"))), (g, (Duck((2,), "float32"),)),
                         (h, ((d2, d2), (d2, d2, d2))), (h, ((d2, d2), [d2, d2]))):
            try:
                fn(*args)
                res.append("returned")
            except jaxtyping.TypeCheckError as e:
                res.append(impl_prog.parse_tce(e)[:2])
            except BaseException as e:  # noqa: BLE001
                res.append("raised " + type(e).__name__)
        return res

    misuses = {
        "PyTree[Float] (a bare category as leaf type)": lambda: isinstance((Duck((2,), "float32"),), PyTree[Float]),
        "isinstance(x, Float)": lambda: isinstance(Duck((2,), "float32"), Float),
        "unbound symbolic name inside a PyTree": lambda: isinstance((Duck((2,), "float32"),), PyTree[Float[Duck, "zz+1"]]),
        "unbound symbolic name inside a STRUCTURED PyTree": lambda: isinstance((Duck((2,), "float32"), Duck((2,), "float32")), PyTree[Float[Duck, "zz+1"], "T"]),
        "a bare category as leaf type of a structured PyTree": lambda: isinstance((Duck((2,), "float32"),), PyTree[Float, "T"]),
        "'?' beneath two structured PyTrees": lambda: isinstance(((Duck((2,), "float32"),),), PyTree[PyTree[Float[Duck, "?q"], "S"], "T"]),
    }
    for name, misuse in misuses.items():
        box = {}

        def scenario():
            box["before"] = probes()
            try:
                misuse()
                box["misuse"] = "returned"
            except jaxtyping.AnnotationError:
                box["misuse"] = "AnnotationError"
            except BaseException as e:  # noqa: BLE001
                box["misuse"] = "raised " + type(e).__name__
            box["after"] = probes()

        t = threading.Thread(target=scenario)
        t.start()
        t.join(60)
        out.case(("after-misuse", name), True, sample=dict(box, misuse_kind=name))
        if box.get("misuse") != "AnnotationError":
            out.violation("after-misuse:not-annotation-error", f"{name} ended as {box.get('misuse')}, must raise AnnotationError", {"after_misuse": name})
        if box.get("before") != box.get("after") or "returned" in (box.get("after") or ["returned"]) or (box.get("after") or [None])[0] != "ok":
            out.violation("after-misuse:errors-lost", f"after {name} the same ill-typed calls give {box.get('after')} (before: {box.get('before')}); each must raise "
                          f"TypeCheckError as before", {"after_misuse": name})


def overlapping_errors(out):
    """the bindings an error lists are those of ITS call: another thread inside its own checked call at the same time
    (other axis names, other sizes) contributes nothing. A enters its body, B enters its body, A returns an ill-typed value."""
    import threading

    import typeguard
    from impl_prog import Duck

    for remove_stack in (False, True):
        jaxtyping.config.update("jaxtyping_remove_typechecker_stack", remove_stack)
        try:
            res = {}
            in_a, go_a, in_b, go_b = threading.Event(), threading.Event(), threading.Event(), threading.Event()
            bad = Duck((2, 9), "float32")

            @jaxtyped(typechecker=typeguard.typechecked)
            def fa(x: jaxtyping.Float[Duck, "a"]) -> jaxtyping.Float[Duck, "a"]:
                in_a.set()
                go_a.wait(30)
                return bad

            @jaxtyped(typechecker=typeguard.typechecked)
            def fb(y: jaxtyping.Float[Duck, "b"]) -> jaxtyping.Float[Duck, "b"]:
                in_b.set()
                go_b.wait(30)
                return y

            def run_a():
                try:
                    fa(Duck((2,), "float32"))
                    res["A"] = "returned"
                except jaxtyping.TypeCheckError as e:
                    res["A"] = impl_prog.parse_tce(e)
                except BaseException as e:  # noqa: BLE001
                    res["A"] = "raised " + type(e).__name__

            def run_b():
                try:
                    fb(Duck((7,), "float32"))
                    res["B"] = "returned"
                except BaseException as e:  # noqa: BLE001
                    res["B"] = "raised " + type(e).__name__

            ta, tb = threading.Thread(target=run_a), threading.Thread(target=run_b)
            ta.start()
            in_a.wait(30)
            tb.start()
            in_b.wait(30)
            go_a.set()
            ta.join(30)
            go_b.set()
            tb.join(30)
            want_a = ("tceReturn", None, {"single": [["a", 2]], "variadic": [], "struct": []})
            got_a = res.get("A")
            got_a = (got_a[0], got_a[1], got_a[2]) if isinstance(got_a, tuple) else got_a
            out.case(("overlap", remove_stack), True, sample={"A": str(got_a), "B": res.get("B")})
            if got_a != want_a or res.get("B") != "returned":
                out.violation("overlap:bindings", f"thread A's ill-typed return (a=2 in force) while thread B is inside its own call (b=7): A got {got_a}, must be {want_a}; "
                              f"B: {res.get('B')}, must return", {"overlap": remove_stack})
        finally:
            jaxtyping.config.update("jaxtyping_remove_typechecker_stack", False)


_NESTED_COUNTER = [0]


def decoration_during_call(out):
    """a decorated function that DEFINES (and decorates) another one while it runs — what the import hook produces for
    every nested definition — with structure names shared between the two: the well-typed outer call returns, and when
    the outer call really violates its return annotation the error lists exactly the bindings the call made (nothing that
    stems from the decoration)"""
    import beartype
    import typeguard
    from jaxtyping import PyTree, TypeCheckError

    for ck, tc in (("typeguard", typeguard.typechecked), ("beartype", beartype.beartype)):
        _NESTED_COUNTER[0] += 1
        name = f"N{_NESTED_COUNTER[0]}s"

        @jaxtyped(typechecker=tc)
        def outer(n: int, bad: bool) -> PyTree[int, name]:
            @jaxtyped(typechecker=tc)
            def helper(t: PyTree[complex, name]):
                return t

            return (n, "x") if bad else (n, n + 1)

        res = {}
        for tag, bad in (("well-typed first call", False), ("well-typed second call", False), ("ill-typed call", True)):
            try:
                outer(1, bad)
                res[tag] = "returned"
            except TypeCheckError as e:
                res[tag] = "TypeCheckError" + (" listing " + name if name + "=" in str(e) else "")
            except BaseException as e:  # noqa: BLE001
                res[tag] = type(e).__name__
        out.case(("decoration-during-call", ck), True, sample={"checker": ck, **res})
        want = {"well-typed first call": "returned", "well-typed second call": "returned", "ill-typed call": "TypeCheckError"}
        if res != want:
            out.violation(f"decoration-during-call:{ck}", f"outer(n) -> PyTree[int, {name!r}] decorates a helper annotated PyTree[complex, {name!r}] in its body ({ck}): {res}; "
                          f"required {want} (the ill-typed return is a tuple with a str leaf: no structure was bound by any value of the call)", {"decoration_during_call": ck})
            return


def run(tier, seed, out, drv, facts):
    rng = Rng(seed, "C13")
    thorough = tier == "thorough"
    for call in annotation_error_cases():
        for ck in ("typeguard", "beartype"):
            run_call(out, drv, facts, call, ck, False, rng, "misuse")
    overlapping_errors(out)
    after_misuse_cases(out)
    decoration_during_call(out)
    for call in nested_cases():
        for rs in (False, True):
            run_call(out, drv, facts, call, "typeguard", rs, rng, "nested")
    for call in same_name_cases():
        for rs in (False, True):
            run_call(out, drv, facts, call, "typeguard", rs, rng, "same-name")
    for call in structure_union_cases():
        run_call(out, drv, facts, call, "typeguard", False, rng, "structure-union")
    n = 40000 if thorough else 400
    for i in range(n):
        call, class_only = gen_call(rng, thorough)
        run_call(out, drv, facts, call, "typeguard", bool(i % 2), rng, "call")
        if class_only and i % 3 == 0:
            run_call(out, drv, facts, call, "beartype", bool(i % 2), rng, "call-beartype")


def replay(rep, out, drv, facts):
    if "overlap" in rep:
        overlapping_errors(out)
        return
    if "decoration_during_call" in rep:
        decoration_during_call(out)
        return
    if "after_misuse" in rep:
        after_misuse_cases(out)
        return
    run_call(out, drv, facts, rep["program"][0], rep.get("checker", "typeguard"), rep.get("remove_typechecker_stack", False), None, "replay")
